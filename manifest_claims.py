# Claims table, exec'd by gen_manifest.py.  claim(id, technique, text, note)
not_applicable = {}

claim("C22",
      "explicit-state BFS closure of the real Controller against a reference joypad model",
      "The complete reachable state space of the controller (raw JOYP byte x direction inputs x button inputs) is closed breadth-first under all 16 press/release events and all 256 JOYP writes, every transition executed on the real Mapper/Controller and compared with an independent reference model; unbounded depth, so within the alphabet the property is decided, not sampled.",
      "Trusted: ref/joyp.go (written from Pan Docs), the completeness of the state key (the struct's three fields). The GL key mapping is outside the check.")
