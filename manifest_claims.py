# Claims table, exec'd by gen_manifest.py.  claim(id, technique, text, note)
not_applicable = {}

claim("C22",
      "explicit-state BFS closure of the real Controller against a reference joypad model",
      "The complete reachable state space of the controller (raw JOYP byte x direction inputs x button inputs) is closed breadth-first under all 16 press/release events and all 256 JOYP writes, every transition executed on the real Mapper/Controller and compared with an independent reference model; unbounded depth, so within the alphabet the property is decided, not sampled.",
      "Trusted: ref/joyp.go (written from Pan Docs), the completeness of the state key (the struct's three fields). The GL key mapping is outside the check.")

claim("C25",
      "exhaustive enumeration of instance-step interleavings on the real code, differential against solo runs",
      "Every interleaving of 2 instances x 5 steps and 3 x 2 (thorough: 2 x 8 and 3 x 4; steps of 1, 7, 61 and 17,556 machine cycles), under three creation orders (all first / lazily / an extra instance created mid-run), is executed on real instances wired like gameboy.New; after every step every live instance must equal its own solo run at the same step count (registers and reads; all writable regions and the frame at the end). The schedule space is enumerated completely within the stated shape.",
      "Schedules are explored in one goroutine under a supervisor process so that a shared-state defect fails deterministically (including the emulator's own os.Exit). Memory-model-level data races between truly parallel instances are outside a cooperative schedule enumeration; package-level mutable state is what the interleavings expose.")

claim("C12",
      "exhaustive depth/deviation-bounded enumeration of tick/write interleavings on the real Timer in lock-step with a cycle-indexed reference timer",
      "Every sequence over {tick, wDIV, wTIMA v, wTMA v, wTAC t} (16 events) up to depth 9 with at most 3 writes (thorough: depth 14 / 3 writes and depth 9 / 4 writes) is executed on the real timer.Timer from ~5,000 start states placed at every counter phase around the rising and falling edge of each selectable bit, around counter wrap and at power-on; after every event DIV/TIMA/TMA/TAC read-back and the interrupt result are compared with an independent reference timer whose reload machine is indexed by cycles only. Writes are additionally placed at every offset around every overflow of long runs.",
      "Trusted: ref/timer.go (Pan Docs timer obscure behaviour). Don't-cares pruned rather than judged: writes in the cycle after a cancelled reload; increment coinciding with a TMA-write load. Value alphabet for TIMA/TMA writes is {00,57,FF}.")

claim("C08",
      "explicit-state BFS closure of each controller's register machine on the real Mapper against a reference bank model, plus exhaustive write sweeps",
      "For MBC1, MBC2, MBC3 and MBC5 and every declared ROM size up to the controller's documented maximum, the reachable register states are closed breadth-first under writes of values to 14 control-region representatives (all 256 values at the largest size and in the thorough tier; a boundary value set otherwise); after each write both ROM windows are identified by unique page signatures and compared with the documented bank arithmetic (5+2 bit / mode / 0->1 / modulo). Every supported cartridge-type byte (incl. ROM-only) additionally gets fixed-order sweeps of all 3,584 (address,value) writes, and every page is re-read byte by byte afterwards.",
      "Trusted: ref/cart.go (Pan Docs MBC sections), the snapshot hook VMBCSave/VMBCLoad (copies the controller struct). State key = visible page ids + model registers; hidden implementation state outside the key is additionally exercised by the long sweeps.")

claim("C09",
      "exhaustive depth-bounded enumeration of RAM enable/bank/mode/write sequences on the real Mapper against a reference RAM model",
      "For MBC1, MBC3 and MBC5 with every claimed RAM-size code (none, 8, 32, 128, 64 KiB), MBC2 and ROM-only, every sequence of up to 3 (thorough 4) events over {6 enable values at 2 addresses, every bank select, MBC1 mode, 4 values written to 6 window addresses} is executed on the real Mapper; after each event six window addresses are compared with the reference (gating, bank modulo, retention across disable/bank switches, MBC2 nibble mirror) and at each leaf DumpRAM is compared with exactly the stored bytes.",
      "Trusted: ref/cart.go, the snapshot hook. RAM-size code 1 (2 KiB) and MBC3 clock selectors are outside this check (C10/C11).")

claim("C10",
      "exhaustive enumeration of all RTC counter states (one step each) plus bounded exhaustive latch/access event sequences on the real MBC3 clock against a reference clock",
      "(a) all 134,217,728 counter states get one real one-second step, compared with the reference carry chain; (b) the sub-second count is preset to every value within 16 of the second boundary and 40 real Mapper cycles are run, all five registers observed through latch+read after every cycle, running and halted, plus an un-hooked run across two emulated seconds; (c) every sequence of up to 4 (thorough 6) events over {latch 00/01, select 08-0C or RAM, 10 write values, enable/disable, one cycle, jump to just before the next second} from three start states, with the complete guest-visible clock (fresh latch + five reads on a restored snapshot) compared after every event.",
      "Trusted: ref/rtc.go (Pan Docs MBC3), hooks VRTCGet/VRTCSet/VRTCIncrement/VMBCSave. Latch values other than 00/01 are unspecified and outside the alphabet.")

claim("C11",
      "exhaustive enumeration of image headers/lengths, control writes, bus accesses and short guest programs on the real code with per-case crash detection (panic recovery + supervised sub-processes)",
      "Complete products, each case executed on the real emulator: all 256 cartridge-type bytes x ROM/RAM size codes x 15 image-length classes (construction may fail; otherwise the machine must survive window accesses, control writes, clock selectors and CPU cycles); every supported cartridge x every control region x all 256 values x every (region, value-class) second write; full 64 KiB read/write sweeps and DMA from every page with LCD/RAM on and off; every opcode (512 encodings x 8 operand pairs) and all ordered pairs of 55 representative opcodes with pointers, SP and PC in 22 address-region classes on five controller kinds; the 11 undefined opcodes must exit with status 1 and the message (sub-process). A Go panic is recovered per case and reported with a replayable case; a process exit is attributed by the supervisor.",
      "Level note: the oracle is crash-freedom (no panic / no exit), which is what the statement asks. Programs are bounded to 64 (thorough 2,048) cycles each. Non-termination and memory growth are not observed.",
      level="fault_enumeration")

claim("C01",
      "exhaustive enumeration of the single-step relation (state x instruction -> state) of the real CPU against an independent reference SM83 interpreter",
      "For all 245 base and 256 CB opcodes the real CPU executes one instruction from enumerated states and every register, flag, addressed memory write and (on a spread of cases) every writable memory byte is compared with a reference interpreter decoded from the opcode bit fields: 8-bit ALU over A x operand x flag nibbles, INC/DEC/CB/accumulator operations over value x all 16 flag nibbles, DAA also row by row against the repository's daa.csv, INC/DEC rr over all 65,536 values, ADD SP,e and LD HL,SP+e over SP x e (all 2^24 in the thorough tier), ADD HL,rr over the stated carry-chain sub-domain, POP AF over all low bytes, and every opcode over 13 pointer placements x 16 flag nibbles x operand pairs x 4 code placements (WRAM, HRAM, across DFFF/E000, wrapping FFFF/0000).",
      "Trusted: ref/sm83.go (cross-checked against daa.csv at run time). ADD HL,rr is a stated sub-domain of 2^32. Data pointers avoid side-effecting I/O registers. STOP's PC increment is a don't-care.")

claim("C02",
      "exhaustive enumeration of instruction lengths over all opcodes, flag nibbles and ordered opcode pairs on the real CPU against reference cycle counts",
      "The number of ExecuteMachineCycle calls between instruction boundaries is compared with the reference count for every opcode under all 16 flag nibbles and for every ordered pair of the 500 executable encodings (the second instruction runs immediately after the first on the same CPU, so a stale early-finish predicate or leftover micro-op state shows), with control transfers landing in WRAM; in addition every instruction executed by the blargg timing ROMs is measured by a per-instruction monitor.",
      "Trusted: the reference cycle rules (decode-based, Pan Docs/gbops). Interrupt dispatch and HALT lengths are C04/C05.")

claim("C03",
      "exhaustive enumeration of memory-accessing opcodes x pointer placements with per-cycle marker injection and per-cycle write observation on the real CPU",
      "For every opcode that reads or writes memory, 8 pointer placements (WRAM, echo, HRAM, VRAM/OAM with LCD off) and 16 flag nibbles, the harness stores the distinguishing marker at each read address only before the documented read cycle, so the value consumed (visible in registers/flags at the boundary) identifies the cycle of each read, and reads back every write target after every machine cycle so the cycle of each write is observed; documented cycles come from the reference interpreter's access list (LD A,(nn) R@4, PUSH W@3,4, INC (HL) R@2 W@3, CB (HL) R@3 W@4, CALL W@5,6, RET cc R@3,4, LD (nn),SP W@4,5, ...).",
      "Operand-byte fetch timing and interrupt-dispatch pushes are outside the statement. Accesses to side-effecting I/O registers are not used as probes.")

claim("C04",
      "exhaustive enumeration of control-instruction programs x interrupt-request injection points on the real CPU in lock-step with a reference interrupt/EI/DI/RETI control machine",
      "The complete IE x IF x IME boundary table (2,048 cases + unused high bits) and every program of length <= 3 (thorough 4) over {NOP, EI, DI, RETI, INC A, LDH (0F),A, LDH (FF),A, LD A,00, LD A,1F} x initial IME x 6 IE values x one interrupt request of each of the five sources raised before every machine cycle 0-13 (thorough: also pairs of requests) are executed cycle by cycle on the real CPU/Interrupts/Mapper; at every instruction boundary the boundary time (dispatch = exactly 5 cycles), all registers, IF, IE and the pushed return address are compared with the reference machine (priority, exactly one IF bit cleared, EI delayed by one instruction, DI/RETI immediate).",
      "Requests arriving while a dispatch is in progress are a don't-care (pruned). The IME flag is judged only through behaviour.")

claim("C05",
      "exhaustive enumeration of HALT x follower opcode x IME x pending state x request arrival time on the real CPU in lock-step with the reference HALT/halt-bug machine",
      "HALT followed by each of the 500 executable encodings, under both IME values, 8 IE/IF combinations and one request of each source arriving before every cycle of the idle bound (8, thorough 32) or never; while idle every cycle is compared (nothing may change), wake-up with IME=1 must dispatch in 6 cycles, wake-up with IME=0 must resume at the following instruction leaving IF untouched, and HALT with IME=0 and a pending request must execute the following byte twice.",
      "IME=0 wake-up latency (0-4 cycles) and the halt bug in front of a CB prefix are don't-cares.")

claim("C06",
      "exhaustive enumeration of addresses x values through the real Mapper from several machine states against a reference address map / register table",
      "From 7 machine states (power-on, LCD off, LCD+APU off, after a busy ROM, MBC1 with RAM enabled, channel 3 playing, DMA in flight) the plain-memory regions (WRAM and its echo in both directions, HRAM, IE, and VRAM/OAM with the LCD off) get three complete write sweeps in different orders and patterns, each followed by a complete read-back of all plain memory, plus all 256 values at every region-boundary address; every I/O address FF00-FF7F gets all 256 values with the read-back compared to (written & writable) | always-one | read-only bits from a register table (IF E0, TAC F8, STAT 80 + read-only mode/coincidence, sound masks, DMA/BGP/OBP0/OBP1/SCX/SCY/LYC/WX/WY full), DIV and LY never take the value, unmapped addresses read FF and FEA0-FEFF reads 00.",
      "Trusted: ref/addrmap.go. No machine cycle elapses between write and read (LY with the LCD on: one cycle). NR52 and the JOYP input nibble are judged by C18/C19/C22.")

claim("C07",
      "exhaustive enumeration of single writes with a full 64 KiB before/after diff on the real Mapper against documented effect sets",
      "For every address in FE00-FFFF, every 0x100-aligned address +-1 and every region boundary +-1 (thorough: all 65,536 addresses) x 8 values x 7 machine states, the whole 64 KiB space is read before and after one Mapper.Write; every changed location must belong to the documented effect set of the written address (own value and mirror, cartridge windows for control writes, LCDC->STAT/LY, DMA->OAM window, NR52->sound registers and wave RAM, envelope/trigger/sweep/DAC->NR52 status, NR30/NR34->wave RAM window).",
      "The new values of documented side effects are judged by the owning properties (C06/C08/C09/C18/C19); C07 only bounds *where* a write may have an effect.")

claim("C13",
      "exhaustive enumeration of LCD off/on switching points over two frames of the real PPU, every cycle observed, against a reference line/mode monitor",
      "LY and the STAT mode are read through the Mapper after every machine cycle and checked by a reference monitor (LY 0-153 cyclic, 114 cycles per line, mode 2/3/0 boundaries at 20 and 61, mode 1 on lines 144-153, 17,556 per frame, shorter first line). Besides 4 free-running frames, the LCD is switched off at EVERY cycle position of the first and of the steady second frame (35,112 positions) for 0, 1, 5 and 200 cycles (LY=0 and mode 0 at once and throughout), switched on again (line 0, mode 2 at once) and monitored for 260 further cycles (thorough: more than a frame); each excursion starts from a snapshot of the PPU.",
      "Which cycle of a line LY changes on is an implementation convention; only the first line after switching on is given a one-cycle tolerance (112 or 113 observed cycles).")

claim("C14",
      "exhaustive enumeration of STAT sources x LYC values x LCD off/on points on the real PPU with per-cycle IF observation against a reference request predictor",
      "IF is read and cleared after every machine cycle, so the exact cycle of every request is observed: VBlank exactly when LY becomes 144 and once per frame; with one STAT source enabled, a request exactly at the rising edge of that source (mode-0 entry; LY becomes 144; LY becomes n for n in 0-143; LY becomes LYC for every LYC 0-153 and out of range) over 3 frames; and for LCD off (1 and 300 cycles) / on at every cycle of lines 0, 1, 143, 144, 153 (thorough: every cycle of a frame): nothing requested by switching off, while off, or (VBlank/HBlank sources) by switching on.",
      "Don't-cares: OAM source at line 144; STAT requests in the cycle the LCD is switched on for the OAM/LYC sources; several sources at once.")

claim("C15",
      "exhaustive enumeration of a finite scene family rendered by the real PPU, compared pixel by pixel with a reference DMG compositor",
      "Every scene of a union of complete products is written through the Mapper with the LCD off, rendered by one frame of real PPU cycles and compared pixel by pixel (160x144 RGBA) with the reference composition: background/window product (tile map x addressing mode x SCX x SCY x window off or WX x WY x window map x palettes); single-object product (X at every clipping amount at the left/right edges, Y at every clipping amount at the top/bottom edges, 4 flips, both palettes, both priorities); pairs of overlapping objects (dx, dy in {-7..7} classes x priority/palette combinations, OAM in X order); ten objects on a line. Tile data is one of three fixed sets of 384 distinct patterns (VERIF_SEED selects the set).",
      "Trusted: ref/render.go (Pan Docs tile data, OAM attributes, priorities). The scene family is a stated finite sub-domain of 'all scenes'; the preconditions of the statement (8x8 objects, <= 10 per line, X-ordered OAM, WX 7-166, constant scene) are respected.")

claim("C16",
      "exhaustive enumeration of DMA source pages, restart cycles and source-rewrite cycles on the real Mapper/OAM with every cycle of every transfer observed",
      "Every source page 00-F1 (cartridge RAM enabled and disabled) is transferred on an MBC1+RAM cartridge whose ROM, VRAM, cartridge RAM and WRAM hold position-dependent bytes: after every machine cycle FE00, FE9F, FEA0 and FEFF must read FF until the transfer completes, completion must come within 162 cycles, and OAM must then equal the 160 source bytes (E0-F1 through the work-RAM mirror). A second FF46 write is issued after every cycle 1-162 (page pairs from {00,80,C0,DF,E0,F1}), and one source byte is rewritten after every cycle 1-165 for six byte indices, where OAM must hold the byte as it was when copied.",
      "Completion is observed through FEA0. A source rewrite within one cycle of the byte's copy cycle accepts either value.")

claim("C17",
      "exhaustive enumeration of LCD switch-off points x pointer placements x short pointer-moving programs on the real CPU+PPU+OAM, differential against plain-memory OAM driven by the reference CPU",
      "OAM is filled by DMA with 20 distinct rows; at every cycle 0-113 of lines 0, 1, 143, 144 and 153 the LCD is switched off (hence in every mode and at every point of mode 2), or switched off-on-off, or left on outside mode 2; from a snapshot at that point every program of length 1 (thorough 2; length 2/3 on line 1) over 23 instructions that move or dereference BC/DE/HL/SP is run with every pointer in {FDFF,FE00,FE08,FE50,FE98,FE9F,FEA0,FEFF,FF00}; afterwards OAM must equal plain memory updated only by the reference CPU's writes into FE00-FE9F.",
      "With the LCD on, runs that touch mode 2 are not judged. Programs are straight-line; DMA is covered by C16.")

claim("C18",
      "exhaustive enumeration of sound-register writes x values x power states, and depth-bounded write/power/time sequences, on the real APU in lock-step with a reference register/power model",
      "(a) every register NR10-NR51 x all 256 values x {powered on, powered off, written while off then powered on}, each preceded by the complementary value, with all 20 registers, NR52 and three wave-RAM bytes read back after each write (last written value OR the DMG mask while on, masks while off, writes ignored while off except NR52 and the length registers, wave RAM preserved); (b) every sequence of up to 3 (thorough 4) events over 188 register/wave-RAM writes (8 values, no trigger bits), NR52<-00, NR52<-80, 1 cycle and 4,096 cycles, from power-on and from a powered-off start, with the full read-back after every event and NR52 after every machine cycle.",
      "Trusted: ref/apu.go, ref/addrmap.go masks (as listed in the statement), the audio snapshot hook. Start-up register values are not asserted (the statement does not fix them).")

claim("C19",
      "exhaustive depth-bounded enumeration of length/DAC/trigger/power/time event sequences per channel on the real APU, NR52 compared with a reference length/status model after every machine cycle",
      "For each of the four channels every sequence of up to 4 (thorough 6) events over {4 length loads, DAC on/off, NRx4 in {00,40,80,C0}, NR10 in {00,11} with frequency 7FF for channel 1, NR52 off/on, 1 cycle, to one cycle before the next 512 Hz step, 2 cycles, 2,048 cycles} (at most 3 writes between time advances) is executed after a power cycle; NR52 is compared with the reference (status on only by trigger with DAC on and no sweep overflow; off by DAC off, power off, sweep overflow, length expiry; extra length clock when enabling or triggering in the first half of a frame-sequencer period) after every event and every machine cycle. Complete expiry runs cover (channel, length data, first/second half, enable at/after trigger, skew) and re-triggers with the counter at 0.",
      "Frame-sequencer step times are taken from the implementation (phase convention) and checked to be exactly 2,048 cycles apart. Don't-cares are listed in the evidence assumptions.")

claim("C21",
      "exhaustive enumeration of channel frequencies / NR43 values on the real APU with per-cycle waveform-position observation against the documented step periods and LFSR sequence",
      "For channels 1, 2 and 3 and every enumerated 11-bit frequency (quick: all f with at most two bits set or clear plus the neighbourhood of 0x400; thorough: all 2,048), the duty/wave position is read after every machine cycle over 24 steps and the cumulative step count must equal floor((4N+phi)/P) for one phase and P = 4(2048-f) (2(2048-f) for channel 3) clock cycles; for channel 4 every NR43 value with shift <= 13 must step the LFSR every d(r)*2^s clock cycles over 6 steps; at the fastest clock the output bit over three periods must have minimal period 32,767 (15-bit) and 127 (7-bit) and be a rotation of the documented x^15+x^14+1 sequence.",
      "Positions are read through the audio hook (VGet); the delay of the first step after a trigger is treated as a phase convention (at most one extra period).")

claim("C23",
      "exhaustive enumeration of short I/O write sequences and of every store instruction form aimed at SB on the real Mapper/CPU, plus monitored whole-ROM transcripts",
      "(a) every sequence of up to 4 (thorough 5) Mapper writes over 11 events (SB with four values, SC, JOYP, DIV, IF, WRAM, FF03), with a recording writer and with none, with and without machine cycles in between: after every write the transcript must equal the SB writes so far and SB/SC must read FF; (b) every executable opcode with BC, DE, HL, SP-2, FF00+n, FF00+C and nn aimed at FF00, FF01, FF02 and FEFF (3 accumulator values, 2 flag sets): the delivered bytes must equal exactly the reference CPU's writes to FF01; (c) 14 blargg ROMs: the transcript equals the SB stores decoded by a per-instruction monitor.",
      "Trusted: ref/sm83.go write log. The Config.SerialWriter wiring of gameboy.New is covered by C26's twin comparison.")

claim("C20",
      "exhaustive per-cycle observation of the sample channels over long runs from several phases, and exhaustive enumeration of routing/volume configurations with paired runs, on the real APU",
      "Pacing: the left/right channels are drained after every machine cycle for 2.3 million cycles from power-on and from 8 further phases (with a sound power cycle there); per cycle at most one left and one right sample, always together, and a single phase must place sample k in cycle floor((phi+95k)/4) for every k of the run; no sample with sound off or without outputs. Routing: NR51 (all 256) x playing-channel subsets (16) x NR50 values: a side with no playing channel routed to it is exactly 0, every sample is finite and in [0,1), and altering only a channel that is not routed to a side leaves that side's sample sequence identical (paired runs). Range: channel volumes 0-15 (three channels) x wave level x NR50 with everything routed.",
      "Samples are observed on the channels handed to audio.New; the speakers wiring of gameboy.New is covered by C26. Quick tier enumerates 1/8 of the NR51 x subset x NR50 product for the non-default NR50 values and 1/3 of the volume cube; the thorough tier enumerates them completely.")

claim("C24",
      "differential replay of every test ROM under fixed input schedules: twice in-process and once in a separate process, per-frame state hashes compared",
      "Every non-empty ROM under testdata (about 158) x fixed button schedules is run through the real gameboy.New and runFrame with display, speakers and serial writer attached: twice in this process (with another ROM in between) and once in a separate process; after every frame a hash of registers, all writable memory, ROM-window probes, frame pixels, drained samples, serial bytes and RTC/APU generator state, and finally of the full 64 KiB space and the cartridge RAM dump, must agree between the three runs (60 frames x 2 schedules; thorough 600 frames x 4 schedules).",
      "This is differential replay, not a state-space search: there is no nondeterministic choice inside the emulator to enumerate, which the check demonstrates rather than assumes. An observed difference is reported without demanding that it reproduces (that is the nature of the defect).",
      level="exploration")

claim("C26",
      "differential twin execution of the real runFrame against the documented loop over enumerated start states, exhaustive timer-overflow placement over a frame, and enumerated stop-request scenarios of the real Run",
      "(a) Twin emulators built by the real gameboy.New from 9 ROMs (timer-, DMA-, OAM-bug-, RTC-, sound- and interrupt-heavy), after 0, 1, 2, 7 (thorough also 30, 120) frames, with audio/video attached or not: one runs the real runFrame, the other the documented loop (17,556 x CPU; video; memory; audio; timer->IF) on its own components, and after each of 3 frames registers, writable memory, frame pixels, drained samples, serial output and RTC/APU progress must be identical, with the RTC sub-second count advanced by exactly 17,556 and the APU clock by 70,224 and exactly one frame handed to the display. (b) A timer overflow is placed in every 5th machine cycle of a frame and in each of the last 300 (thorough: every cycle): the timer request must be in IF afterwards. (c) Run: close request at frame n, context cancelled inside frame n or before Run (n = 0..4), video and audio attached or not: at most one further frame, Run returns, display and speakers each released exactly once, no panic.",
      "The stub display/speakers replace the GL/PortAudio front end. Component order changes without any observable effect (e.g. swapping two components that share no state) are by construction not distinguishable.")
