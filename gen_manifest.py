#!/usr/bin/env python3
"""Regenerates MANIFEST.json from the table below (keeps it valid at all times)."""
import json, subprocess, os
HERE = os.path.dirname(os.path.abspath(__file__))
props = [json.loads(l)["id"] for l in open(os.path.join(HERE, "properties.jsonl"))]

MC = "model_checking"
# id -> (level, technique, text, note, design_ref)
claimed = {}
def claim(id, technique, text, note, level=MC, ref=None):
    claimed[id] = dict(level=level, technique=technique, text=text, note=note, ref=ref or f"DESIGN.md §3 {id}")

def more(id, text):
    """appends a sentence block to an existing claim (parts added in later rounds)"""
    claimed[id]["text"] += " " + text

exec(open(os.path.join(HERE, "manifest_claims.py")).read())

def hook_commits():
    try:
        out = subprocess.check_output(["git", "-C", "/repo", "log", "--format=%H %s"], text=True)
        return [l.split()[0] for l in out.splitlines() if "verif hooks:" in l][::-1]
    except Exception:
        return []

checks = []
for p in props:
    if p not in claimed:
        continue
    c = claimed[p]
    checks.append({
        "property_id": p,
        "quick_cmd": f"./check {p} --tier quick",
        "thorough_cmd": f"./check {p} --tier thorough",
        "evidence_file": f"/verif/evidence/{p}.json",
        "replay_cmd_template": f"./check {p} --replay {{path}}",
        "engine": "vmc",
        "level_claimed": {"category": c["level"], "text": c["text"], "design_ref": c["ref"]},
        "level_note": c["note"],
        "technique": c["technique"],
    })
manifest = {
    "version": 1,
    "setup_cmd": "./setup.sh",
    "hooks": {
        "guard": "verif",
        "enable": "go build -tags verif -overlay <generated overlay.json replacing gameboy/display/display.go and gameboy/speakers/speakers.go by /verif/overlay stubs> (done by ./check on every run, from /repo's working tree)",
        "baseline_off_cmd": "cd /repo && GOFLAGS=-mod=mod GOPROXY=off GOSUMDB=off GOTOOLCHAIN=local go test -json -vet=off -count=1 -timeout 25m ./gameboy/cpu/... ./gameboy/timer/...",
        "source_commits": hook_commits(),
        "add_only": True,
    },
    "engines": [{
        "name": "vmc",
        "path": "/verif/mc",
        "serves_properties": [c["property_id"] for c in checks],
        "kind_free_text": "hand-written Go explicit-state explorer over the real emulator code (complete finite products sharded over 16 workers; breadth-first closure with canonical-state de-duplication and snapshot/replay successors; deviation-bounded event interleaving), lock-step reference models in Go, replay artefacts (including failures that need a history on the same instance or a second instance in the process), known-finding classification; for the timer and the interrupt/HALT control machine additionally TLA+ models checked by TLC whose complete state graphs are replayed edge by edge on the implementation",
    }],
    "checks": checks,
    "not_applicable": [{"property_id": p, "reason": not_applicable.get(p, "check not built yet in this session (claimed in DESIGN.md; work in progress)")} for p in props if p not in claimed],
    "notes": "All checks rebuild vmc from $VERIF_REPO (default /repo) working tree on every invocation. Exit 0 = held (possibly with KNOWN-FINDING lines), 1 = VIOLATION, 2 = build/harness error. known_findings.json is read-only at run time.",
}
json.dump(manifest, open(os.path.join(HERE, "MANIFEST.json"), "w"), indent=1)
print("MANIFEST.json:", len(checks), "claimed,", len(manifest["not_applicable"]), "not applicable")
