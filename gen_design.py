#!/usr/bin/env python3
"""Fills the generated blocks of DESIGN.md (between <!-- BEGIN:x --> / <!-- END:x -->) from the evidence files,
known_findings.json, mutants/RESULTS.txt and seeded/*/ (meta.json, verify.log)."""
import json, glob, os, re
H = os.path.dirname(os.path.abspath(__file__))
def esc(s): return str(s).replace('|', '\\|').replace('\n', ' ')

def asbuilt():
    out = []
    for f in sorted(glob.glob(H + '/evidence/C*.json')):
        e = json.load(open(f)); c = e['coverage']
        out.append(f"**{e['property_id']}** (level `{e['level']}`; numbers from the last `{e['tier']}` run: {c.get('evaluations')} evaluations, {sum(p['transitions'] for p in c['parts'])} transitions on the real code, {c.get('distinct_outcomes')} distinct outcomes, exhaustive={str(c.get('exhaustive')).lower()}, {e.get('wall_s',0):.1f} s)\n")
        out.append("*Rule.* " + c.get('rule', '') + "\n")
        parts = c['parts']
        if len(parts) > 8:
            out.append(f"*Parts.* {len(parts)} parts; e.g.\n")
            parts = parts[:3] + parts[-2:]
        else:
            out.append("*Parts.*\n")
        for p in parts:
            out.append(f"- `{p['part']}` — {p['cases']} cases; bound: {p.get('bound','')}; domain: {p.get('domain','')}")
        if e.get('assumptions'):
            out.append("\n*Don't-cares / assumptions.* " + "; ".join(e['assumptions']) + "\n")
        out.append("")
    return "\n".join(out)

def findings():
    k = json.load(open(H + '/known_findings.json'))
    rows = ["| property | status | commit | what failed |", "|---|---|---|---|"]
    for f in k['findings']:
        rows.append(f"| {f['property']} | {f['status']} | {f.get('commit','')} | {esc(f['what'])} |")
    return "\n".join(rows)

def mutants():
    p = H + '/mutants/RESULTS.txt'
    if not os.path.exists(p): return "(not run yet)"
    rows = ["| mutant | check | result |", "|---|---|---|"]
    for l in open(p):
        m = l.split()
        if len(m) >= 5: rows.append(f"| {m[1]} | {m[2]} | {m[3]} ({m[4]}) |")
    return "\n".join(rows)

def seeded():
    rows = ["| seed | property | what was changed | needs | confirmed (tests pass / demo clean / demo patched) | checks run → result |", "|---|---|---|---|---|---|"]
    for d in sorted(glob.glob(H + '/seeded/C*')):
        if not os.path.exists(d + '/meta.json'): continue
        try: m = json.load(open(d + '/meta.json'))
        except Exception: m = {}
        log = open(d + '/verify.log').read() if os.path.exists(d + '/verify.log') else ''
        conf = re.search(r'baseline-with-patch=(\S+) demo-clean-exit=(\S+) demo-patched-exit=(\S+)', log)
        conf = "/".join(conf.groups()) if conf else "n/a"
        res = ", ".join(f"{a} {b}" for a, b in re.findall(r'check=(C\d+) (\S+)', log)) or m.get('verdict', 'not counted')
        rows.append(f"| {os.path.basename(d)} | {m.get('property','')} | {esc(m.get('summary',''))[:260]} | {esc(m.get('needs_to_manifest',''))[:260]} | {conf} | {res} |")
    return "\n".join(rows)

gen = {'asbuilt': asbuilt, 'findings': findings, 'mutants': mutants, 'seeded': seeded}
s = open(H + '/DESIGN.md').read()
for name, fn in gen.items():
    a, b = f"<!-- BEGIN:{name} -->", f"<!-- END:{name} -->"
    if a in s and b in s:
        s = s[:s.index(a) + len(a)] + "\n" + fn() + "\n" + s[s.index(b):]
open(H + '/DESIGN.md', 'w').write(s)
print("DESIGN.md regenerated")
