#!/bin/bash
# development aid: run every claimed check (default quick) and summarise
TIER=${1:-quick}
cd "$(dirname "$0")"
for p in $(python3 -c "import json;print(' '.join(c['property_id'] for c in json.load(open('MANIFEST.json'))['checks']))"); do
  s=$(date +%s.%N)
  out=$(./check $p --tier $TIER 2>&1); rc=$?
  e=$(date +%s.%N)
  printf "%s rc=%d %.1fs %s\n" $p $rc $(echo "$e - $s" | bc) "$(echo "$out" | tail -1 | cut -c1-150)"
done
