// Stub replacement for gameboy/display/display.go (no GL/GLFW), used only via
// `go build -overlay` by the verification harness. Same exported API.
package display

import (
	"image"

	"github.com/scottyw/tetromino/gameboy/controller"
)

// Display is a scriptable headless display.
type Display struct {
	Controller *controller.Controller
	OnInput    func()
	Frames     int
	Cleanups   int
	// OnFrame, when set, is called for every rendered frame (n = 0,1,..) and its
	// result is what RenderFrame returns ("the display asks to close").
	OnFrame func(d *Display, n int, img *image.RGBA) bool
}

// NewHook, when set, is called by New with the display it created so that a
// harness can script it. It is only ever set by the verification harness.
var NewHook func(d *Display)

func New(c *controller.Controller, onInput func(), debug bool) *Display {
	d := &Display{Controller: c, OnInput: onInput}
	if NewHook != nil {
		NewHook(d)
	}
	return d
}

func (d *Display) Cleanup() {
	d.Cleanups++
}

func (d *Display) RenderFrame(img *image.RGBA) bool {
	n := d.Frames
	d.Frames++
	if d.OnFrame != nil {
		return d.OnFrame(d, n, img)
	}
	return false
}
