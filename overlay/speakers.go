// Stub replacement for gameboy/speakers/speakers.go (no PortAudio), used only via
// `go build -overlay` by the verification harness. Same exported API.
package speakers

// Speakers hands out sample channels and records Cleanup.
type Speakers struct {
	l        chan float32
	r        chan float32
	Cleanups int
	Closed   bool
}

// NewHook, when set, is called by New with the speakers it created. Only the
// verification harness sets it.
var NewHook func(s *Speakers)

// ChanCap is the capacity of the sample channels (the real one is 200).
var ChanCap = 200

func New() *Speakers {
	s := &Speakers{l: make(chan float32, ChanCap), r: make(chan float32, ChanCap)}
	if NewHook != nil {
		NewHook(s)
	}
	return s
}

func (s *Speakers) Cleanup() {
	s.Cleanups++
	if !s.Closed {
		s.Closed = true
		close(s.l)
		close(s.r)
	}
}

func (s *Speakers) Left() chan float32  { return s.l }
func (s *Speakers) Right() chan float32 { return s.r }
