SPECIFICATION Spec
CONSTRAINT Bound
INVARIANT TypeOK
PROPERTIES DispatchRule IFOnlyLosesByDispatch HaltIdles EIDelays
CHECK_DEADLOCK FALSE
