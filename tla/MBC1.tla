------------------------------ MODULE MBC1 ------------------------------
(* The MBC1 register machine of properties C08/C09 (Pan Docs "MBC1"), restated independently of mc/ref/cart.go.      *)
(* bank1: 5-bit ROM bank register (a written 0 is stored as 1); bank2: 2-bit register feeding the upper ROM bank     *)
(* bits and, in mode 1, the RAM bank and the bank of the 0000-3FFF window; ramg: RAM gate (low nibble A enables).    *)
(* PAGES = number of 16 KiB ROM pages, RAMBANKS = number of 8 KiB RAM banks (both powers of two).                     *)
EXTENDS Naturals
CONSTANTS PAGES, RAMBANKS
VARIABLES bank1, bank2, mode, ramg
vars == <<bank1, bank2, mode, ramg>>

Vals == {0, 1, 2, 10, 26, 31, 32, 33, 63, 64, 96, 128, 255}

TypeOK == bank1 \in 1..31 /\ bank2 \in 0..3 /\ mode \in BOOLEAN /\ ramg \in BOOLEAN

Init == bank1 = 1 /\ bank2 = 0 /\ mode = FALSE /\ ramg = FALSE

WRamg(v)  == ramg' = (v % 16 = 10) /\ UNCHANGED <<bank1, bank2, mode>>
WBank1(v) == bank1' = (IF v % 32 = 0 THEN 1 ELSE v % 32) /\ UNCHANGED <<bank2, mode, ramg>>
WBank2(v) == bank2' = v % 4 /\ UNCHANGED <<bank1, mode, ramg>>
WMode(v)  == mode' = (v % 2 = 1) /\ UNCHANGED <<bank1, bank2, ramg>>

Next == \E v \in Vals : WRamg(v) \/ WBank1(v) \/ WBank2(v) \/ WMode(v)
Spec == Init /\ [][Next]_vars

(* what the guest sees *)
Low  == IF mode THEN (bank2 * 32) % PAGES ELSE 0
High == (bank2 * 32 + bank1) % PAGES
RamBank == IF mode THEN bank2 % RAMBANKS ELSE 0

(* ---- the statement's claims, checked on the model ---- *)
\* with 32 pages or more the 4000-7FFF window never shows a page whose low five bits are 0 (0 -> 1 remap)
NoZeroBank == PAGES >= 32 => High % 32 # 0
\* in mode 0 the 0000-3FFF window is page 0 and RAM bank 0 is mapped
Mode0Fixed == ~mode => (Low = 0 /\ RamBank = 0)
\* a write to 2000-3FFF never moves the 0000-3FFF window or the RAM bank
Bank1OnlyHigh == [][(\E v \in Vals : WBank1(v)) => (Low' = Low /\ RamBank' = RamBank)]_vars
\* the RAM gate never moves a window
GateMovesNothing == [][(\E v \in Vals : WRamg(v)) => (Low' = Low /\ High' = High /\ RamBank' = RamBank)]_vars
=============================================================================
