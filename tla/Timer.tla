------------------------------ MODULE Timer ------------------------------
(* The DMG timer of property C12 over small value sets (DESIGN.md, Appendix A.1).        *)
(* div counts machine cycles modulo 16 (the 16-bit divider is 4*div modulo 64), so TAC    *)
(* may select divider bit 3 (TAC=5: bit 1 of div) or bit 5 (TAC=6: bit 3 of div), or be   *)
(* off (TAC=0). TIMA/TMA writes use the values in Vals. The reload machine is indexed by  *)
(* cycles only: phase is Idle, Ovf (TIMA overflowed at the last tick and reads 00 during  *)
(* this cycle) or Rel (TIMA was reloaded at the last tick; this is the reload cycle).     *)
(* Transitions the statement leaves open are not generated: a TIMA/TMA write in the cycle *)
(* after a cancelled reload, and an increment in the same tick as a TMA-write load.       *)
EXTENDS Naturals

Vals == {254, 255}
TACs == {0, 5, 6}

VARIABLES div, tima, tma, tac, prev, phase, timaW, tmaW, cancelled, irq
vars == <<div, tima, tma, tac, prev, phase, timaW, tmaW, cancelled, irq>>

Bit(n, k) == (n \div (2^k)) % 2 = 1
Signal(t, d) == t >= 4 /\ (IF t % 4 = 1 THEN Bit(d, 1) ELSE Bit(d, 3))

TypeOK == /\ div \in 0..15 /\ tima \in 0..255 /\ tma \in Vals /\ tac \in TACs
          /\ prev \in BOOLEAN /\ phase \in {"Idle", "Ovf", "Rel"}
          /\ timaW \in BOOLEAN /\ tmaW \in BOOLEAN /\ cancelled \in BOOLEAN /\ irq \in BOOLEAN

Init == /\ div \in 0..15 /\ tima \in Vals /\ tma \in Vals /\ tac \in TACs
        /\ prev = FALSE /\ phase = "Idle" /\ timaW = FALSE /\ tmaW = FALSE
        /\ cancelled = FALSE /\ irq = FALSE

(* one machine cycle *)
Tick ==
  LET d2    == (div + 1) % 16
      canc  == phase = "Ovf" /\ timaW
      t1    == IF phase = "Ovf" /\ ~timaW THEN tma
               ELSE IF phase = "Rel" /\ tmaW THEN tma ELSE tima
      p1    == IF phase = "Ovf" /\ ~timaW THEN "Rel" ELSE "Idle"
      load  == phase = "Rel" /\ tmaW
      sig   == Signal(tac, d2)
      edge  == prev /\ ~sig
      t2    == IF edge THEN (t1 + 1) % 256 ELSE t1
      ovf   == edge /\ t2 = 0
  IN /\ ~(load /\ edge)            \* order of the TMA-write load and an increment is not fixed
     /\ div' = d2
     /\ tima' = t2
     /\ phase' = IF ovf THEN "Ovf" ELSE p1
     /\ prev' = sig
     /\ timaW' = FALSE /\ tmaW' = FALSE
     /\ cancelled' = canc
     /\ irq' = ovf
     /\ UNCHANGED <<tma, tac>>

WDiv == /\ div' = 0 /\ irq' = FALSE
        /\ UNCHANGED <<tima, tma, tac, prev, phase, timaW, tmaW, cancelled>>

WTac(t) == /\ tac' = t /\ irq' = FALSE
           /\ UNCHANGED <<div, tima, tma, prev, phase, timaW, tmaW, cancelled>>

WTima(v) == /\ ~cancelled
            /\ irq' = FALSE
            /\ IF phase = "Rel"
                 THEN UNCHANGED <<tima, timaW>>          \* ignored in the reload cycle
                 ELSE /\ tima' = v
                      /\ timaW' = (phase = "Ovf")        \* in the overflow cycle it cancels the reload
            /\ UNCHANGED <<div, tma, tac, prev, phase, tmaW, cancelled>>

WTma(v) == /\ ~cancelled
           /\ irq' = FALSE
           /\ tma' = v /\ tmaW' = TRUE
           /\ tima' = IF phase = "Rel" THEN v ELSE tima  \* in the reload cycle it also loads TIMA
           /\ UNCHANGED <<div, tac, prev, phase, timaW, cancelled>>

WTac0 == WTac(0)
WTac5 == WTac(5)
WTac6 == WTac(6)
WTima254 == WTima(254)
WTima255 == WTima(255)
WTma254 == WTma(254)
WTma255 == WTma(255)

Next == Tick \/ WDiv \/ WTac0 \/ WTac5 \/ WTac6 \/ WTima254 \/ WTima255 \/ WTma254 \/ WTma255

Spec == Init /\ [][Next]_vars

(* ---- the statement's claims, checked on the model ---- *)
\* on overflow TIMA reads 00 for that machine cycle (unless the guest writes it)
OvfReadsZero == (phase = "Ovf" /\ ~timaW) => tima = 0
\* in the reload cycle TIMA holds TMA (or TMA+1 when a forced edge fell into the same tick)
RelHoldsTma == (phase = "Rel" /\ ~tmaW) => (tima = tma \/ tima = (tma + 1) % 256)
\* a request is raised exactly in the tick of an overflow
IrqIffOverflow == irq => phase = "Ovf"
\* the overflow cycle lasts exactly one machine cycle, the reload cycle likewise
OneCycleEach == [][(phase = "Ovf" /\ Tick) => phase' \in {"Rel", "Idle"}]_vars
ReloadFollows == [][(phase = "Ovf" /\ ~timaW /\ Tick) => (phase' \in {"Rel", "Ovf"} /\ (phase' = "Rel" => tima' \in {tma, (tma + 1) % 256}))]_vars
CancelWorks == [][(phase = "Ovf" /\ timaW /\ Tick /\ ~(prev /\ ~Signal(tac, (div + 1) % 16))) => (tima' = tima /\ phase' = "Idle")]_vars
IgnoredInReload == [][(phase = "Rel" /\ (WTima254 \/ WTima255)) => tima' = tima]_vars
=============================================================================
