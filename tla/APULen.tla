------------------------------ MODULE APULen ------------------------------
(* One sound channel's length counter and NR52 status bit (property C19), restated independently of the Go reference *)
(* model (mc/ref/apu.go). MAX is 64 (channels 1, 2, 4) or 256 (channel 3). step is the index of the NEXT             *)
(* frame-sequencer step; even steps clock length, so "first half" (the next step does not clock length) is step odd.  *)
(* Length data t loads MAX - t. The state space is windowed by the constraint Window (len within 3 of either end),    *)
(* which keeps every carry, expiry and reload case and makes every state reachable by a short path.                   *)
(* Not generated (left open by the statement): a trigger with length enabled in the first half while the counter is   *)
(* at MAX without having been reloaded from 0.                                                                        *)
EXTENDS Naturals
CONSTANT MAX
VARIABLES power, dac, on, len, lenEn, step
vars == <<power, dac, on, len, lenEn, step>>

TypeOK == /\ power \in BOOLEAN /\ dac \in BOOLEAN /\ on \in BOOLEAN /\ lenEn \in BOOLEAN
          /\ len \in 0..MAX /\ step \in 0..7
Window == len <= 3 \/ len >= MAX - 3

FirstHalf == step % 2 = 1

\* after a power cycle and a length load with t = 0
Init == power = TRUE /\ dac = FALSE /\ on = FALSE /\ len = MAX /\ lenEn = FALSE /\ step = 0

\* length registers stay writable while sound is off
WLen(t) == /\ len' = MAX - t
           /\ UNCHANGED <<power, dac, on, lenEn, step>>

WDac(b) == IF power THEN /\ dac' = b /\ on' = (on /\ b) /\ UNCHANGED <<power, len, lenEn, step>>
                    ELSE UNCHANGED vars

WCtl(en, trig) ==
  IF ~power THEN UNCHANGED vars ELSE
  LET extra == ~lenEn /\ en /\ FirstHalf /\ len > 0       \* enabling length in the first half clocks it once
      l1    == IF extra THEN len - 1 ELSE len
      off1  == extra /\ l1 = 0 /\ ~trig
      l2    == IF trig /\ l1 = 0 THEN (IF en /\ FirstHalf THEN MAX - 1 ELSE MAX) ELSE l1
  IN /\ ~(trig /\ l1 = MAX /\ en /\ FirstHalf)
     /\ len' = l2
     /\ on' = IF trig THEN dac ELSE (on /\ ~off1)
     /\ lenEn' = en
     /\ UNCHANGED <<power, dac, step>>

Step == /\ power
        /\ LET clk == (step % 2 = 0) /\ lenEn /\ len > 0
               l   == IF clk THEN len - 1 ELSE len
           IN /\ len' = l
              /\ on' = (on /\ ~(clk /\ l = 0))
        /\ step' = (step + 1) % 8
        /\ UNCHANGED <<power, dac, lenEn>>

PowerOff == /\ power /\ power' = FALSE /\ dac' = FALSE /\ on' = FALSE /\ lenEn' = FALSE
            /\ UNCHANGED <<len, step>>
PowerOn  == /\ ~power /\ power' = TRUE /\ step' = 0
            /\ UNCHANGED <<dac, on, len, lenEn>>

WLen0 == WLen(0)
WLenA == WLen(MAX - 1)
WLenB == WLen(MAX - 2)
WDacOn == WDac(TRUE)
WDacOff == WDac(FALSE)
WCtl00 == WCtl(FALSE, FALSE)
WCtl40 == WCtl(TRUE, FALSE)
WCtl80 == WCtl(FALSE, TRUE)
WCtlC0 == WCtl(TRUE, TRUE)

Next == WLen0 \/ WLenA \/ WLenB \/ WDacOn \/ WDacOff \/ WCtl00 \/ WCtl40 \/ WCtl80 \/ WCtlC0 \/ Step \/ PowerOff \/ PowerOn

Spec == Init /\ [][Next]_vars

(* ---- the statement's claims, checked on the model ---- *)
OnNeedsDacAndPower == on => (dac /\ power)
ExpiredIsOff == len = 0 => ~on
\* the status bit turns on only by a trigger with the DAC enabled
OnOnlyByTrigger == [][(~on /\ on') => (dac /\ (WCtl80 \/ WCtlC0))]_vars
\* ... and turns off only by DAC off, power off or the counter reaching 0
OffOnlyByCause == [][(on /\ ~on') => (~dac' \/ ~power' \/ len' = 0 \/ (WCtl80 \/ WCtlC0))]_vars
\* a running counter loses exactly one per length clock
OnePerClock == [][(Step /\ lenEn /\ step % 2 = 0 /\ len > 0) => len' = len - 1]_vars
=============================================================================
