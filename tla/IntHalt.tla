------------------------------ MODULE IntHalt ------------------------------
(* Interrupt dispatch, EI/DI/RETI and HALT of properties C04/C05 (DESIGN.md, Appendix A.2) as a   *)
(* reactive machine over two interrupt sources (0 = VBlank, higher priority; 1 = Timer).           *)
(* The main program is whatever the environment feeds it, one instruction per step, from           *)
(* {NOP, EI, DI, HALT}; the two handlers are fixed: vector 0 holds [RETI], vector 1 holds          *)
(* [EI, NOP, RETI] (so nesting is possible). stack is the sequence of handler frames               *)
(* <<handler, index of its next instruction>>; an empty stack means the main program runs.         *)
(* Requests (Req) arrive between instructions. What the statement leaves open is not generated:     *)
(* HALT inside a handler, HALT directly after EI, nesting deeper than two frames (state constraint). *)
EXTENDS Naturals, Sequences, FiniteSets

Sources == {0, 1}
Handler == <<  <<"RETI">>,  <<"EI", "NOP", "RETI">>  >>   \* Handler[s+1] is the code at the vector of source s

VARIABLES ime, eiDelay, halted, haltbug, ie, iff, stack, last
vars == <<ime, eiDelay, halted, haltbug, ie, iff, stack, last>>
\* last: what the previous step did, for the replay: "none", "instr", "dispatch0", "dispatch1", "idle", "wake"

Pending == ie \cap iff
Top == IF Pending = {} THEN 0 ELSE IF 0 \in Pending THEN 0 ELSE 1

TypeOK == /\ ime \in BOOLEAN /\ eiDelay \in BOOLEAN /\ halted \in BOOLEAN /\ haltbug \in BOOLEAN
          /\ ie \subseteq Sources /\ iff \subseteq Sources
          /\ stack \in Seq(Sources \X (1..3))

Init == /\ ime \in BOOLEAN /\ eiDelay = FALSE /\ halted = FALSE /\ haltbug = FALSE
        /\ ie \in SUBSET Sources /\ iff \in SUBSET Sources /\ stack = <<>> /\ last = "none"

Req(s) == /\ s \notin iff
          /\ iff' = iff \cup {s}
          /\ last' = "none"
          /\ UNCHANGED <<ime, eiDelay, halted, haltbug, ie, stack>>

Dispatch == /\ iff' = iff \ {Top}
            /\ ime' = FALSE /\ eiDelay' = FALSE /\ halted' = FALSE
            /\ stack' = Append(stack, <<Top, 1>>)
            /\ last' = IF Top = 0 THEN "dispatch0" ELSE "dispatch1"
            /\ UNCHANGED <<haltbug, ie>>

\* effect of one instruction i; adv = whether the program counter advances past it (the halt bug makes it run twice)
Exec(i, adv) ==
  LET delay == eiDelay IN
  /\ last' = "instr"
  /\ iff' = iff /\ ie' = ie
  /\ CASE i = "NOP"  -> /\ ime' = (ime \/ delay) /\ eiDelay' = FALSE /\ halted' = FALSE /\ haltbug' = FALSE
       [] i = "EI"   -> /\ ime' = (ime \/ delay) /\ eiDelay' = ~(ime \/ delay) /\ halted' = FALSE /\ haltbug' = FALSE
       [] i = "DI"   -> /\ ime' = FALSE /\ eiDelay' = FALSE /\ halted' = FALSE /\ haltbug' = FALSE
       [] i = "RETI" -> /\ ime' = TRUE /\ eiDelay' = FALSE /\ halted' = FALSE /\ haltbug' = FALSE
       [] i = "HALT" -> /\ eiDelay' = FALSE
                        /\ ime' = (ime \/ delay)
                        /\ IF (ime \/ delay) \/ Pending = {}
                             THEN halted' = TRUE /\ haltbug' = FALSE
                             ELSE halted' = FALSE /\ haltbug' = TRUE
  /\ IF Len(stack) = 0
       THEN stack' = stack
       ELSE LET f == stack[Len(stack)] IN
            IF i = "RETI" THEN stack' = SubSeq(stack, 1, Len(stack) - 1)
            ELSE IF adv THEN stack' = [stack EXCEPT ![Len(stack)] = <<f[1], f[2] + 1>>]
            ELSE stack' = stack

\* one instruction boundary
Step(i) ==
  IF halted
    THEN IF Pending = {}
           THEN /\ last' = "idle" /\ UNCHANGED <<ime, eiDelay, halted, haltbug, ie, iff, stack>>
           ELSE IF ime THEN Dispatch
                ELSE /\ halted' = FALSE /\ last' = "wake"
                     /\ UNCHANGED <<ime, eiDelay, haltbug, ie, iff, stack>>
    ELSE IF ime /\ Pending # {}
           THEN Dispatch
           ELSE LET instr == IF Len(stack) = 0 THEN i ELSE Handler[stack[Len(stack)][1] + 1][stack[Len(stack)][2]]
                IN /\ (Len(stack) > 0 => i = "NOP")          \* inside a handler the code is fixed: one choice only
                   /\ ~(Len(stack) > 0 /\ instr = "HALT")
                   /\ ~(instr = "HALT" /\ eiDelay)             \* HALT directly after EI: not fixed by the statements
                   /\ IF haltbug
                        THEN \* the byte after HALT is executed twice: this execution does not advance the program counter
                             /\ Exec(instr, FALSE) /\ haltbug' = FALSE
                        ELSE Exec(instr, TRUE)

Next == (\E s \in Sources : Req(s)) \/ (\E i \in {"NOP", "EI", "DI", "HALT"} : Step(i))

Spec == Init /\ [][Next]_vars
Bound == Len(stack) <= 2

(* ---- the statements' claims, checked on the model ---- *)
\* a dispatch happens only with the master enable set, for a source that is enabled and requested, the highest priority one,
\* and clears exactly that request and the master enable
DispatchRule == [][(last' \in {"dispatch0", "dispatch1"}) =>
                     /\ ime /\ Pending # {}
                     /\ (last' = "dispatch0" <=> 0 \in Pending)
                     /\ iff' = iff \ {Top} /\ ~ime']_vars
\* IF only ever loses a bit by a dispatch
IFOnlyLosesByDispatch == [][(iff' # iff /\ ~(iff \subseteq iff')) => last' \in {"dispatch0", "dispatch1"}]_vars
\* while halted with nothing pending nothing changes
HaltIdles == [][(halted /\ Pending = {} /\ last' = "idle") => UNCHANGED <<ime, iff, stack, halted>>]_vars
\* the instruction right after EI is never preceded by a dispatch that EI enabled: EI sets only the delayed flag
EIDelays == [][(last' = "instr" /\ eiDelay' /\ ~eiDelay) => ~ime']_vars
=============================================================================
