SPECIFICATION Spec
CONSTANT MAX = 256
CONSTRAINT Window
INVARIANTS TypeOK OnNeedsDacAndPower ExpiredIsOff
PROPERTIES OnOnlyByTrigger OffOnlyByCause OnePerClock
CHECK_DEADLOCK FALSE
