SPECIFICATION Spec
CONSTRAINT Window
INVARIANTS TypeOK
PROPERTIES LatchedOnlyByLatch LatchTakesLive HaltStops Carry
CHECK_DEADLOCK FALSE
