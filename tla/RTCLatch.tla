------------------------------ MODULE RTCLatch ------------------------------
(* The MBC3 clock's latch protocol of property C10 (Pan Docs "MBC3": latch clock data), restated independently of      *)
(* mc/ref/rtc.go over seconds and minutes around the minute carry. s, m: the live counters; ls, lm: the latched copy   *)
(* the guest reads; armed: 00 was written to 6000-7FFF and a following 01 will latch; halt: control register bit 6.   *)
EXTENDS Naturals
VARIABLES s, m, ls, lm, armed, halt
vars == <<s, m, ls, lm, armed, halt>>

TypeOK == s \in 0..59 /\ m \in 0..59 /\ ls \in 0..59 /\ lm \in 0..59 /\ armed \in BOOLEAN /\ halt \in BOOLEAN
Window == (s >= 57 \/ s <= 1) /\ m <= 1

\* the guest has set 00:58 and latched once
Init == s = 58 /\ m = 0 /\ ls = 58 /\ lm = 0 /\ armed = FALSE /\ halt = FALSE

Latch0 == armed' = TRUE /\ UNCHANGED <<s, m, ls, lm, halt>>
Latch1 == /\ IF armed THEN ls' = s /\ lm' = m ELSE UNCHANGED <<ls, lm>>
          /\ armed' = FALSE /\ UNCHANGED <<s, m, halt>>
\* one second of emulated time
Second == /\ IF halt THEN UNCHANGED <<s, m>>
             ELSE IF s = 59 THEN s' = 0 /\ m' = (m + 1) % 60
             ELSE s' = s + 1 /\ m' = m
          /\ UNCHANGED <<ls, lm, armed, halt>>
\* writes go to the live counters, never to the latched copy
WSec(v) == s' = v /\ UNCHANGED <<m, ls, lm, armed, halt>>
WMin(v) == m' = v /\ UNCHANGED <<s, ls, lm, armed, halt>>
Halt(b) == halt' = b /\ UNCHANGED <<s, m, ls, lm, armed>>

Next == Latch0 \/ Latch1 \/ Second \/ WSec(58) \/ WSec(59) \/ WSec(0) \/ WMin(0) \/ WMin(1) \/ Halt(TRUE) \/ Halt(FALSE)
Spec == Init /\ [][Next]_vars

(* ---- the statement's claims, checked on the model ---- *)
\* the latched copy changes only by a 00-then-01 latch
LatchedOnlyByLatch == [][(ls' # ls \/ lm' # lm) => (armed /\ Latch1)]_vars
\* ... and then equals the live counters of that moment
LatchTakesLive == [][(Latch1 /\ armed) => (ls' = s /\ lm' = m)]_vars
\* a halted clock does not advance
HaltStops == [][(Second /\ halt) => (s' = s /\ m' = m)]_vars
\* the minute is carried exactly when 59 seconds are followed by a further second
Carry == [][(Second /\ ~halt) => (m' = IF s = 59 THEN (m + 1) % 60 ELSE m)]_vars
=============================================================================
