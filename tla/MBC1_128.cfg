SPECIFICATION Spec
CONSTANTS PAGES = 128
          RAMBANKS = 4
INVARIANTS TypeOK NoZeroBank Mode0Fixed
PROPERTIES Bank1OnlyHigh GateMovesNothing
CHECK_DEADLOCK FALSE
