SPECIFICATION Spec
INVARIANTS TypeOK OvfReadsZero RelHoldsTma IrqIffOverflow
PROPERTIES OneCycleEach ReloadFollows CancelWorks IgnoredInReload
CHECK_DEADLOCK FALSE
