#!/usr/bin/env python3
"""kf.py fixed|finding <prop> <signature> <commit-or-> <what...>  — maintain known_findings.json (development-time only)."""
import json, sys, os
p = os.path.join(os.path.dirname(os.path.abspath(__file__)), "known_findings.json")
d = json.load(open(p))
status, prop, sig, commit = sys.argv[1:5]
what = " ".join(sys.argv[5:])
d["findings"] = [f for f in d["findings"] if not (f["property"] == prop and f["signature"] == sig)]
e = {"property": prop, "signature": sig, "status": status, "what": what}
if commit != "-":
    e["commit"] = commit
    e["record"] = f"fixed: property={prop} {commit} {what}"
d["findings"].append(e)
d["findings"].sort(key=lambda f: (f["property"], f["signature"]))
json.dump(d, open(p, "w"), indent=1)
