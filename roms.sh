#!/bin/bash
# usage: roms.sh [repo-dir]   — development aid: verdicts of all test ROMs on the given tree (default /repo)
set -e
VERIF=$(cd "$(dirname "$0")" && pwd)
REPO=${1:-/repo}
export GOFLAGS=-mod=mod GOPROXY=off GOSUMDB=off GOTOOLCHAIN=local GOCACHE=$VERIF/.cache/go-build
T=$(mktemp -d /tmp/roms-XXXXXX); trap 'rm -rf $T' EXIT
sed "s#@REPO@#$REPO#" "$VERIF/mc/go.mod.tmpl" > $T/go.mod; cp $REPO/go.sum $T/go.sum 2>/dev/null || : > $T/go.sum
(cd $VERIF/mc && go build -modfile=$T/go.mod -o $T/roms ./cmd/roms)
$T/roms $REPO /repo/gameboy/testdata
