package ref

// RTC is the reference MBC3 real-time clock (Pan Docs MBC3: registers 08-0C, latch by
// writing 00 then 01, 1,048,576 machine cycles per second).
type RTC struct {
	S, M, H uint8
	D       uint16 // 9 bits
	Carry   bool
	Halt    bool
	Sub     int // machine cycles into the current second

	LS, LM, LH uint8
	LD         uint16
	LCarry     bool
	LHalt      bool
	// Armed: the last latch write was 00 (so a following 01 latches).
	Armed bool
	// LatchUnspec: a latch write with a value other than 00/01 happened; the latch edge
	// state is not fixed by the statement until the next clean 00 write.
	LatchUnspec bool
	// LatchedUnknown: the latched copy may or may not have been refreshed.
	LatchedUnknown bool
}

const CyclesPerSecond = 1048576

// Step advances the counters by one second. Out-of-range values (60-63, 24-31) count
// up and wrap at their bit width without carrying, as on hardware.
func (r *RTC) Step() {
	r.S = (r.S + 1) & 0x3f
	if r.S != 60 {
		return
	}
	r.S = 0
	r.M = (r.M + 1) & 0x3f
	if r.M != 60 {
		return
	}
	r.M = 0
	r.H = (r.H + 1) & 0x1f
	if r.H != 24 {
		return
	}
	r.H = 0
	r.D++
	if r.D == 512 {
		r.D = 0
		r.Carry = true
	}
}

// Tick advances one machine cycle.
func (r *RTC) Tick() {
	if r.Halt {
		return
	}
	r.Sub++
	if r.Sub == CyclesPerSecond {
		r.Sub = 0
		r.Step()
	}
}

func (r *RTC) LatchWrite(v uint8) {
	switch v {
	case 0x00:
		r.Armed = true
		r.LatchUnspec = false
	case 0x01:
		if r.LatchUnspec {
			// whether this latched is not fixed by the statement: latched copy unknown
			r.LatchedUnknown = true
		} else if r.Armed {
			r.LS, r.LM, r.LH, r.LD, r.LCarry, r.LHalt = r.S, r.M, r.H, r.D, r.Carry, r.Halt
			r.LatchedUnknown = false
		}
		r.Armed = false
		r.LatchUnspec = false
	default:
		r.LatchUnspec = true
	}
}

// ReadKnown reports whether the latched copy is determined.
func (r *RTC) ReadKnown() bool { return !r.LatchedUnknown }

func (r *RTC) Read(sel uint8) uint8 {
	switch sel {
	case 0x08:
		return r.LS & 0x3f
	case 0x09:
		return r.LM & 0x3f
	case 0x0a:
		return r.LH & 0x1f
	case 0x0b:
		return uint8(r.LD)
	case 0x0c:
		v := uint8(r.LD>>8) & 1
		if r.LHalt {
			v |= 0x40
		}
		if r.LCarry {
			v |= 0x80
		}
		return v
	}
	return 0xff
}

func (r *RTC) Write(sel uint8, v uint8) {
	switch sel {
	case 0x08:
		r.S = v & 0x3f
		r.Sub = 0
	case 0x09:
		r.M = v & 0x3f
	case 0x0a:
		r.H = v & 0x1f
	case 0x0b:
		r.D = r.D&0x100 | uint16(v)
	case 0x0c:
		r.D = r.D&0xff | uint16(v&1)<<8
		r.Halt = v&0x40 != 0
		r.Carry = v&0x80 != 0
	}
}
