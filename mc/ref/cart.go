package ref

// Reference cartridge model: ROM-only, MBC1, MBC2, MBC3 (+RTC, see rtc.go) and MBC5
// register semantics as documented in Pan Docs. It tracks *which page* is visible in
// each ROM window and the contents of external RAM; it never looks at the repository.

type CartKind int

const (
	KNone CartKind = iota
	KMBC1
	KMBC2
	KMBC3
	KMBC5
)

func (k CartKind) String() string {
	return [...]string{"none", "mbc1", "mbc2", "mbc3", "mbc5"}[k]
}

// KindOf maps the documented cartridge-type byte to a controller (ok=false: unsupported).
func KindOf(cartType uint8) (CartKind, bool) {
	switch cartType {
	case 0x00:
		return KNone, true
	case 0x01, 0x02, 0x03:
		return KMBC1, true
	case 0x05, 0x06:
		return KMBC2, true
	case 0x0f, 0x10, 0x11, 0x12, 0x13:
		return KMBC3, true
	case 0x19, 0x1a, 0x1b, 0x1c, 0x1d, 0x1e:
		return KMBC5, true
	}
	return 0, false
}

// RAMBanks gives the number of 8 KiB banks for a RAM-size code (a single bank when the
// header declares none; code 1 = 2 KiB is treated as one bank whose mirroring is unspecified).
func RAMBanks(code uint8) int {
	switch code {
	case 3:
		return 4
	case 4:
		return 16
	case 5:
		return 8
	}
	return 1
}

type Cart struct {
	Kind     CartKind
	Pages    int // 16 KiB ROM pages
	RAMBanks int
	HasRTC   bool

	RamEn bool
	Bank1 uint8  // MBC1 5-bit, MBC2 4-bit, MBC3 7-bit register (after 0->1)
	Bank2 uint8  // MBC1 2-bit
	Mode  bool   // MBC1 mode 1
	RomB  uint16 // MBC5 9-bit
	RamB  uint8  // MBC3/MBC5 RAM bank / RTC select register (4 bits)

	RAM   map[int]uint8 // bank*0x2000+offset -> value (absent = FF; MBC2: absent = unknown low nibble)
	Clock RTC
}

func NewCart(kind CartKind, pages, ramBanks int, hasRTC bool) *Cart {
	c := &Cart{Kind: kind, Pages: pages, RAMBanks: ramBanks, HasRTC: hasRTC, RAM: map[int]uint8{}}
	c.Bank1 = 1
	c.RomB = 1
	return c
}

func (c *Cart) Clone() *Cart {
	d := *c
	d.RAM = make(map[int]uint8, len(c.RAM))
	for k, v := range c.RAM {
		d.RAM[k] = v
	}
	return &d
}

// LowPage / HighPage: the ROM page visible at 0000-3FFF / 4000-7FFF.
func (c *Cart) LowPage() int {
	if c.Kind == KMBC1 && c.Mode {
		return (int(c.Bank2) << 5) % c.Pages
	}
	return 0
}

func (c *Cart) HighPage() int {
	switch c.Kind {
	case KNone:
		return 1
	case KMBC1:
		return (int(c.Bank2)<<5 | int(c.Bank1)) % c.Pages
	case KMBC2, KMBC3:
		return int(c.Bank1) % c.Pages
	case KMBC5:
		return int(c.RomB) % c.Pages
	}
	return 1
}

// ramBank is the selected RAM bank (-1: RTC register selected / none).
func (c *Cart) ramBank() int {
	switch c.Kind {
	case KMBC1:
		if c.Mode {
			return int(c.Bank2) % c.RAMBanks
		}
		return 0
	case KMBC3:
		if c.RamB >= 8 {
			return -1
		}
		return int(c.RamB) % c.RAMBanks
	case KMBC5:
		return int(c.RamB) % c.RAMBanks
	}
	return 0
}

// RTCSelected reports whether an MBC3 clock register (08-0C) or an undefined selector (0D-0F) is mapped.
func (c *Cart) RTCSelected() (sel uint8, ok bool) {
	if c.Kind == KMBC3 && c.RamB >= 8 {
		return c.RamB, true
	}
	return 0, false
}

// Write applies a guest write anywhere in 0000-7FFF or A000-BFFF.
func (c *Cart) Write(addr uint16, v uint8) {
	if addr >= 0xa000 && addr < 0xc000 {
		c.writeRAM(addr, v)
		return
	}
	if addr >= 0x8000 {
		return
	}
	switch c.Kind {
	case KMBC1:
		switch {
		case addr < 0x2000:
			c.RamEn = v&0x0f == 0x0a
		case addr < 0x4000:
			c.Bank1 = v & 0x1f
			if c.Bank1 == 0 {
				c.Bank1 = 1
			}
		case addr < 0x6000:
			c.Bank2 = v & 3
		default:
			c.Mode = v&1 != 0
		}
	case KMBC2:
		if addr < 0x4000 {
			if addr&0x0100 == 0 {
				c.RamEn = v&0x0f == 0x0a
			} else {
				c.Bank1 = v & 0x0f
				if c.Bank1 == 0 {
					c.Bank1 = 1
				}
			}
		}
	case KMBC3:
		switch {
		case addr < 0x2000:
			c.RamEn = v&0x0f == 0x0a
		case addr < 0x4000:
			c.Bank1 = v & 0x7f
			if c.Bank1 == 0 {
				c.Bank1 = 1
			}
		case addr < 0x6000:
			c.RamB = v & 0x0f
		default:
			c.Clock.LatchWrite(v)
		}
	case KMBC5:
		switch {
		case addr < 0x2000:
			c.RamEn = v&0x0f == 0x0a
		case addr < 0x3000:
			c.RomB = c.RomB&0x100 | uint16(v)
		case addr < 0x4000:
			c.RomB = c.RomB&0xff | uint16(v&1)<<8
		case addr < 0x6000:
			c.RamB = v & 0x0f
		}
	}
}

func (c *Cart) writeRAM(addr uint16, v uint8) {
	if c.Kind == KNone || !c.RamEn {
		return
	}
	off := int(addr - 0xa000)
	if c.Kind == KMBC2 {
		c.RAM[off%512] = v & 0x0f
		return
	}
	if sel, ok := c.RTCSelected(); ok {
		c.Clock.Write(sel, v)
		return
	}
	c.RAM[c.ramBank()*0x2000+off] = v
}

// ReadRAM returns the documented value at A000-BFFF and a mask of the bits that are
// determined (0 = the whole byte is unspecified, e.g. undefined RTC selectors).
func (c *Cart) ReadRAM(addr uint16) (val, mask uint8) {
	if c.Kind == KNone || !c.RamEn {
		return 0xff, 0xff
	}
	off := int(addr - 0xa000)
	if c.Kind == KMBC2 {
		if v, ok := c.RAM[off%512]; ok {
			return 0xf0 | v, 0xff
		}
		return 0xf0, 0xf0 // never written: only the upper nibble is fixed
	}
	if sel, ok := c.RTCSelected(); ok {
		if sel > 0x0c || !c.Clock.ReadKnown() {
			return 0, 0
		}
		return c.Clock.Read(sel), 0xff
	}
	if v, ok := c.RAM[c.ramBank()*0x2000+off]; ok {
		return v, 0xff
	}
	return 0xff, 0xff
}
