package ref

// Reference model of the DMG sound registers, power, channel status bits and length
// counters (Pan Docs "Audio registers"; gbdev wiki "Gameboy sound hardware": power
// control, trigger event, length counter obscure behaviour). DESIGN.md A.4.
//
// Time: the model does not own the 512 Hz frame sequencer's phase; the harness tells it
// when a frame-sequencer step happens (FrameStep). The step *index* is the model's own.

type APUChan struct {
	On    bool
	Dac   bool
	Len   int
	LenEn bool
	// Unspec: the statement does not fix this channel's status from here on.
	Unspec bool
	// DacKnown / LenKnown: the guest has determined the DAC state / loaded the length counter
	// (the statements say nothing about the state the machine starts in).
	DacKnown, LenKnown bool
}

type APU struct {
	Power bool
	Reg   [0x16]uint8 // FF10..FF25 as stored (readable bits only matter)
	Known [0x16]bool  // the register has been written (or cleared by power-off) since the machine started
	Wave  [16]uint8
	// WaveUnk: the byte's contents are not determined (a wave RAM write landed while channel 3 was
	// playing; where it goes is outside the statements) until it is rewritten with channel 3 off
	WaveUnk [16]bool
	Ch      [4]APUChan
	Step    int // index of the next frame-sequencer step (0..7); even steps clock length; steps 2 and 6 clock the sweep
	// channel 1's frequency sweep unit (gbdev wiki "Frequency Sweep"): the shadow frequency and the timer are loaded,
	// and the unit's enabled flag latched, by a trigger; the flag keeps its value until the next trigger
	SwShadow  int
	SwTimer   int
	SwEnabled bool
}

// NewAPU is the state the machine starts in: powered on, every register and every channel
// status not yet determined by the guest (the statements do not fix start-up values).
func NewAPU() *APU {
	a := &APU{Power: true}
	for i := range a.Ch {
		a.Ch[i].Unspec = true
	}
	a.Wave = [16]uint8{0x84, 0x40, 0x43, 0xAA, 0x2D, 0x78, 0x92, 0x3C, 0x60, 0x59, 0x59, 0xB0, 0x34, 0xB8, 0x2E, 0xDA}
	return a
}

func (a *APU) Clone() *APU { c := *a; return &c }

func chanOf(addr uint16) int {
	switch {
	case addr >= 0xff10 && addr <= 0xff14:
		return 0
	case addr >= 0xff16 && addr <= 0xff19:
		return 1
	case addr >= 0xff1a && addr <= 0xff1e:
		return 2
	case addr >= 0xff20 && addr <= 0xff23:
		return 3
	}
	return -1
}

func maxLen(ch int) int {
	if ch == 2 {
		return 256
	}
	return 64
}

func (a *APU) freq1() int { return int(a.Reg[0x03]) | int(a.Reg[0x04]&7)<<8 }

// sweepCalc is the sweep unit's frequency calculation with the shift and direction NR10 holds now.
func (a *APU) sweepCalc() int {
	d := a.SwShadow >> uint(a.Reg[0]&7)
	if a.Reg[0]&0x08 != 0 {
		return a.SwShadow - d
	}
	return a.SwShadow + d
}

// sweepClock is one 128 Hz clock of the sweep timer. When the timer runs out it is reloaded with the period NR10
// holds now (8 for period 0); with the unit enabled and a non-zero period the new frequency is calculated: above
// 2047 the channel is switched off; otherwise, with a non-zero shift, it is written back to the shadow register and
// NR13/NR14 and the calculation and overflow check are made once more with the new value.
func (a *APU) sweepClock() {
	if !a.SwEnabled {
		return
	}
	a.SwTimer--
	if a.SwTimer > 0 {
		return
	}
	period := int(a.Reg[0]>>4) & 7
	if period == 0 {
		a.SwTimer = 8
		return
	}
	a.SwTimer = period
	n := a.sweepCalc()
	if n > 2047 {
		a.Ch[0].On = false
		return
	}
	if a.Reg[0]&7 != 0 {
		a.SwShadow = n
		a.Reg[0x03] = uint8(n)
		a.Reg[0x04] = a.Reg[0x04]&0x40 | uint8(n>>8)&7
		if a.sweepCalc() > 2047 {
			a.Ch[0].On = false
		}
	}
}

// Write applies a guest write to FF10-FF3F.
func (a *APU) Write(addr uint16, v uint8) {
	if addr >= 0xff30 && addr <= 0xff3f {
		if a.Ch[2].On || a.Ch[2].Unspec {
			// wave RAM access while channel 3 plays is outside the statements: the write may land on any byte
			for i := range a.WaveUnk {
				a.WaveUnk[i] = true
			}
			return
		}
		a.Wave[addr-0xff30], a.WaveUnk[addr-0xff30] = v, false
		return
	}
	if addr == 0xff26 {
		if v&0x80 == 0 {
			a.Power = false
			for i := range a.Reg {
				a.Reg[i], a.Known[i] = 0, true
			}
			for i := range a.Ch {
				a.Ch[i].On, a.Ch[i].Dac, a.Ch[i].LenEn = false, false, false
				a.Ch[i].Unspec, a.Ch[i].DacKnown = false, true
			}
			a.SwEnabled, a.SwShadow, a.SwTimer = false, 0, 0
		} else if !a.Power {
			a.Power = true
			a.Step = 0
		}
		return
	}
	if addr < 0xff10 || addr > 0xff25 {
		return
	}
	ch := chanOf(addr)
	isLen := addr == 0xff11 || addr == 0xff16 || addr == 0xff1b || addr == 0xff20
	if !a.Power && !isLen {
		return
	}
	i := addr - 0xff10
	switch addr {
	case 0xff11, 0xff16, 0xff20:
		a.Ch[ch].Len, a.Ch[ch].LenKnown = 64-int(v&0x3f), true
		if a.Power {
			a.Reg[i], a.Known[i] = v, true
		}
	case 0xff1b:
		a.Ch[2].Len, a.Ch[2].LenKnown = 256-int(v), true
		if a.Power {
			a.Reg[i], a.Known[i] = v, true
		}
	case 0xff12, 0xff17, 0xff21:
		a.Reg[i], a.Known[i] = v, true
		a.Ch[ch].Dac, a.Ch[ch].DacKnown = v&0xf8 != 0, true
		if !a.Ch[ch].Dac {
			a.Ch[ch].On, a.Ch[ch].Unspec = false, false
		}
	case 0xff1a:
		a.Reg[i], a.Known[i] = v, true
		a.Ch[2].Dac, a.Ch[2].DacKnown = v&0x80 != 0, true
		if !a.Ch[2].Dac {
			a.Ch[2].On, a.Ch[2].Unspec = false, false
		}
	case 0xff14, 0xff19, 0xff1e, 0xff23:
		c := &a.Ch[ch]
		en := v&0x40 != 0
		trig := v&0x80 != 0
		firstHalf := a.Step%2 == 1 // the next frame-sequencer step does not clock length
		// frequency high bits are stored before the trigger calculation
		a.Reg[i], a.Known[i] = v&0x47, true
		if (en || trig) && !c.LenKnown {
			c.Unspec = true // the length counter was never loaded by the guest
		}
		if trig && (!c.DacKnown || (ch == 0 && (!a.Known[0] || !a.Known[3]))) {
			c.Unspec = true
		}
		if !c.LenEn && en && firstHalf && c.Len > 0 {
			c.Len--
			if c.Len == 0 && !trig {
				c.On = false
			}
		}
		if trig {
			if c.Len == 0 {
				c.Len = maxLen(ch)
				if en && firstHalf {
					c.Len--
				}
			} else if c.Len == maxLen(ch) && en && firstHalf {
				c.Unspec = true // counter at its maximum without having been reloaded: clocked or not is not fixed
			}
			if ch == 2 && (c.On || c.Unspec) {
				// re-triggering channel 3 while it plays may rewrite the first bytes of wave RAM (DMG quirk: outside the statements)
				for i := 0; i < 4; i++ {
					a.WaveUnk[i] = true
				}
			}
			c.On = c.Dac
			if ch == 0 {
				period, shift := int(a.Reg[0]>>4)&7, a.Reg[0]&7
				a.SwShadow = a.freq1()
				a.SwTimer = period
				if period == 0 {
					a.SwTimer = 8
				}
				a.SwEnabled = period != 0 || shift != 0
				if shift != 0 && a.sweepCalc() > 2047 {
					c.On = false // the sweep calculation at trigger overflows
				}
			}
		}
		c.LenEn = en
	case 0xff10:
		if a.Ch[0].On && a.Reg[0]&0x08 != 0 && v&0x08 == 0 {
			a.Ch[0].Unspec = true // leaving negate mode after a calculation in it: quirk outside the statement
		}
		a.Reg[i], a.Known[i] = v, true
	default:
		a.Reg[i], a.Known[i] = v, true
	}
}

// FrameStep is one step of the 512 Hz frame sequencer.
func (a *APU) FrameStep() {
	if a.Step == 2 || a.Step == 6 {
		a.sweepClock()
	}
	if a.Step%2 == 0 {
		for i := range a.Ch {
			c := &a.Ch[i]
			if c.LenEn && c.Len > 0 {
				c.Len--
				if c.Len == 0 {
					c.On = false
				}
			}
		}
	}
	a.Step = (a.Step + 1) % 8
}

// Read returns the documented value and a mask of the determined bits.
func (a *APU) Read(addr uint16) (val, mask uint8) {
	switch {
	case addr == 0xff26:
		v := uint8(0x70)
		m := uint8(0xff)
		if a.Power {
			v |= 0x80
		}
		for i := range a.Ch {
			if a.Ch[i].Unspec {
				m &^= 1 << uint(i)
			} else if a.Ch[i].On {
				v |= 1 << uint(i)
			}
		}
		return v, m
	case addr >= 0xff30 && addr <= 0xff3f:
		if a.Ch[2].On || a.Ch[2].Unspec || a.WaveUnk[addr-0xff30] {
			return 0, 0
		}
		return a.Wave[addr-0xff30], 0xff
	case addr >= 0xff10 && addr <= 0xff25:
		m, ok := NRMask[addr]
		if !ok {
			return 0xff, 0xff
		}
		if !a.Known[addr-0xff10] {
			return m, m // only the always-one bits are fixed before the first write
		}
		stored := a.Reg[addr-0xff10]
		if addr == 0xff14 || addr == 0xff19 || addr == 0xff1e || addr == 0xff23 {
			stored &= 0x40
		}
		return stored | m, 0xff
	}
	return 0xff, 0xff
}
