// Package ref holds the reference models. They are written from the DMG
// documentation (Pan Docs), not transcribed from the repository.
package ref

// Joypad reference model. Button indices follow the documented bit layout:
// direction group bit0 Right, bit1 Left, bit2 Up, bit3 Down;
// button group    bit0 A,     bit1 B,    bit2 Select, bit3 Start.
type Joypad struct {
	Sel  uint8 // last written select bits (bits 4-5 of JOYP)
	Dirs uint8 // held mask, bit set = held
	Btns uint8
}

func NewJoypad() Joypad { return Joypad{} }

type JButton int

const (
	JRight JButton = iota
	JLeft
	JUp
	JDown
	JA
	JB
	JSelect
	JStart
)

var opposite = map[JButton]JButton{JRight: JLeft, JLeft: JRight, JUp: JDown, JDown: JUp}

func (j *Joypad) Button(b JButton, pressed bool) {
	if b <= JDown {
		bit := uint8(1) << uint(b)
		if pressed {
			j.Dirs |= bit
			j.Dirs &^= uint8(1) << uint(opposite[b]) // pressing a direction releases its opposite
		} else {
			j.Dirs &^= bit
		}
		return
	}
	bit := uint8(1) << uint(b-JA)
	if pressed {
		j.Btns |= bit
	} else {
		j.Btns &^= bit
	}
}

func (j *Joypad) Write(v uint8) { j.Sel = v & 0x30 }

// Read returns the documented JOYP value: bits 6-7 one, bits 4-5 the select bits,
// bits 0-3 zero exactly for each held button of a selected group (select bit 0 = selected).
func (j *Joypad) Read() uint8 {
	low := uint8(0x0f)
	if j.Sel&0x10 == 0 {
		low &^= j.Dirs
	}
	if j.Sel&0x20 == 0 {
		low &^= j.Btns
	}
	return 0xc0 | j.Sel | low
}
