package ref

// I/O register read-back table of the DMG (Pan Docs "Hardware reg list", unused bits from
// mooneye unused_hwio). For a register at address a:
//
//	read-back after writing v (no time elapsing) = (v & W) | U | (current & RO)
//
// Kind tells how to treat it.
type RegKind int

const (
	RUnmapped       RegKind = iota // reads FF, ignores writes
	RMasked                        // (v&W)|U|(before&RO)
	RNeverWritten                  // DIV / LY: the written value is never taken
	ROwnedElsewhere                // behaviour owned by another property (JOYP low nibble, NR52, SB/SC data)
)

type Reg struct {
	Kind       RegKind
	W, U, RO   uint8
	Name       string
	AfterWrite int // RNeverWritten: value read after any write (-1: unchanged)
}

// IOReg describes FF00-FF7F.
func IOReg(a uint16) Reg {
	switch a {
	case 0xff00:
		return Reg{Kind: RMasked, W: 0x30, U: 0xc0, RO: 0x0f, Name: "JOYP"}
	case 0xff01:
		return Reg{Kind: RMasked, W: 0x00, U: 0xff, Name: "SB"} // this emulator has no link cable: SB/SC read FF (C23)
	case 0xff02:
		return Reg{Kind: RMasked, W: 0x00, U: 0xff, Name: "SC"}
	case 0xff04:
		return Reg{Kind: RNeverWritten, Name: "DIV", AfterWrite: 0}
	case 0xff05:
		return Reg{Kind: RMasked, W: 0xff, Name: "TIMA"}
	case 0xff06:
		return Reg{Kind: RMasked, W: 0xff, Name: "TMA"}
	case 0xff07:
		return Reg{Kind: RMasked, W: 0x07, U: 0xf8, Name: "TAC"}
	case 0xff0f:
		return Reg{Kind: RMasked, W: 0x1f, U: 0xe0, Name: "IF"}
	case 0xff26:
		return Reg{Kind: ROwnedElsewhere, Name: "NR52"}
	case 0xff40:
		return Reg{Kind: RMasked, W: 0xff, Name: "LCDC"}
	case 0xff41:
		return Reg{Kind: RMasked, W: 0x78, U: 0x80, RO: 0x07, Name: "STAT"}
	case 0xff42:
		return Reg{Kind: RMasked, W: 0xff, Name: "SCY"}
	case 0xff43:
		return Reg{Kind: RMasked, W: 0xff, Name: "SCX"}
	case 0xff44:
		return Reg{Kind: RNeverWritten, Name: "LY", AfterWrite: -1}
	case 0xff45:
		return Reg{Kind: RMasked, W: 0xff, Name: "LYC"}
	case 0xff46:
		return Reg{Kind: RMasked, W: 0xff, Name: "DMA"}
	case 0xff47:
		return Reg{Kind: RMasked, W: 0xff, Name: "BGP"}
	case 0xff48:
		return Reg{Kind: RMasked, W: 0xff, Name: "OBP0"}
	case 0xff49:
		return Reg{Kind: RMasked, W: 0xff, Name: "OBP1"}
	case 0xff4a:
		return Reg{Kind: RMasked, W: 0xff, Name: "WY"}
	case 0xff4b:
		return Reg{Kind: RMasked, W: 0xff, Name: "WX"}
	}
	if a >= 0xff10 && a <= 0xff25 {
		if m, ok := NRMask[a]; ok {
			return Reg{Kind: RMasked, W: ^m, U: m, Name: NRName[a]}
		}
		return Reg{Kind: RUnmapped, Name: "unmapped"}
	}
	if a >= 0xff30 && a <= 0xff3f {
		return Reg{Kind: RMasked, W: 0xff, Name: "wave RAM"}
	}
	return Reg{Kind: RUnmapped, Name: "unmapped"}
}

// NRMask: bits that always read 1 (write-only / unused) for the sound registers.
var NRMask = map[uint16]uint8{
	0xff10: 0x80, 0xff11: 0x3f, 0xff12: 0x00, 0xff13: 0xff, 0xff14: 0xbf,
	0xff16: 0x3f, 0xff17: 0x00, 0xff18: 0xff, 0xff19: 0xbf,
	0xff1a: 0x7f, 0xff1b: 0xff, 0xff1c: 0x9f, 0xff1d: 0xff, 0xff1e: 0xbf,
	0xff20: 0xff, 0xff21: 0x00, 0xff22: 0x00, 0xff23: 0xbf,
	0xff24: 0x00, 0xff25: 0x00,
}

var NRName = map[uint16]string{
	0xff10: "NR10", 0xff11: "NR11", 0xff12: "NR12", 0xff13: "NR13", 0xff14: "NR14",
	0xff16: "NR21", 0xff17: "NR22", 0xff18: "NR23", 0xff19: "NR24",
	0xff1a: "NR30", 0xff1b: "NR31", 0xff1c: "NR32", 0xff1d: "NR33", 0xff1e: "NR34",
	0xff20: "NR41", 0xff21: "NR42", 0xff22: "NR43", 0xff23: "NR44",
	0xff24: "NR50", 0xff25: "NR51",
}
