package ref

// Interrupt / HALT / EI control on top of the reference CPU (DESIGN.md A.2; Pan Docs
// "Interrupts", "halt").

type BoundaryKind int

const (
	BInstr    BoundaryKind = iota // one instruction executed
	BIdle                         // halted or stopped: one idle cycle, nothing changes
	BDispatch                     // interrupt dispatch
	BWake                         // HALT left with IME=0: resume at the following instruction (latency unspecified)
)

type Boundary struct {
	Kind   BoundaryKind
	Cycles int // BInstr: instruction length; BDispatch: 5 (6 out of HALT); BIdle: 1
	Source int // dispatched source 0..4
	Info   StepInfo
}

var Vectors = [5]uint16{0x40, 0x48, 0x50, 0x58, 0x60}

// AtBoundary performs what the documentation prescribes at one instruction boundary.
// IE and IF are read through the bus; a dispatch pushes PC and clears the IF bit through the bus.
func (c *CPU) AtBoundary(bus Bus) Boundary {
	ie, iff := bus.Read(0xffff), bus.Read(0xff0f)
	pend := ie & iff & 0x1f
	if c.Stopped {
		return Boundary{Kind: BIdle, Cycles: 1}
	}
	if c.Halted {
		if pend == 0 {
			return Boundary{Kind: BIdle, Cycles: 1}
		}
		c.Halted = false
		if !c.IME {
			return Boundary{Kind: BWake}
		}
		return c.dispatch(bus, pend, iff, 6)
	}
	if c.IME && pend != 0 {
		return c.dispatch(bus, pend, iff, 5)
	}
	delay := c.EIDelay
	info := c.Step(bus)
	if delay && c.EIDelay {
		// EI takes effect once the instruction after it has executed (DI in between cancels it)
		c.IME = true
		c.EIDelay = false
	}
	return Boundary{Kind: BInstr, Cycles: info.Cycles, Info: info}
}

func (c *CPU) dispatch(bus Bus, pend, iff uint8, cycles int) Boundary {
	k := 0
	for pend&(1<<uint(k)) == 0 {
		k++
	}
	bus.Write(0xff0f, iff&^(1<<uint(k)))
	c.IME = false
	c.EIDelay = false
	c.SP--
	bus.Write(c.SP, uint8(c.PC>>8))
	c.SP--
	bus.Write(c.SP, uint8(c.PC))
	c.PC = Vectors[k]
	return Boundary{Kind: BDispatch, Cycles: cycles, Source: k}
}
