package ref

// Reference DMG frame composition (Pan Docs "Rendering", "Tile data", "OAM") for a scene
// whose registers, VRAM and OAM are constant for the frame, restricted to the
// preconditions of C15: 8x8 objects, at most 10 per line, objects ordered by X in OAM,
// window at WX 7-166.

type Scene struct {
	LCDC, SCX, SCY, WX, WY, BGP, OBP0, OBP1 uint8
	VRAM                                    *[0x2000]uint8
	OAM                                     [160]uint8
}

// Shades are the four greys the emulator emits (lightest to darkest), RGBA.
var Shades = [4][4]uint8{{0xff, 0xff, 0xff, 0xff}, {0xaa, 0xaa, 0xaa, 0xff}, {0x77, 0x77, 0x77, 0xff}, {0x33, 0x33, 0x33, 0xff}}

func (s *Scene) tilePixel(tile int, x, y uint8) uint8 {
	base := tile * 16
	lo := s.VRAM[base+int(y)*2]   // first byte: least significant bit of the colour id
	hi := s.VRAM[base+int(y)*2+1] // second byte: most significant bit
	bit := 7 - x
	return (hi>>bit&1)<<1 | lo>>bit&1
}

func (s *Scene) mapPixel(mapHigh bool, px, py uint8) uint8 {
	mapBase := 0x1800
	if mapHigh {
		mapBase = 0x1c00
	}
	id := s.VRAM[mapBase+int(py/8)*32+int(px/8)]
	tile := int(id)
	if s.LCDC&0x10 == 0 {
		tile = 256 + int(int8(id))
	}
	return s.tilePixel(tile, px%8, py%8)
}

// Render returns the 160x144 frame as shade indices 0-3.
func (s *Scene) Render() *[144][160]uint8 {
	var out [144][160]uint8
	for y := 0; y < 144; y++ {
		for x := 0; x < 160; x++ {
			bg := uint8(0)
			if s.LCDC&0x01 != 0 {
				inWin := s.LCDC&0x20 != 0 && s.WX >= 7 && s.WX <= 166 && int(s.WY) <= y && x >= int(s.WX)-7
				if inWin {
					bg = s.mapPixel(s.LCDC&0x40 != 0, uint8(x-(int(s.WX)-7)), uint8(y-int(s.WY)))
				} else {
					bg = s.mapPixel(s.LCDC&0x08 != 0, uint8(x)+s.SCX, uint8(y)+s.SCY)
				}
			}
			shade := s.BGP >> (bg * 2) & 3
			if s.LCDC&0x02 != 0 {
				for i := 0; i < 40; i++ {
					oy, ox, tile, attr := int(s.OAM[i*4]), int(s.OAM[i*4+1]), s.OAM[i*4+2], s.OAM[i*4+3]
					if y < oy-16 || y >= oy-8 || x < ox-8 || x >= ox {
						continue
					}
					tx, ty := uint8(x-(ox-8)), uint8(y-(oy-16))
					if attr&0x20 != 0 {
						tx = 7 - tx
					}
					if attr&0x40 != 0 {
						ty = 7 - ty
					}
					c := s.tilePixel(int(tile), tx, ty)
					if c == 0 {
						continue
					}
					// the first opaque object pixel decides
					if !(attr&0x80 != 0 && bg != 0) {
						pal := s.OBP0
						if attr&0x10 != 0 {
							pal = s.OBP1
						}
						shade = pal >> (c * 2) & 3
					}
					break
				}
			}
			out[y][x] = shade
		}
	}
	return &out
}
