package ref

// Reference SM83 interpreter, decoded from the opcode's x/y/z/p/q bit fields (Pan Docs
// "CPU instruction set", gbops timing). It is independent of the repository's dispatch
// tables. One Step executes exactly one instruction and reports its machine-cycle count
// and every *data* access (not opcode/operand fetches) with the 1-based machine cycle in
// which the documentation places it.

type Bus interface {
	Read(a uint16) uint8
	Write(a uint16, v uint8)
}

const (
	FZ = 0x80
	FN = 0x40
	FH = 0x20
	FC = 0x10
)

type CPU struct {
	A, F, B, C, D, E, H, L uint8
	SP, PC                 uint16
	IME                    bool
	EIDelay                bool // EI executed: IME becomes true after the next instruction
	Halted                 bool
	HaltBug                bool
	Stopped                bool
}

type Access struct {
	Cycle int
	Write bool
	Addr  uint16
	Val   uint8
}

type StepInfo struct {
	Op        uint8
	CB        bool
	CBOp      uint8
	Cycles    int
	Accesses  []Access
	Undefined bool
	Taken     bool // conditional control flow taken
	Cond      bool // instruction is conditional
}

type stepper struct {
	c    *CPU
	bus  Bus
	info StepInfo
}

func (s *stepper) fetch() uint8 {
	v := s.bus.Read(s.c.PC)
	s.c.PC++
	s.info.Cycles++
	return v
}

func (s *stepper) tick() { s.info.Cycles++ }

func (s *stepper) rd(a uint16) uint8 {
	s.info.Cycles++
	v := s.bus.Read(a)
	s.info.Accesses = append(s.info.Accesses, Access{s.info.Cycles, false, a, v})
	return v
}

func (s *stepper) wr(a uint16, v uint8) {
	s.info.Cycles++
	s.bus.Write(a, v)
	s.info.Accesses = append(s.info.Accesses, Access{s.info.Cycles, true, a, v})
}

func (c *CPU) BC() uint16     { return uint16(c.B)<<8 | uint16(c.C) }
func (c *CPU) DE() uint16     { return uint16(c.D)<<8 | uint16(c.E) }
func (c *CPU) HL() uint16     { return uint16(c.H)<<8 | uint16(c.L) }
func (c *CPU) setBC(v uint16) { c.B, c.C = uint8(v>>8), uint8(v) }
func (c *CPU) setDE(v uint16) { c.D, c.E = uint8(v>>8), uint8(v) }
func (c *CPU) setHL(v uint16) { c.H, c.L = uint8(v>>8), uint8(v) }

func (c *CPU) flag(f uint8) bool { return c.F&f != 0 }

func (c *CPU) setFlags(z, n, h, cy bool) {
	c.F = 0
	if z {
		c.F |= FZ
	}
	if n {
		c.F |= FN
	}
	if h {
		c.F |= FH
	}
	if cy {
		c.F |= FC
	}
}

// r8 index: 0 B,1 C,2 D,3 E,4 H,5 L,6 (HL),7 A
func (s *stepper) getR(i uint8) uint8 {
	c := s.c
	switch i {
	case 0:
		return c.B
	case 1:
		return c.C
	case 2:
		return c.D
	case 3:
		return c.E
	case 4:
		return c.H
	case 5:
		return c.L
	case 6:
		return s.rd(c.HL())
	}
	return c.A
}

func (s *stepper) setR(i uint8, v uint8) {
	c := s.c
	switch i {
	case 0:
		c.B = v
	case 1:
		c.C = v
	case 2:
		c.D = v
	case 3:
		c.E = v
	case 4:
		c.H = v
	case 5:
		c.L = v
	case 6:
		s.wr(c.HL(), v)
	default:
		c.A = v
	}
}

// rp index: 0 BC,1 DE,2 HL,3 SP
func (c *CPU) getRP(i uint8) uint16 {
	switch i {
	case 0:
		return c.BC()
	case 1:
		return c.DE()
	case 2:
		return c.HL()
	}
	return c.SP
}

func (c *CPU) setRP(i uint8, v uint16) {
	switch i {
	case 0:
		c.setBC(v)
	case 1:
		c.setDE(v)
	case 2:
		c.setHL(v)
	default:
		c.SP = v
	}
}

func (c *CPU) cond(y uint8) bool {
	switch y & 3 {
	case 0:
		return !c.flag(FZ)
	case 1:
		return c.flag(FZ)
	case 2:
		return !c.flag(FC)
	}
	return c.flag(FC)
}

func (c *CPU) alu(op uint8, v uint8) {
	a := c.A
	cy := uint8(0)
	if c.flag(FC) {
		cy = 1
	}
	switch op {
	case 0: // ADD
		r := uint16(a) + uint16(v)
		c.setFlags(uint8(r) == 0, false, (a&0xf)+(v&0xf) > 0xf, r > 0xff)
		c.A = uint8(r)
	case 1: // ADC
		r := uint16(a) + uint16(v) + uint16(cy)
		c.setFlags(uint8(r) == 0, false, (a&0xf)+(v&0xf)+cy > 0xf, r > 0xff)
		c.A = uint8(r)
	case 2, 7: // SUB, CP
		r := int(a) - int(v)
		c.setFlags(uint8(r) == 0, true, int(a&0xf)-int(v&0xf) < 0, r < 0)
		if op == 2 {
			c.A = uint8(r)
		}
	case 3: // SBC
		r := int(a) - int(v) - int(cy)
		c.setFlags(uint8(r) == 0, true, int(a&0xf)-int(v&0xf)-int(cy) < 0, r < 0)
		c.A = uint8(r)
	case 4:
		c.A = a & v
		c.setFlags(c.A == 0, false, true, false)
	case 5:
		c.A = a ^ v
		c.setFlags(c.A == 0, false, false, false)
	case 6:
		c.A = a | v
		c.setFlags(c.A == 0, false, false, false)
	}
}

func (c *CPU) rot(op uint8, v uint8) uint8 {
	cy := c.flag(FC)
	var r uint8
	var out bool
	switch op {
	case 0: // RLC
		out = v&0x80 != 0
		r = v<<1 | v>>7
	case 1: // RRC
		out = v&1 != 0
		r = v>>1 | v<<7
	case 2: // RL
		out = v&0x80 != 0
		r = v << 1
		if cy {
			r |= 1
		}
	case 3: // RR
		out = v&1 != 0
		r = v >> 1
		if cy {
			r |= 0x80
		}
	case 4: // SLA
		out = v&0x80 != 0
		r = v << 1
	case 5: // SRA
		out = v&1 != 0
		r = v>>1 | v&0x80
	case 6: // SWAP
		r = v<<4 | v>>4
	case 7: // SRL
		out = v&1 != 0
		r = v >> 1
	}
	c.setFlags(r == 0, false, false, out)
	return r
}

func (s *stepper) push16(v uint16) {
	s.c.SP--
	s.wr(s.c.SP, uint8(v>>8))
	s.c.SP--
	s.wr(s.c.SP, uint8(v))
}

func (s *stepper) pop16() uint16 {
	lo := s.rd(s.c.SP)
	s.c.SP++
	hi := s.rd(s.c.SP)
	s.c.SP++
	return uint16(hi)<<8 | uint16(lo)
}

func (s *stepper) imm16() uint16 {
	lo := s.fetch()
	hi := s.fetch()
	return uint16(hi)<<8 | uint16(lo)
}

// addSPe computes SP+e and the documented flags (carries out of bit 3 and bit 7 of the
// unsigned low-byte addition).
func (c *CPU) addSPe(e uint8) uint16 {
	sp := c.SP
	c.setFlags(false, false, (sp&0xf)+uint16(e&0xf) > 0xf, (sp&0xff)+uint16(e) > 0xff)
	return sp + uint16(int16(int8(e)))
}

var UndefinedOpcodes = map[uint8]bool{0xd3: true, 0xdb: true, 0xdd: true, 0xe3: true, 0xe4: true, 0xeb: true, 0xec: true, 0xed: true, 0xf4: true, 0xfc: true, 0xfd: true}

// Step executes one instruction. Interrupt dispatch, HALT idling and the delayed effect
// of EI are handled by the caller (see Control in control.go); Step only sets the flags.
func (c *CPU) Step(bus Bus) StepInfo {
	s := &stepper{c: c, bus: bus}
	op := bus.Read(c.PC)
	s.info.Cycles = 1
	if c.HaltBug {
		c.HaltBug = false
	} else {
		c.PC++
	}
	s.info.Op = op
	if UndefinedOpcodes[op] {
		s.info.Undefined = true
		return s.info
	}
	x, y, z := op>>6, (op>>3)&7, op&7
	p, q := y>>1, y&1
	switch x {
	case 0:
		switch z {
		case 0:
			switch {
			case y == 0: // NOP
			case y == 1: // LD (nn),SP
				a := s.imm16()
				s.wr(a, uint8(c.SP))
				s.wr(a+1, uint8(c.SP>>8))
			case y == 2: // STOP
				c.Stopped = true
			case y == 3: // JR e
				e := s.fetch()
				s.tick()
				c.PC += uint16(int16(int8(e)))
			default: // JR cc,e
				e := s.fetch()
				s.info.Cond = true
				if c.cond(y - 4) {
					s.info.Taken = true
					s.tick()
					c.PC += uint16(int16(int8(e)))
				}
			}
		case 1:
			if q == 0 { // LD rp,nn
				c.setRP(p, s.imm16())
			} else { // ADD HL,rp
				hl, v := c.HL(), c.getRP(p)
				r := uint32(hl) + uint32(v)
				z := c.flag(FZ)
				c.setFlags(z, false, (hl&0xfff)+(v&0xfff) > 0xfff, r > 0xffff)
				c.setHL(uint16(r))
				s.tick()
			}
		case 2:
			var a uint16
			switch p {
			case 0:
				a = c.BC()
			case 1:
				a = c.DE()
			default:
				a = c.HL()
			}
			if q == 0 {
				s.wr(a, c.A)
			} else {
				c.A = s.rd(a)
			}
			if p == 2 {
				c.setHL(a + 1)
			} else if p == 3 {
				c.setHL(a - 1)
			}
		case 3:
			if q == 0 {
				c.setRP(p, c.getRP(p)+1)
			} else {
				c.setRP(p, c.getRP(p)-1)
			}
			s.tick()
		case 4: // INC r
			v := s.getR(y)
			r := v + 1
			c.setFlags(r == 0, false, v&0xf == 0xf, c.flag(FC))
			s.setR(y, r)
		case 5: // DEC r
			v := s.getR(y)
			r := v - 1
			c.setFlags(r == 0, true, v&0xf == 0, c.flag(FC))
			s.setR(y, r)
		case 6: // LD r,n
			s.setR(y, s.fetch())
		case 7:
			switch y {
			case 0, 1, 2, 3: // RLCA RRCA RLA RRA
				c.A = c.rot(y, c.A)
				c.F &^= FZ
			case 4: // DAA
				a := c.A
				var corr uint8
				carry := c.flag(FC)
				n := c.flag(FN)
				if c.flag(FH) || (!n && a&0xf > 9) {
					corr |= 0x06
				}
				if carry || (!n && a > 0x99) {
					corr |= 0x60
					carry = true
				}
				if n {
					a -= corr
				} else {
					a += corr
				}
				c.A = a
				c.setFlags(a == 0, n, false, carry)
			case 5: // CPL
				c.A = ^c.A
				c.F |= FN | FH
			case 6: // SCF
				c.setFlags(c.flag(FZ), false, false, true)
			case 7: // CCF
				c.setFlags(c.flag(FZ), false, false, !c.flag(FC))
			}
		}
	case 1:
		if op == 0x76 { // HALT
			pending := bus.Read(0xffff)&bus.Read(0xff0f)&0x1f != 0
			if c.IME || !pending {
				c.Halted = true
			} else {
				c.HaltBug = true
			}
		} else {
			s.setR(y, s.getR(z))
		}
	case 2:
		c.alu(y, s.getR(z))
	case 3:
		switch z {
		case 0:
			switch y {
			case 0, 1, 2, 3: // RET cc
				s.info.Cond = true
				s.tick()
				if c.cond(y) {
					s.info.Taken = true
					c.PC = s.pop16()
					s.tick()
				}
			case 4: // LDH (n),A
				n := s.fetch()
				s.wr(0xff00|uint16(n), c.A)
			case 5: // ADD SP,e
				e := s.fetch()
				c.SP = c.addSPe(e)
				s.tick()
				s.tick()
			case 6: // LDH A,(n)
				n := s.fetch()
				c.A = s.rd(0xff00 | uint16(n))
			case 7: // LD HL,SP+e
				e := s.fetch()
				c.setHL(c.addSPe(e))
				s.tick()
			}
		case 1:
			if q == 0 { // POP
				v := s.pop16()
				switch p {
				case 0:
					c.setBC(v)
				case 1:
					c.setDE(v)
				case 2:
					c.setHL(v)
				case 3:
					c.A, c.F = uint8(v>>8), uint8(v)&0xf0
				}
			} else {
				switch p {
				case 0: // RET
					c.PC = s.pop16()
					s.tick()
				case 1: // RETI
					c.PC = s.pop16()
					s.tick()
					c.IME = true
					c.EIDelay = false
				case 2: // JP HL
					c.PC = c.HL()
				case 3: // LD SP,HL
					c.SP = c.HL()
					s.tick()
				}
			}
		case 2:
			switch y {
			case 0, 1, 2, 3: // JP cc,nn
				a := s.imm16()
				s.info.Cond = true
				if c.cond(y) {
					s.info.Taken = true
					c.PC = a
					s.tick()
				}
			case 4: // LD (C),A
				s.wr(0xff00|uint16(c.C), c.A)
			case 5: // LD (nn),A
				s.wr(s.imm16(), c.A)
			case 6: // LD A,(C)
				c.A = s.rd(0xff00 | uint16(c.C))
			case 7: // LD A,(nn)
				c.A = s.rd(s.imm16())
			}
		case 3:
			switch y {
			case 0: // JP nn
				c.PC = s.imm16()
				s.tick()
			case 1: // CB prefix
				cb := s.fetch()
				s.info.CB, s.info.CBOp = true, cb
				cx, cy, cz := cb>>6, (cb>>3)&7, cb&7
				switch cx {
				case 0:
					s.setR(cz, c.rot(cy, s.getR(cz)))
				case 1: // BIT
					v := s.getR(cz)
					c.setFlags(v&(1<<cy) == 0, false, true, c.flag(FC))
				case 2:
					s.setR(cz, s.getR(cz)&^(1<<cy))
				case 3:
					s.setR(cz, s.getR(cz)|(1<<cy))
				}
			case 6: // DI
				c.IME = false
				c.EIDelay = false
			case 7: // EI
				if !c.IME {
					c.EIDelay = true
				}
			}
		case 4: // CALL cc,nn
			a := s.imm16()
			s.info.Cond = true
			if c.cond(y) {
				s.info.Taken = true
				s.tick()
				s.push16(c.PC)
				c.PC = a
			}
		case 5:
			if q == 0 { // PUSH
				var v uint16
				switch p {
				case 0:
					v = c.BC()
				case 1:
					v = c.DE()
				case 2:
					v = c.HL()
				case 3:
					v = uint16(c.A)<<8 | uint16(c.F)
				}
				s.tick()
				s.push16(v)
			} else { // CALL nn (only p==0 is defined)
				a := s.imm16()
				s.tick()
				s.push16(c.PC)
				c.PC = a
			}
		case 6: // ALU A,n
			c.alu(y, s.fetch())
		case 7: // RST
			s.tick()
			s.push16(c.PC)
			c.PC = uint16(y) * 8
		}
	}
	return s.info
}

// OperandBytes returns the number of operand bytes that follow a base opcode.
func OperandBytes(op uint8) int {
	x, y, z := op>>6, (op>>3)&7, op&7
	switch {
	case x == 0 && z == 0 && y == 1: // LD (nn),SP
		return 2
	case x == 0 && z == 0 && y >= 2: // STOP (treated as 1-byte, see C01 notes), JR
		if y == 2 {
			return 0
		}
		return 1
	case x == 0 && z == 1 && y&1 == 0: // LD rp,nn
		return 2
	case x == 0 && z == 6: // LD r,n
		return 1
	case x == 3 && z == 0 && y >= 4: // LDH, ADD SP, LD HL,SP+e
		return 1
	case x == 3 && z == 2: // JP cc / LD (C) / LD (nn)
		if y <= 3 || y == 5 || y == 7 {
			return 2
		}
		return 0
	case x == 3 && z == 3 && y == 0: // JP nn
		return 2
	case x == 3 && z == 3 && y == 1: // CB
		return 1
	case x == 3 && z == 4 && y <= 3: // CALL cc
		return 2
	case op == 0xcd:
		return 2
	case x == 3 && z == 6:
		return 1
	}
	return 0
}
