package ref

// Timer is the reference DMG timer (Pan Docs "Timer obscure behaviour"; DESIGN.md A.1).
// It is cycle-indexed: the reload machine never looks at the divider, which is exactly
// "regardless of the counter value or DIV writes".
type Timer struct {
	Div            uint16
	Tima, Tma, Tac uint8
	Prev           bool // edge signal as sampled at the last tick
	Phase          uint8
	TimaW, TmaW    bool // written since the last tick
	Cancelled      bool // the reload was cancelled at the last tick
	IrqDue         bool // overflow seen, request not yet observed
	Alt            int  // alternative permitted TIMA read value, -1 = none
	Unspec         bool // behaviour from here on is not fixed by the statement
}

const (
	TIdle = iota
	TOvf  // TIMA overflowed at the last tick and reads 00 during this cycle
	TRel  // TIMA was reloaded at the last tick; this is the reload cycle
)

var timerBit = [4]uint{9, 3, 5, 7}

func NewTimer(div uint16) Timer { return Timer{Div: div, Alt: -1} }

func (t *Timer) signal() bool {
	return t.Tac&4 != 0 && t.Div&(1<<timerBit[t.Tac&3]) != 0
}

// Tick advances one machine cycle. irq is what EndMachineCycle returned on the
// implementation; the result tells whether that value is permitted.
func (t *Timer) Tick(irq bool) (ok bool, why string) {
	t.Div += 4
	t.Alt = -1
	wasCancelled := false
	tmaLoad := false
	t.Cancelled = false
	switch t.Phase {
	case TOvf:
		if t.TimaW {
			t.Phase = TIdle
			t.Cancelled = true
			wasCancelled = true
		} else {
			t.Tima = t.Tma
			t.Phase = TRel
		}
	case TRel:
		t.Phase = TIdle
		if t.TmaW {
			t.Tima = t.Tma
			tmaLoad = true
		}
	}
	t.TimaW, t.TmaW = false, false
	sig := t.signal()
	overflow := false
	if t.Prev && !sig {
		if tmaLoad {
			t.Unspec = true // increment and TMA load in the same tick: order not fixed
		}
		t.Tima++
		if t.Tima == 0 {
			t.Phase = TOvf
			overflow = true
		}
	}
	t.Prev = sig
	switch {
	case overflow && t.IrqDue:
		// cannot happen (an overflow needs a rising edge first); be safe
		t.Unspec = true
	case overflow:
		t.IrqDue = !irq // at the overflow tick or, at the latest, at the reload tick
	case t.IrqDue:
		t.IrqDue = false
		if !irq && !wasCancelled {
			return false, "no timer interrupt request by the reload tick after an overflow"
		}
	default:
		if irq {
			return false, "timer interrupt requested without an overflow (or a second request for one overflow)"
		}
	}
	return true, ""
}

func (t *Timer) WriteDIV() { t.Div = 0 }

func (t *Timer) WriteTAC(v uint8) { t.Tac = v & 7 }

func (t *Timer) WriteTIMA(v uint8) {
	if t.Cancelled {
		t.Unspec = true
	}
	switch t.Phase {
	case TIdle:
		t.Tima = v
		t.Alt = -1
	case TOvf:
		t.Tima = v
		t.TimaW = true
	case TRel:
		// ignored in the reload cycle
	}
}

func (t *Timer) WriteTMA(v uint8) {
	if t.Cancelled {
		t.Unspec = true
	}
	t.Tma = v
	t.TmaW = true
	if t.Phase == TRel {
		// also loads TIMA; visible at once or by the end of the cycle
		if t.Alt < 0 {
			t.Alt = int(t.Tima)
		}
		t.Tima = v
	}
}

func (t *Timer) ReadDIV() uint8 { return uint8(t.Div >> 8) }
func (t *Timer) ReadTAC() uint8 { return t.Tac | 0xf8 }
func (t *Timer) ReadTMA() uint8 { return t.Tma }

// TIMAOk reports whether v is a permitted TIMA read value.
func (t *Timer) TIMAOk(v uint8) bool {
	return v == t.Tima || (t.Alt >= 0 && v == uint8(t.Alt))
}
