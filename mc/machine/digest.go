package machine

import (
	"encoding/binary"
	"hash/fnv"
	"reflect"
	"unsafe"
	"verifmc/explore"
)

// Digest hashes what a guest (and a user) can observe of this machine: CPU registers,
// reads of the address space through the Mapper, and — when full — the whole 64 KiB
// space plus the frame buffer. OAM (FE00-FEFF) is only read while the LCD is off,
// because a Mapper read of OAM in mode 2 arms the emulated OAM-corruption bug.
func (m *M) Digest(full bool) uint64 {
	if full {
		return m.DigestMode(2)
	}
	return m.DigestMode(0)
}

// DigestMode: 0 = registers + selected reads; 1 = everything writable (VRAM, cartridge RAM
// window, WRAM, OAM, I/O, HRAM, frame) plus probes of both ROM windows; 2 = all 64 KiB + frame.
func (m *M) DigestMode(mode int) uint64 {
	full := mode == 2
	h := fnv.New64a()
	r := m.CPU.VGet()
	var b [16]byte
	b[0], b[1], b[2], b[3], b[4], b[5], b[6], b[7] = r.A, r.B, r.C, r.D, r.E, r.F, r.H, r.L
	binary.LittleEndian.PutUint16(b[8:], r.SP)
	binary.LittleEndian.PutUint16(b[10:], r.PC)
	if r.Halted {
		b[12] |= 1
	}
	if r.HaltBug {
		b[12] |= 2
	}
	if r.Stopped {
		b[12] |= 4
	}
	b[13] = uint8(m.CPU.VCycle())
	h.Write(b[:14])
	lcdOn := m.Map.Read(0xff40)&0x80 != 0
	rd := func(lo, hi int) {
		defer func() {
			if recover() != nil { // a crashing read is part of the observable behaviour (C09/C11 report it)
				h.Write([]byte("PANIC"))
			}
		}()
		var buf [256]byte
		n := 0
		for a := lo; a <= hi; a++ {
			if a >= 0xfe00 && a <= 0xfeff && lcdOn {
				continue
			}
			buf[n] = m.Map.Read(uint16(a))
			n++
			if n == len(buf) {
				h.Write(buf[:n])
				n = 0
			}
		}
		h.Write(buf[:n])
	}
	if mode == 1 {
		rd(0x0000, 0x0001)
		rd(0x3ffe, 0x4001)
		rd(0x7ffe, 0x7fff)
		rd(0x8000, 0x9fff)
		rd(0xa000, 0xbfff)
		rd(0xc000, 0xdfff)
		rd(0xfe00, 0xffff)
		h.Write(m.P.Frame().Pix)
		// the object memory with its corruption flags, read reflectively: bus reads of FE00-FE9F are skipped above
		// while the LCD is on (a read in mode 2 is itself an event for the OAM-bug emulation)
		h.Write([]byte(explore.DeepKey(m.OAM, 1<<12)))
	} else if full {
		rd(0x0000, 0x9fff)
		rd(0xa000, 0xbfff)
		rd(0xc000, 0xffff)
		h.Write(m.P.Frame().Pix)
	} else {
		rd(0xc000, 0xc03f)
		rd(0xdfc0, 0xdfff)
		rd(0xff00, 0xff4b)
		rd(0xff80, 0xffff)
	}
	if m.Serial != nil {
		h.Write(m.Serial.Bytes())
	}
	return h.Sum64()
}

// Program returns a 32 KiB ROM-only image with code placed at the given addresses.
func Program(chunks map[uint16][]byte) []byte {
	img := make([]byte, 0x8000)
	for a, c := range chunks {
		copy(img[a:], c)
	}
	return img
}

// ProgramCart is Program with a cartridge-type and RAM-size byte in the header (32 KiB ROM, 2 pages).
func ProgramCart(cartType, ramCode uint8, chunks map[uint16][]byte) []byte {
	img := Program(chunks)
	img[0x147], img[0x148], img[0x149] = cartType, 0x00, ramCode
	return img
}

// OAMBytes returns the object memory array of the real OAM (an unexported field, located by reflection once per
// machine): reading it this way is not a bus access, so it can be observed after every machine cycle without
// arming or triggering anything.
func (m *M) OAMBytes() *[160]uint8 {
	if m.oamBytes == nil {
		f := reflect.ValueOf(m.OAM).Elem().FieldByName("oam")
		if !f.IsValid() || f.Len() != 160 {
			panic("machine: oam.OAM has no 160-byte field named oam")
		}
		m.oamBytes = (*[160]uint8)(unsafe.Pointer(f.UnsafeAddr()))
	}
	return m.oamBytes
}
