// Package machine wires the real emulator components exactly as gameboy.New does
// (without the file system, display or speakers) and steps them in runFrame's order.
// C26 checks differentially that this order is the real runFrame's order.
package machine

import (
	"bytes"

	"github.com/scottyw/tetromino/gameboy/audio"
	"github.com/scottyw/tetromino/gameboy/controller"
	"github.com/scottyw/tetromino/gameboy/cpu"
	"github.com/scottyw/tetromino/gameboy/interrupts"
	"github.com/scottyw/tetromino/gameboy/memory"
	"github.com/scottyw/tetromino/gameboy/oam"
	"github.com/scottyw/tetromino/gameboy/ppu"
	"github.com/scottyw/tetromino/gameboy/serial"
	"github.com/scottyw/tetromino/gameboy/timer"
)

type Opts struct {
	Audio    bool // attach sample channels
	NoSerial bool // no serial writer configured
	ChanCap  int
	DebugLCD bool // build the PPU in its debug configuration (Config.DebugLCD)
	DebugCPU bool // build the CPU with its instruction trace on (Config.DebugCPU); the trace goes to os.Stdout
}

// M is one emulated machine.
type M struct {
	I        *interrupts.Interrupts
	OAM      *oam.OAM
	oamBytes *[160]uint8
	A        *audio.Audio
	P        *ppu.PPU
	S        *serial.Serial
	T        *timer.Timer
	C        *controller.Controller
	Map      *memory.Mapper
	CPU      *cpu.CPU
	Serial   *bytes.Buffer
	L, R     chan float32
	Cycles   int64
}

// New builds a machine around the given cartridge image. It panics if the real
// constructor panics (callers that expect that recover).
func New(rom []byte, o Opts) *M {
	m := &M{}
	m.I = interrupts.New()
	m.OAM = oam.New()
	if o.Audio {
		n := o.ChanCap
		if n == 0 {
			n = 4096
		}
		m.L, m.R = make(chan float32, n), make(chan float32, n)
		m.A = audio.New(m.L, m.R)
	} else {
		m.A = audio.New(nil, nil)
	}
	m.P = ppu.New(m.I, m.OAM, o.DebugLCD)
	if o.NoSerial {
		m.S = serial.New(nil)
	} else {
		m.Serial = &bytes.Buffer{}
		m.S = serial.New(m.Serial)
	}
	m.T = timer.New()
	m.C = controller.New()
	m.Map = memory.New(rom, m.I, m.OAM, m.P, m.C, m.S, m.T, m.A)
	m.CPU = cpu.New(m.I, m.OAM, o.DebugCPU, m.Map)
	m.CPU.Initialize()
	return m
}

// Cycle advances one machine cycle in runFrame's order.
func (m *M) Cycle() {
	m.CPU.ExecuteMachineCycle()
	m.Hardware()
}

// Hardware advances everything but the CPU by one machine cycle.
func (m *M) Hardware() {
	m.P.EndMachineCycle()
	m.Map.EndMachineCycle()
	m.A.EndMachineCycle()
	if m.T.EndMachineCycle() {
		m.I.RequestTimer()
	}
	m.Cycles++
}

// Image builds a cartridge image with the given header bytes. Every 16 KiB page p
// carries its index at offsets 0x0000-1 (hi,lo), 0x00ff, 0x1fff, 0x3ffe-f so that one
// read identifies the page; the header lives in page 0.
func Image(cartType, romSizeCode, ramSizeCode uint8, pages int) []byte {
	img := make([]byte, pages*0x4000)
	for p := 0; p < pages; p++ {
		base := p * 0x4000
		for i := 0; i < 0x4000; i++ {
			img[base+i] = uint8(i*7 + p*13 + (i >> 8))
		}
		img[base+0x0000] = uint8(p >> 8)
		img[base+0x0001] = uint8(p)
		img[base+0x00fe] = uint8(p >> 8)
		img[base+0x00ff] = uint8(p)
		img[base+0x1ffe] = uint8(p >> 8)
		img[base+0x1fff] = uint8(p)
		img[base+0x3ffe] = uint8(p >> 8)
		img[base+0x3fff] = uint8(p)
	}
	img[0x147], img[0x148], img[0x149] = cartType, romSizeCode, ramSizeCode
	return img
}

// ROMOnly is a 32 KiB ROM-only image filled with NOPs (00).
func ROMOnly() []byte {
	return romOnly
}

var romOnly = make([]byte, 0x8000) // never written: ROM-only writes are ignored

// WithController returns a machine that shares every component with m except for a
// copied controller (and a mapper bound to it). Used by the joypad closure, where the
// controller is the only component that changes.
func (m *M) WithController(c *controller.Controller) *M {
	n := *m
	n.C = c
	n.Map = memory.New(ROMOnly(), n.I, n.OAM, n.P, n.C, n.S, n.T, n.A)
	return &n
}
