package explore

import (
	"encoding/json"
	"fmt"
	"os"
	"runtime"
	"sort"
	"strings"
	"sync"
	"sync/atomic"
	"time"
)

// Replayers maps part name -> function that re-executes one serialised case on a
// fresh environment and returns the failure (nil = passes). Filled by Product/BFS
// registrations so `--replay` needs no explorer.
var Replayers = map[string]func(raw json.RawMessage) (*Fail, error){}

// PartOpt describes the stated bound/domain of a part for the evidence file.
type PartOpt struct {
	Bound   string
	Domain  string
	Workers int // 0 = GOMAXPROCS
	// Guard: before each case the worker records it in <GuardDir>/current-<w>.json so that the
	// supervising parent process can attribute an os.Exit / fatal runtime error of the real code.
	Guard bool
	// Unstable: the property itself is about run-to-run differences (determinism), so an observed
	// failure is reported without demanding that it reproduces identically.
	Unstable bool
	// SameSig: a failure counts as reproduced when the re-execution fails with the same signature, whatever the
	// details say (the property is about state shared inside the process, so where exactly a divergence shows may
	// depend on what ran before in this process)
	SameSig bool
	// History > 0: the environment is deliberately reused from case to case (so cases also start
	// from non-initial states). Each worker remembers up to History cases executed on its
	// environment since it was created; a failure that does not reproduce on a fresh environment
	// is re-executed together with the shortest suffix of that history that reproduces it, and
	// the artefact is then {"_history": [...], "_case": c}.
	History int
}

// histCase is the replay artefact of a failure that needs preceding cases on the same environment.
type histCase[C any] struct {
	History []C `json:"_history"`
	Case    *C  `json:"_case"`
	// Bystander: the failure shows only when another environment (another emulator instance) has been created
	// after the one the case runs on, i.e. through state shared between instances of one process.
	Bystander bool `json:"_bystander,omitempty"`
	// Concurrent: the failure never shows when the case runs alone in the process, and shows when it is re-executed
	// while other cases of the same part (Pool) run on other emulator instances in parallel goroutines: what one
	// instance does reaches another through state shared inside the process. Replaying re-creates that situation.
	Concurrent bool `json:"_concurrent,omitempty"`
	Pool       []C  `json:"_pool,omitempty"`
}

// runConcurrent re-executes c (fresh environment each time, up to trials times or for about 20 s) while three
// goroutines keep executing the pool's cases on environments of their own; it returns how often c failed with the
// given signature and how often it ran.
func runConcurrent[C any, E any](check func(l *Local, env E, c C) *Fail, newEnv func() E, c C, pool []C, sig string, trials int) (hits, runs int, last *Fail) {
	if len(pool) == 0 {
		return 0, 0, nil
	}
	stop := make(chan struct{})
	var wg sync.WaitGroup
	for g := 0; g < 3; g++ {
		wg.Add(1)
		go func(g int) {
			defer wg.Done()
			for i := g; ; i += 3 {
				select {
				case <-stop:
					return
				default:
				}
				l := &Local{outcomes: map[uint64]struct{}{}}
				safely(check, l, newEnv(), pool[i%len(pool)])
			}
		}(g)
	}
	t0 := time.Now()
	for runs < trials && (runs < 3 || time.Since(t0) < 20*time.Second) {
		l := &Local{outcomes: map[uint64]struct{}{}}
		f := safely(check, l, newEnv(), c)
		runs++
		if f != nil && f.Sig == sig {
			hits++
			last = f
		}
	}
	close(stop)
	wg.Wait()
	return
}

// runBystander executes c on a fresh environment after a second environment has been created.
func runBystander[C any, E any](check func(l *Local, env E, c C) *Fail, newEnv func() E, c C) *Fail {
	env := newEnv()
	other := newEnv()
	_ = other
	l := &Local{outcomes: map[uint64]struct{}{}}
	return safely(check, l, env, c)
}

// runHist executes hist then c on one fresh environment; only the result of c counts.
func runHist[C any, E any](check func(l *Local, env E, c C) *Fail, newEnv func() E, hist []C, c C) *Fail {
	env := newEnv()
	for _, h := range hist {
		l := &Local{outcomes: map[uint64]struct{}{}}
		if f := safely(check, l, env, h); f != nil {
			return nil // a predecessor fails here although it passed originally: not this history
		}
	}
	l := &Local{outcomes: map[uint64]struct{}{}}
	return safely(check, l, env, c)
}

// GuardDir is set by the supervisor (main) for the child process; empty = no guarding.
var GuardDir string

func guardWrite(w int, part string, c any) {
	if GuardDir == "" {
		return
	}
	raw, _ := json.Marshal(c)
	b, _ := json.Marshal(Violation{Part: part, Case: raw})
	os.WriteFile(fmt.Sprintf("%s/current-%d.json", GuardDir, w), b, 0o644)
}

func guardClear(w int) {
	if GuardDir != "" {
		os.Remove(fmt.Sprintf("%s/current-%d.json", GuardDir, w))
	}
}

// safely runs check and converts a Go panic inside the real code (or the harness) into a failure.
func safely[C any, E any](check func(l *Local, env E, c C) *Fail, l *Local, env E, c C) (f *Fail) {
	defer func() {
		if p := recover(); p != nil {
			f = &Fail{Sig: "panic: " + panicSite(), Msg: fmt.Sprintf("panic: %v", p)}
		}
	}()
	return check(l, env, c)
}

// panicSite names the innermost non-runtime function on the panicking stack.
func panicSite() string {
	pcs := make([]uintptr, 32)
	n := runtime.Callers(3, pcs)
	frames := runtime.CallersFrames(pcs[:n])
	for {
		fr, more := frames.Next()
		if fr.Function != "" && !strings.HasPrefix(fr.Function, "runtime.") {
			fn := fr.Function
			if i := strings.LastIndex(fn, "/"); i >= 0 {
				fn = fn[i+1:]
			}
			return fn
		}
		if !more {
			return "unknown"
		}
	}
}

// Product enumerates every case produced by gen (a complete finite product, sharded
// over worker goroutines, each with its own environment from newEnv) and checks each
// on the real code. check must be deterministic: a failing case is re-executed 5x on
// fresh environments and any divergence is a harness error, not a violation.
func Product[C any, E any](r *Report, name string, opt PartOpt, gen func(yield func(C) bool), newEnv func() E, check func(l *Local, env E, c C) *Fail) {
	Replayers[name] = func(raw json.RawMessage) (*Fail, error) {
		var hc histCase[C]
		if err := json.Unmarshal(raw, &hc); err == nil && hc.Case != nil && hc.Bystander {
			f := runBystander(check, newEnv, *hc.Case)
			if f != nil {
				f.Msg = "with a second emulator instance created afterwards in the same process: " + f.Msg
			}
			return f, nil
		}
		if err := json.Unmarshal(raw, &hc); err == nil && hc.Case != nil && hc.Concurrent {
			l := &Local{outcomes: map[uint64]struct{}{}}
			first := safely(check, l, newEnv(), *hc.Case)
			if first != nil {
				return first, nil // (it fails alone as well here)
			}
			for _, p := range hc.Pool {
				l := &Local{outcomes: map[uint64]struct{}{}}
				if f := safely(check, l, newEnv(), p); f != nil {
					return f, nil
				}
			}
			var f *Fail
			// any failure of the case next to the pool counts
			stop := make(chan struct{})
			var wg sync.WaitGroup
			for g := 0; g < 3; g++ {
				wg.Add(1)
				go func(g int) {
					defer wg.Done()
					for i := g; ; i += 3 {
						select {
						case <-stop:
							return
						default:
						}
						l := &Local{outcomes: map[uint64]struct{}{}}
						safely(check, l, newEnv(), hc.Pool[i%len(hc.Pool)])
					}
				}(g)
			}
			t0 := time.Now()
			for n := 0; n < 200 && f == nil && (n < 3 || time.Since(t0) < 30*time.Second); n++ {
				l := &Local{outcomes: map[uint64]struct{}{}}
				f = safely(check, l, newEnv(), *hc.Case)
			}
			close(stop)
			wg.Wait()
			if f != nil {
				f.Msg = "only while other emulator instances are running in the same process: " + f.Msg
			}
			return f, nil
		}
		if err := json.Unmarshal(raw, &hc); err == nil && hc.Case != nil {
			f := runHist(check, newEnv, hc.History, *hc.Case)
			if f != nil {
				f.Msg = fmt.Sprintf("after %d preceding case(s) on the same emulator instance: %s", len(hc.History), f.Msg)
			}
			return f, nil
		}
		var c C
		if err := json.Unmarshal(raw, &c); err != nil {
			return nil, err
		}
		l := &Local{outcomes: map[uint64]struct{}{}}
		if opt.Guard {
			guardWrite(0, name, c)
			defer guardClear(0)
		}
		return safely(check, l, newEnv(), c), nil
	}
	if r == nil { // registration only (replay mode)
		return
	}
	t0 := time.Now()
	ps := &partStat{Name: name, Exhaustive: true, Bound: opt.Bound, Domain: opt.Domain}
	nw := opt.Workers
	if nw <= 0 {
		nw = runtime.GOMAXPROCS(0)
	}
	ch := make(chan []C, nw*4)
	var wg sync.WaitGroup
	locals := make([]*Local, nw)
	type failed struct {
		c    C
		f    *Fail
		hist []C
	}
	var fmu sync.Mutex
	fails := map[string]failed{}
	failCount := map[string]int64{}
	for w := 0; w < nw; w++ {
		l := &Local{outcomes: map[uint64]struct{}{}}
		locals[w] = l
		wg.Add(1)
		go func(w int) {
			defer wg.Done()
			env := newEnv()
			var hist []C
			for batch := range ch {
				for _, c := range batch {
					if opt.Guard {
						guardWrite(w, name, c)
					}
					if opt.History > 0 && len(hist) >= opt.History {
						env, hist = newEnv(), hist[:0]
					}
					f := safely(check, l, env, c)
					if f != nil {
						fmu.Lock()
						failCount[f.Sig]++
						if _, ok := fails[f.Sig]; !ok && len(fails) < 200 {
							fails[f.Sig] = failed{c, f, append([]C(nil), hist...)}
						}
						fmu.Unlock()
						// the environment may be in an arbitrary state after a failure
						env, hist = newEnv(), hist[:0]
					} else if opt.History > 0 {
						hist = append(hist, c)
					}
				}
			}
			if opt.Guard {
				guardClear(w)
			}
		}(w)
	}
	var cases int64
	var pool []C // the first cases of the part: company for a failing case that does not fail alone
	batch := make([]C, 0, 64)
	bsz := 1
	capped := false
	gen(func(c C) bool {
		if len(pool) < 48 {
			pool = append(pool, c)
		}
		if cases < 3 {
			r.Sample(map[string]any{"part": name, "case": c})
		}
		cases++
		batch = append(batch, c)
		if len(batch) >= bsz {
			ch <- batch
			batch = make([]C, 0, 64)
			if cases > 4096 {
				bsz = 32
			}
			if cases%256 == 0 && r.Expired() {
				capped = true
				return false
			}
		}
		return true
	})
	if len(batch) > 0 {
		ch <- batch
	}
	close(ch)
	wg.Wait()
	outc := map[uint64]struct{}{}
	for _, l := range locals {
		ps.Evaluations += l.evals
		ps.States += l.states
		ps.Transitions += l.trans
		for k := range l.outcomes {
			outc[k] = struct{}{}
		}
		if l.maxDepth > ps.MaxDepth {
			ps.MaxDepth = l.maxDepth
		}
	}
	ps.Cases = cases
	ps.Outcomes = len(outc)
	if ps.Evaluations == 0 {
		ps.Evaluations = cases
	}
	if capped {
		ps.Exhaustive = false
		ps.Caps = append(ps.Caps, fmt.Sprintf("deadline reached after %d cases", cases))
	}
	// confirm and register failures
	sigs := make([]string, 0, len(fails))
	for s := range fails {
		sigs = append(sigs, s)
	}
	sort.Strings(sigs)
	for _, s := range sigs {
		fc := fails[s]
		stable := true
		var histArt *histCase[C]
		for i := 0; i < 5 && !opt.Unstable; i++ {
			l := &Local{outcomes: map[uint64]struct{}{}}
			f2 := safely(check, l, newEnv(), fc.c)
			if f2 == nil || f2.Sig != fc.f.Sig || (f2.Msg != fc.f.Msg && !opt.SameSig) {
				stable = false
				if i == 0 && f2 == nil && len(fc.hist) > 0 {
					// the failure needs the state left behind by earlier cases on the same environment:
					// find the shortest suffix of the worker's history that reproduces it
					for k := 1; ; k *= 2 {
						if k > len(fc.hist) {
							k = len(fc.hist)
						}
						suffix := fc.hist[len(fc.hist)-k:]
						ok := true
						for j := 0; j < 5; j++ {
							f3 := runHist(check, newEnv, suffix, fc.c)
							if f3 == nil || f3.Sig != fc.f.Sig {
								ok = false
								break
							}
						}
						if ok {
							c := fc.c
							histArt = &histCase[C]{History: append([]C(nil), suffix...), Case: &c}
							fc.f.Msg = fmt.Sprintf("after %d preceding case(s) on the same emulator instance: %s", k, fc.f.Msg)
							break
						}
						if k == len(fc.hist) {
							break
						}
					}
				}
				if histArt == nil && i == 0 && f2 == nil {
					// or it needs another instance alive in the process (workers run side by side): state shared between instances
					ok := true
					for j := 0; j < 5; j++ {
						f3 := runBystander(check, newEnv, fc.c)
						if f3 == nil || f3.Sig != fc.f.Sig {
							ok = false
							break
						}
					}
					if ok {
						c := fc.c
						histArt = &histCase[C]{Case: &c, Bystander: true}
						fc.f.Msg = "with a second emulator instance created afterwards in the same process: " + fc.f.Msg
					}
				}
				if histArt == nil && f2 == nil && nw > 1 {
					// or it needs other instances ACTIVE in the process at the same time, as they were when the workers ran
					// side by side: re-execute it next to other cases of this part. It never fails alone (five fresh
					// re-executions at most have just passed); if it fails in that company, instances share state.
					alone := 0
					for j := 0; j < 3; j++ {
						l := &Local{outcomes: map[uint64]struct{}{}}
						if f3 := safely(check, l, newEnv(), fc.c); f3 != nil {
							alone++
						}
					}
					company := append([]C(nil), pool...)
					company = append(company, fc.c)
					if hits, runs, last := runConcurrent(check, newEnv, fc.c, company, fc.f.Sig, 60); alone == 0 && hits > 0 {
						c := fc.c
						if len(company) > 16 {
							company = company[len(company)-16:]
						}
						histArt = &histCase[C]{Case: &c, Concurrent: true, Pool: company}
						fc.f = last
						fc.f.Msg = fmt.Sprintf("only while other emulator instances are running in the same process (never in %d re-executions alone, %d times in %d re-executions next to other cases of this part on instances of their own): state is shared between instances: %s", 4+alone, hits, runs, fc.f.Msg)
					}
				}
				if histArt == nil {
					r.HarnessError("part %s: failure %q not reproducible on re-execution (%v vs %v)", name, s, fc.f, f2)
				}
				break
			}
		}
		if stable || histArt != nil {
			var art any = fc.c
			if fc.f.Case != nil {
				art = fc.f.Case
			}
			if histArt != nil {
				art = histArt
			}
			r.addViolation(name, fc.f, art)
			r.mu.Lock()
			r.viol[s].Count += failCount[s] - 1
			r.mu.Unlock()
		}
	}
	ps.WallS = time.Since(t0).Seconds()
	r.mu.Lock()
	r.parts = append(r.parts, ps)
	r.mu.Unlock()
}

// ---------------------------------------------------------------------------
// breadth-first closure

// Node is an implementation instance paired with its reference model.
type Node[Ev any] interface {
	// Apply executes one event on the real code and on the model and compares.
	Apply(ev Ev) *Fail
	// Key is the canonical (implementation state, model state) key.
	Key() string
}

// BFSSpec describes one closure. Successors are produced by replaying the shortest
// path on a fresh pair (New + Apply...) or, when Clone is set, by copying the parent.
type BFSSpec[St any, Ev any, N Node[Ev]] struct {
	Name   string
	Starts []St
	New    func(s St) N
	// Save/Load (optional, both or neither): snapshot a node and restore it in place into a
	// per-worker scratch node; makes successors cheap. Without them successors are replayed.
	Save     func(n N) any
	Load     func(n N, snap any)
	Events   func(n N) []Ev   // alphabet enabled in n (usually constant)
	IsDev    func(ev Ev) bool // deviation = environment event other than the default
	MaxDepth int
	MaxDev   int // <0: unbounded
	Opt      PartOpt
	// Invariant is evaluated in every reached state (optional).
	Invariant func(n N) *Fail
	// CrossCheck: verify snapshot-vs-replay key equality on every k-th state (0 = off).
	CrossCheck int
}

// BFSCase is the replay artefact of a closure: a start state and an event path.
type BFSCase[St any, Ev any] struct {
	Start  St   `json:"start"`
	Events []Ev `json:"events"`
}

type bfsNode[St any, Ev any, N any] struct {
	startIdx int
	start    St
	path     []Ev
	dev      int
	snap     any
	has      bool
}

func safeApply[Ev any, N Node[Ev]](n N, ev Ev) (f *Fail) {
	defer func() {
		if p := recover(); p != nil {
			f = &Fail{Sig: "panic: " + panicSite(), Msg: fmt.Sprintf("panic: %v", p)}
		}
	}()
	return n.Apply(ev)
}

func replayPath[St any, Ev any, N Node[Ev]](spec *BFSSpec[St, Ev, N], c BFSCase[St, Ev]) (N, *Fail) {
	n := spec.New(c.Start)
	for _, ev := range c.Events {
		if f := safeApply(n, ev); f != nil {
			return n, f
		}
		if spec.Invariant != nil {
			if f := spec.Invariant(n); f != nil {
				return n, f
			}
		}
	}
	return n, nil
}

func BFS[St any, Ev any, N Node[Ev]](r *Report, spec BFSSpec[St, Ev, N]) {
	name := spec.Name
	Replayers[name] = func(raw json.RawMessage) (*Fail, error) {
		var c BFSCase[St, Ev]
		if err := json.Unmarshal(raw, &c); err != nil {
			return nil, err
		}
		_, f := replayPath(&spec, c)
		return f, nil
	}
	if r == nil {
		return
	}
	t0 := time.Now()
	ps := &partStat{Name: name, Exhaustive: true, Bound: spec.Opt.Bound, Domain: spec.Opt.Domain}
	nw := spec.Opt.Workers
	if nw <= 0 {
		nw = runtime.GOMAXPROCS(0)
	}
	seen := map[string]struct{}{}
	var frontier []*bfsNode[St, Ev, N]
	for si, s := range spec.Starts {
		n := spec.New(s)
		if spec.Invariant != nil {
			if f := spec.Invariant(n); f != nil {
				r.addViolation(name, f, BFSCase[St, Ev]{Start: s})
			}
		}
		k := n.Key()
		if _, ok := seen[k]; ok {
			continue
		}
		seen[k] = struct{}{}
		node := &bfsNode[St, Ev, N]{start: s, startIdx: si}
		if spec.Save != nil {
			node.snap, node.has = spec.Save(n), true
		}
		frontier = append(frontier, node)
	}
	if len(spec.Starts) > 0 {
		r.Sample(map[string]any{"part": name, "start": spec.Starts[0]})
	}
	var trans int64
	depth := 0
	type child struct {
		node *bfsNode[St, Ev, N]
		key  string
		fail *Fail
		path []Ev
	}
	sampled := 0
	diverged := false // a state restored from a snapshot differs from the state reached by replaying its path
	for len(frontier) > 0 && (spec.MaxDepth <= 0 || depth < spec.MaxDepth) && !diverged {
		if r.Expired() {
			ps.Exhaustive = false
			ps.Caps = append(ps.Caps, fmt.Sprintf("deadline reached at depth %d with %d frontier states", depth, len(frontier)))
			break
		}
		results := make([][]child, len(frontier))
		var wg sync.WaitGroup
		idx := make(chan int, nw*2)
		for w := 0; w < nw; w++ {
			wg.Add(1)
			go func() {
				defer wg.Done()
				// one scratch instance per start state: start states may differ in parts of the machine that a
				// snapshot does not carry
				scratches := map[int]N{}
				var scratch N
				var myTrans int64
				defer func() { atomic.AddInt64(&trans, myTrans) }()
				for i := range idx {
					parent := frontier[i]
					var base N
					if parent.has {
						sc, ok := scratches[parent.startIdx]
						if !ok {
							sc = spec.New(parent.start)
							scratches[parent.startIdx] = sc
						}
						scratch = sc
						spec.Load(scratch, parent.snap)
						base = scratch
					} else {
						b, f := replayPath(&spec, BFSCase[St, Ev]{parent.start, parent.path})
						if f != nil {
							// cannot happen: the path passed when it was discovered
							results[i] = append(results[i], child{fail: Failf("harness-divergence", "replay of known-good path failed: %s", f.Msg)})
							continue
						}
						base = b
					}
					evs := spec.Events(base)
					baseFresh := true
					for _, ev := range evs {
						dev := parent.dev
						if spec.IsDev != nil && spec.IsDev(ev) {
							dev++
						}
						if spec.MaxDev >= 0 && dev > spec.MaxDev {
							continue
						}
						var n N
						if parent.has {
							if !baseFresh {
								spec.Load(scratch, parent.snap)
							}
							n = scratch
						} else if baseFresh {
							n = base
						} else {
							var f *Fail
							n, f = replayPath(&spec, BFSCase[St, Ev]{parent.start, parent.path})
							if f != nil {
								results[i] = append(results[i], child{fail: Failf("harness-divergence", "replay diverged: %s", f.Msg)})
								continue
							}
						}
						baseFresh = false
						f := safeApply(n, ev)
						if f == nil && spec.Invariant != nil {
							f = spec.Invariant(n)
						}
						myTrans++
						if f == nil {
							key := n.Key()
							if spec.MaxDev >= 0 {
								key = fmt.Sprintf("%s|d%d", key, dev)
							}
							if _, ok := seen[key]; ok { // read-only during a level
								continue
							}
							path := append(append(make([]Ev, 0, len(parent.path)+1), parent.path...), ev)
							c := child{key: key, path: path}
							c.node = &bfsNode[St, Ev, N]{start: parent.start, startIdx: parent.startIdx, path: path, dev: dev}
							if spec.Save != nil {
								c.node.snap, c.node.has = spec.Save(n), true
							}
							results[i] = append(results[i], c)
						} else {
							path := append(append(make([]Ev, 0, len(parent.path)+1), parent.path...), ev)
							results[i] = append(results[i], child{fail: f, path: path})
						}
					}
					parent.snap, parent.has = nil, false
				}
			}()
		}
		for i := range frontier {
			idx <- i
		}
		close(idx)
		wg.Wait()
		var next []*bfsNode[St, Ev, N]
		for i, cs := range results {
			for _, c := range cs {
				if c.fail != nil {
					if c.fail.Sig == "harness-divergence" {
						r.HarnessError("part %s: %s", name, c.fail.Msg)
						continue
					}
					r.addViolation(name, c.fail, BFSCase[St, Ev]{frontier[i].start, c.path})
					continue
				}
				if _, ok := seen[c.key]; ok {
					continue
				}
				seen[c.key] = struct{}{}
				if sampled < 2 && len(c.path) >= 2 {
					sampled++
					r.Sample(map[string]any{"part": name, "start": c.node.start, "events": c.path})
				}
				if spec.CrossCheck > 0 && spec.Save != nil && len(seen)%spec.CrossCheck == 0 {
					n2, f := replayPath(&spec, BFSCase[St, Ev]{c.node.start, c.node.path})
					k2 := ""
					if f == nil {
						k2 = n2.Key()
						if spec.MaxDev >= 0 {
							k2 = fmt.Sprintf("%s|d%d", k2, c.node.dev)
						}
					}
					if k2 != c.key {
						diverged = true
					}
				}
				next = append(next, c.node)
			}
		}
		frontier = next
		depth++
	}
	if diverged {
		// the snapshots do not carry all the state the real code keeps (state that the code under test holds outside
		// the objects the harness copies): start again without snapshots, every state reached by replaying its whole
		// path on a fresh instance — slower, and independent of what a snapshot captures
		r.mu.Lock()
		for sig, v := range r.viol {
			if v.Part == name {
				delete(r.viol, sig)
				for i, s := range r.violOrd {
					if s == sig {
						r.violOrd = append(r.violOrd[:i], r.violOrd[i+1:]...)
						break
					}
				}
			}
		}
		r.mu.Unlock()
		spec.Save = nil
		spec.Opt.Bound += " (explored by path replay only: a snapshot-restored state differed from the replayed one)"
		BFS(r, spec)
		return
	}
	if len(frontier) > 0 && ps.Exhaustive && spec.MaxDepth > 0 {
		ps.Bound += fmt.Sprintf(" (depth bound %d reached with %d unexpanded frontier states)", spec.MaxDepth, len(frontier))
	} else if len(frontier) == 0 {
		ps.Bound += " (closed: no new states)"
	}
	ps.States = int64(len(seen))
	ps.Transitions = trans
	ps.Evaluations = trans
	ps.Cases = int64(len(seen))
	ps.Outcomes = len(seen)
	ps.MaxDepth = depth
	// confirm failures 5x
	r.mu.Lock()
	var mine []*Violation
	for _, v := range r.viol {
		if v.Part == name {
			mine = append(mine, v)
		}
	}
	r.mu.Unlock()
	for _, v := range mine {
		var c BFSCase[St, Ev]
		json.Unmarshal(v.Case, &c)
		for i := 0; i < 5; i++ {
			_, f := replayPath(&spec, c)
			if f == nil || f.Sig != v.Sig {
				r.HarnessError("part %s: failure %q not reproducible on re-execution", name, v.Sig)
				r.mu.Lock()
				delete(r.viol, v.Sig)
				for i, s := range r.violOrd {
					if s == v.Sig {
						r.violOrd = append(r.violOrd[:i], r.violOrd[i+1:]...)
						break
					}
				}
				r.mu.Unlock()
				break
			}
		}
	}
	ps.WallS = time.Since(t0).Seconds()
	r.mu.Lock()
	r.parts = append(r.parts, ps)
	r.mu.Unlock()
}

// Note adds a part record for work done outside Product/BFS (e.g. a long single run).
func (r *Report) Note(name string, evals, states, trans int64, outcomes int, exhaustive bool, bound, domain string, wall time.Duration) {
	if r == nil {
		return
	}
	r.mu.Lock()
	r.parts = append(r.parts, &partStat{Name: name, Cases: states, Evaluations: evals, States: states, Transitions: trans,
		Outcomes: outcomes, Exhaustive: exhaustive, Bound: bound, Domain: domain, WallS: wall.Seconds()})
	r.mu.Unlock()
}

// Violate registers a violation found outside Product/BFS.
func (r *Report) Violate(part string, f *Fail, c any) {
	if r != nil {
		r.addViolation(part, f, c)
	}
}
