// Package explore is the hand-written bounded-exhaustive exploration engine used by
// every property driver: parallel complete-product enumeration, breadth-first
// closure with canonical-state de-duplication, violation artefacts (replay files),
// known-finding classification and evidence output.
package explore

import (
	"encoding/json"
	"fmt"
	"hash/fnv"
	"os"
	"path/filepath"
	"regexp"
	"sort"
	"strings"
	"sync"
	"sync/atomic"
	"time"
)

// Fail describes one violated expectation. Sig names the *class* of the failure
// (stable text, no addresses of the harness), Msg the concrete values.
type Fail struct {
	Sig string
	Msg string
	// Case, when set, replaces the enumerated case in the replay artefact (e.g. the exact
	// event path found by a depth-first search below the enumerated start state).
	Case any
}

func Failf(sig, format string, a ...any) *Fail {
	return &Fail{Sig: sig, Msg: fmt.Sprintf(format, a...)}
}

// Violation is a failing case of one part, replayable with `check <id> --replay <file>`.
type Violation struct {
	Property string          `json:"property"`
	Part     string          `json:"part"`
	Sig      string          `json:"signature"`
	Msg      string          `json:"message"`
	Case     json.RawMessage `json:"case"`
	Count    int64           `json:"occurrences"`
	Replay   string          `json:"-"`
}

type partStat struct {
	Name        string   `json:"part"`
	Cases       int64    `json:"cases"`
	Evaluations int64    `json:"evaluations"`
	States      int64    `json:"states"`
	Transitions int64    `json:"transitions"`
	Outcomes    int      `json:"distinct_outcomes"`
	MaxDepth    int      `json:"max_depth,omitempty"`
	Bound       string   `json:"bound,omitempty"`
	Exhaustive  bool     `json:"exhaustive"`
	Caps        []string `json:"caps_hit,omitempty"`
	WallS       float64  `json:"wall_s"`
	Domain      string   `json:"domain,omitempty"`
}

// Report accumulates what one run of one property covered.
type Report struct {
	Prop        string
	Tier        string
	Seed        int
	Level       string
	Rule        string
	Assumptions []string
	Dir         string // /verif (known_findings.json)
	OutDir      string // where evidence/ and replays/ are written (default Dir; VERIF_OUT overrides)
	Deadline    time.Time

	start    time.Time
	mu       sync.Mutex
	parts    []*partStat
	samples  []any
	viol     map[string]*Violation
	violOrd  []string
	extra    map[string]any
	tlcEdges int64
	harness  []string
}

func NewReport(prop, tier string, seed int, level, dir string, budget time.Duration) *Report {
	return &Report{Prop: prop, Tier: tier, Seed: seed, Level: level, Dir: dir, OutDir: OutDir(dir),
		start: time.Now(), Deadline: time.Now().Add(budget),
		viol: map[string]*Violation{}, extra: map[string]any{}}
}

func (r *Report) Expired() bool { return r != nil && time.Now().After(r.Deadline) }

func (r *Report) Extra(k string, v any) {
	if r == nil {
		return
	}
	r.mu.Lock()
	r.extra[k] = v
	r.mu.Unlock()
}

func (r *Report) AddTLCEdges(n int64) {
	if r != nil {
		atomic.AddInt64(&r.tlcEdges, n)
	}
}

// HarnessError records a failure of the machinery itself (never a VIOLATION): exit 2.
func (r *Report) HarnessError(format string, a ...any) {
	if r == nil {
		return
	}
	r.mu.Lock()
	r.harness = append(r.harness, fmt.Sprintf(format, a...))
	r.mu.Unlock()
}

func (r *Report) Sample(s any) {
	if r == nil {
		return
	}
	r.mu.Lock()
	if len(r.samples) < 12 {
		r.samples = append(r.samples, s)
	}
	r.mu.Unlock()
}

// addViolationFirst keeps the first case per signature (BFS order = shortest first) and only counts later ones.
func (r *Report) addViolationFirst(part string, f *Fail, mk func() any) {
	r.mu.Lock()
	if v, ok := r.viol[f.Sig]; ok {
		v.Count++
		r.mu.Unlock()
		return
	}
	r.mu.Unlock()
	r.addViolation(part, f, mk())
}

func (r *Report) addViolation(part string, f *Fail, c any) {
	raw, _ := json.Marshal(c)
	r.mu.Lock()
	defer r.mu.Unlock()
	if v, ok := r.viol[f.Sig]; ok {
		v.Count++
		// keep the smallest artefact for each signature: first the shortest, then lexicographic
		if len(raw) < len(v.Case) || (len(raw) == len(v.Case) && string(raw) < string(v.Case)) {
			v.Case, v.Msg, v.Part = raw, f.Msg, part
		}
		return
	}
	r.viol[f.Sig] = &Violation{Property: r.Prop, Part: part, Sig: f.Sig, Msg: f.Msg, Case: raw, Count: 1}
	r.violOrd = append(r.violOrd, f.Sig)
}

// Local is the per-worker accumulator handed to check functions.
type Local struct {
	evals, states, trans int64
	outcomes             map[uint64]struct{}
	maxDepth             int
}

func (l *Local) Eval(n int)  { l.evals += int64(n) }
func (l *Local) Trans(n int) { l.trans += int64(n) }
func (l *Local) State(n int) { l.states += int64(n) }
func (l *Local) Outcome(h uint64) {
	if len(l.outcomes) < 1<<16 {
		l.outcomes[h] = struct{}{}
	}
}
func (l *Local) OutcomeStr(s string) { l.Outcome(Hash(s)) }

func Hash(s string) uint64 {
	h := fnv.New64a()
	h.Write([]byte(s))
	return h.Sum64()
}

func HashBytes(b []byte) uint64 {
	h := fnv.New64a()
	h.Write(b)
	return h.Sum64()
}

// ---------------------------------------------------------------------------
// known findings

type Finding struct {
	Property  string `json:"property"`
	Signature string `json:"signature"`
	Status    string `json:"status"` // "finding" | "fixed"
	Commit    string `json:"commit,omitempty"`
	What      string `json:"what"`
}

func LoadFindings(dir string) []Finding {
	var fs []Finding
	b, err := os.ReadFile(filepath.Join(dir, "known_findings.json"))
	if err != nil {
		return nil
	}
	var doc struct {
		Findings []Finding `json:"findings"`
	}
	if json.Unmarshal(b, &doc) == nil {
		fs = doc.Findings
	}
	return fs
}

// OutDir resolves the output directory (VERIF_OUT overrides, used by the mutant runner so that
// runs against scratch trees never touch the committed evidence).
func OutDir(dir string) string {
	if o := os.Getenv("VERIF_OUT"); o != "" {
		return o
	}
	return dir
}

var unsafeChars = regexp.MustCompile(`[^A-Za-z0-9_.-]+`)

// Finish writes replay artefacts and the evidence file, prints the verdict lines and
// returns the process exit code (0 held / only known findings, 1 violation, 2 harness error).
func (r *Report) Finish() int {
	findings := LoadFindings(r.Dir)
	known := map[string]Finding{}
	for _, f := range findings {
		if f.Property == r.Prop && f.Status == "finding" {
			known[f.Signature] = f
		}
	}
	exit := 0
	var unknown, knownHit int
	os.MkdirAll(filepath.Join(r.OutDir, "replays"), 0o755)
	sort.Strings(r.violOrd)
	for _, sig := range r.violOrd {
		v := r.viol[sig]
		name := fmt.Sprintf("%s-%s.json", r.Prop, unsafeChars.ReplaceAllString(sig, "_"))
		if len(name) > 120 {
			name = fmt.Sprintf("%s-%016x.json", r.Prop, Hash(sig))
		}
		path := filepath.Join(r.OutDir, "replays", name)
		b, _ := json.MarshalIndent(v, "", " ")
		os.WriteFile(path, b, 0o644)
		v.Replay = path
		if kf, ok := known[sig]; ok {
			knownHit++
			fmt.Printf("KNOWN-FINDING: property=%s %s [%s] (%d occurrences, e.g. %s; replay=%s)\n", r.Prop, kf.What, sig, v.Count, v.Msg, path)
			continue
		}
		unknown++
		exit = 1
		fmt.Printf("VIOLATION property=%s replay=%s\n", r.Prop, path)
		fmt.Printf("  part=%s signature=%s occurrences=%d\n  %s\n", v.Part, sig, v.Count, v.Msg)
	}
	if len(r.harness) > 0 {
		for _, h := range r.harness {
			fmt.Printf("HARNESS-ERROR property=%s %s\n", r.Prop, h)
		}
		if exit == 0 {
			exit = 2
		}
	}

	var states, trans, evals, cases int64
	outc := 0
	exhaustive := true
	var caps []string
	maxDepth := 0
	for _, p := range r.parts {
		states += p.States
		trans += p.Transitions
		evals += p.Evaluations
		cases += p.Cases
		outc += p.Outcomes
		if !p.Exhaustive {
			exhaustive = false
		}
		for _, c := range p.Caps {
			caps = append(caps, p.Name+": "+c)
		}
		if p.MaxDepth > maxDepth {
			maxDepth = p.MaxDepth
		}
	}
	if states == 0 {
		states = cases
	}
	if trans == 0 {
		trans = evals
	}
	if len(r.samples) == 0 {
		r.samples = append(r.samples, "no case enumerated")
	}
	cov := map[string]any{
		"states":                        states,
		"transitions":                   trans,
		"traces_validated_against_impl": trans + r.tlcEdges,
		"evaluations":                   evals,
		"distinct_nontrivial":           outc,
		"distinct_outcomes":             outc,
		"rule":                          r.Rule,
		"samples":                       r.samples,
		"exhaustive":                    exhaustive,
		"caps_hit":                      caps,
		"max_depth":                     maxDepth,
		"parts":                         r.parts,
		"violations_unlisted":           unknown,
		"known_findings_reproduced":     knownHit,
	}
	if r.tlcEdges > 0 {
		cov["tlc_edges_replayed"] = r.tlcEdges
	}
	for k, v := range r.extra {
		cov[k] = v
	}
	ev := map[string]any{
		"property_id": r.Prop,
		"tier":        r.Tier,
		"seed":        r.Seed,
		"level":       r.Level,
		"coverage":    cov,
		"assumptions": r.Assumptions,
		"wall_s":      time.Since(r.start).Seconds(),
		"violations":  unknown,
	}
	b, _ := json.MarshalIndent(ev, "", " ")
	os.MkdirAll(filepath.Join(r.OutDir, "evidence"), 0o755)
	if err := os.WriteFile(filepath.Join(r.OutDir, "evidence", r.Prop+".json"), b, 0o644); err != nil {
		fmt.Printf("HARNESS-ERROR property=%s cannot write evidence: %v\n", r.Prop, err)
		if exit == 0 {
			exit = 2
		}
	}
	verdict := "HELD"
	if exit == 1 {
		verdict = "VIOLATED"
	} else if exit == 2 {
		verdict = "HARNESS-ERROR"
	}
	fmt.Printf("%s property=%s tier=%s states=%d transitions=%d evaluations=%d distinct_outcomes=%d exhaustive=%v known=%d wall=%.1fs%s\n",
		verdict, r.Prop, r.Tier, states, trans, evals, outc, exhaustive, knownHit, time.Since(r.start).Seconds(),
		func() string {
			if len(caps) > 0 {
				return " caps=" + strings.Join(caps, ";")
			}
			return ""
		}())
	return exit
}
