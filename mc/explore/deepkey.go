package explore

import (
	"reflect"
	"strconv"
)

// DeepKey renders every field of v — recursively and including unexported fields — into a
// canonical string, so that a state key built from it cannot silently ignore a field that a
// later change adds to the implementation's structs (a key listing fields by name would merge
// states that differ only in the new field and prune the paths that expose it). Arrays and
// slices with more than maxElems elements contribute only their length (ROM/RAM images: the
// caller keys their contents separately, or states why they do not matter). Pointers are
// followed to a small depth; maps, channels and functions contribute only nil-ness/length.
func DeepKey(v any, maxElems int) string {
	b := make([]byte, 0, 128)
	b = deepKey(b, reflect.ValueOf(v), maxElems, 0)
	return string(b)
}

func deepKey(b []byte, v reflect.Value, maxElems, depth int) []byte {
	if !v.IsValid() {
		return append(b, 'z')
	}
	switch v.Kind() {
	case reflect.Bool:
		if v.Bool() {
			return append(b, 'T')
		}
		return append(b, 'F')
	case reflect.Int, reflect.Int8, reflect.Int16, reflect.Int32, reflect.Int64:
		b = strconv.AppendInt(b, v.Int(), 16)
		return append(b, ',')
	case reflect.Uint, reflect.Uint8, reflect.Uint16, reflect.Uint32, reflect.Uint64, reflect.Uintptr:
		b = strconv.AppendUint(b, v.Uint(), 16)
		return append(b, ',')
	case reflect.Float32, reflect.Float64:
		b = strconv.AppendFloat(b, v.Float(), 'g', -1, 64)
		return append(b, ',')
	case reflect.String:
		b = append(b, v.String()...)
		return append(b, 0)
	case reflect.Struct:
		b = append(b, '{')
		for i := 0; i < v.NumField(); i++ {
			b = deepKey(b, v.Field(i), maxElems, depth)
		}
		return append(b, '}')
	case reflect.Array, reflect.Slice:
		n := v.Len()
		b = append(b, '[')
		b = strconv.AppendInt(b, int64(n), 10)
		b = append(b, ':')
		if n <= maxElems {
			for i := 0; i < n; i++ {
				b = deepKey(b, v.Index(i), maxElems, depth)
			}
		}
		return append(b, ']')
	case reflect.Ptr, reflect.Interface:
		if v.IsNil() {
			return append(b, 'n')
		}
		if depth >= 4 {
			return append(b, 'p')
		}
		b = append(b, '*')
		return deepKey(b, v.Elem(), maxElems, depth+1)
	case reflect.Map:
		b = append(b, 'm')
		return strconv.AppendInt(b, int64(v.Len()), 10)
	case reflect.Func, reflect.Chan, reflect.UnsafePointer:
		if v.IsNil() {
			return append(b, 'n')
		}
		return append(b, 'f')
	}
	return append(b, '?')
}
