// Package romrun runs the blargg / mooneye test ROMs shipped in the repository's testdata
// on the real emulator components (exported API only, no hooks) and reports their own
// verdicts. It is a development aid and a regression guard for "fix:" commits, not a check.
package romrun

import (
	"bytes"
	"os"
	"path/filepath"
	"sort"
	"strings"
	"sync"

	"github.com/scottyw/tetromino/gameboy/audio"
	"github.com/scottyw/tetromino/gameboy/controller"
	"github.com/scottyw/tetromino/gameboy/cpu"
	"github.com/scottyw/tetromino/gameboy/interrupts"
	"github.com/scottyw/tetromino/gameboy/memory"
	"github.com/scottyw/tetromino/gameboy/oam"
	"github.com/scottyw/tetromino/gameboy/ppu"
	"github.com/scottyw/tetromino/gameboy/serial"
	"github.com/scottyw/tetromino/gameboy/timer"
)

type Result struct {
	ROM     string
	Verdict string // PASS FAIL TIMEOUT CRASH
	Frames  int
}

func runOne(path string, maxFrames int) (res Result) {
	res.ROM = path
	defer func() {
		if p := recover(); p != nil {
			res.Verdict = "CRASH"
		}
	}()
	rom, err := os.ReadFile(path)
	if err != nil || len(rom) == 0 {
		res.Verdict = "EMPTY"
		return
	}
	i := interrupts.New()
	o := oam.New()
	a := audio.New(nil, nil)
	p := ppu.New(i, o, false)
	buf := &bytes.Buffer{}
	s := serial.New(buf)
	t := timer.New()
	c := controller.New()
	m := memory.New(rom, i, o, p, c, s, t, a)
	cp := cpu.New(i, o, false, m)
	cp.Initialize()
	mooneye := strings.Contains(path, "mts-")
	for f := 0; f < maxFrames; f++ {
		for k := 0; k < 17556; k++ {
			cp.ExecuteMachineCycle()
			p.EndMachineCycle()
			m.EndMachineCycle()
			a.EndMachineCycle()
			if t.EndMachineCycle() {
				i.RequestTimer()
			}
		}
		res.Frames = f + 1
		if mooneye {
			if r := cp.CheckMooneye(); r != nil {
				if bytes.Equal(r, []byte{3, 5, 8, 13, 21, 34}) {
					res.Verdict = "PASS"
				} else {
					res.Verdict = "FAIL"
				}
				return
			}
			continue
		}
		txt := buf.String() + string(m.DumpRAM())
		if strings.Contains(txt, "Passed") {
			res.Verdict = "PASS"
			return
		}
		if strings.Contains(txt, "Failed") {
			res.Verdict = "FAIL"
			return
		}
	}
	res.Verdict = "TIMEOUT"
	return
}

// RunAll runs every .gb file under dir.
func RunAll(dir string, maxFrames, workers int) []Result {
	var files []string
	filepath.Walk(dir, func(p string, info os.FileInfo, err error) error {
		if err == nil && !info.IsDir() && strings.HasSuffix(p, ".gb") {
			files = append(files, p)
		}
		return nil
	})
	sort.Strings(files)
	out := make([]Result, len(files))
	var wg sync.WaitGroup
	ch := make(chan int)
	for w := 0; w < workers; w++ {
		wg.Add(1)
		go func() {
			defer wg.Done()
			for i := range ch {
				out[i] = runOne(files[i], maxFrames)
				out[i].ROM = strings.TrimPrefix(files[i], dir+"/")
			}
		}()
	}
	for i := range files {
		ch <- i
	}
	close(ch)
	wg.Wait()
	return out
}
