// roms: run every test ROM under <repo>/gameboy/testdata and print one verdict line each.
package main

import (
	"fmt"
	"os"
	"path/filepath"
	"runtime"

	"verifmc/romrun"
)

func main() {
	repo := "/repo"
	if len(os.Args) > 1 {
		repo = os.Args[1]
	}
	frames := 3000
	td := filepath.Join(repo, "gameboy/testdata")
	if len(os.Args) > 2 {
		td = os.Args[2]
	}
	w := runtime.NumCPU()
	if os.Getenv("ROMS_WORKERS") != "" {
		fmt.Sscan(os.Getenv("ROMS_WORKERS"), &w)
	}
	rs := romrun.RunAll(td, frames, w)
	pass := 0
	for _, r := range rs {
		fmt.Printf("%-8s %5d  %s\n", r.Verdict, r.Frames, r.ROM)
		if r.Verdict == "PASS" {
			pass++
		}
	}
	fmt.Printf("TOTAL %d PASS %d\n", len(rs), pass)
}
