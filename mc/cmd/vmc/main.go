// vmc: one binary, one sub-command per property.
//
//	vmc <Cnn> --tier quick|thorough
//	vmc <Cnn> --replay <file>
//	vmc worker <name> args...   (internal: crash-contained worker)
//
// The top-level invocation is a supervisor: it re-executes itself as a child that does
// the exploration. The real code can stop the process (os.Exit in the undefined-opcode
// handler, runtime fatal errors); when the child dies without a verdict the supervisor
// attributes the stop to the guarded case that was running and reports it.
package main

import (
	"bytes"
	"encoding/json"
	"flag"
	"fmt"
	"io"
	"os"
	"os/exec"
	"path/filepath"
	"regexp"
	"strconv"
	"strings"
	"time"

	"verifmc/explore"
	"verifmc/props"
)

var verdictRe = regexp.MustCompile(`(?m)^(HELD|VIOLATED|HARNESS-ERROR|REPLAY-PASSES|VIOLATION) `)

func main() {
	if len(os.Args) < 2 {
		fmt.Println("usage: vmc <property> [--tier quick|thorough] [--replay file]")
		os.Exit(2)
	}
	if os.Args[1] == "worker" {
		w, ok := props.Workers[os.Args[2]]
		if !ok {
			fmt.Println("unknown worker", os.Args[2])
			os.Exit(2)
		}
		os.Exit(w(os.Args[3:]))
	}
	id := os.Args[1]
	fs := flag.NewFlagSet("vmc", flag.ExitOnError)
	tier := fs.String("tier", "quick", "quick|thorough")
	replay := fs.String("replay", "", "replay a stored violation")
	dir := fs.String("dir", "/verif", "verification directory")
	repo := fs.String("repo", "/repo", "repository under check")
	child := fs.String("child", "", "internal: run as supervised child with this scratch dir")
	fs.Parse(os.Args[2:])
	d, ok := props.Registry[id]
	if !ok {
		fmt.Println("unknown property", id)
		os.Exit(2)
	}
	seed := 0
	if s := os.Getenv("VERIF_SEED"); s != "" {
		seed, _ = strconv.Atoi(s)
	}
	exe, _ := os.Executable()
	if *child == "" {
		os.Exit(supervise(exe, id, *tier, *replay, *dir, seed, d.Level))
	}
	scratch := *child
	explore.GuardDir = scratch
	ctx := &props.Ctx{Tier: *tier, Seed: seed, Repo: *repo, Scratch: scratch, SelfExe: exe}
	if *replay != "" {
		b, err := os.ReadFile(*replay)
		if err != nil {
			fmt.Println("HARNESS-ERROR cannot read replay file:", err)
			os.Exit(2)
		}
		var v explore.Violation
		if err := json.Unmarshal(b, &v); err != nil {
			fmt.Println("HARNESS-ERROR bad replay file:", err)
			os.Exit(2)
		}
		d.Run(ctx) // registration only (R == nil)
		rp, ok := explore.Replayers[v.Part]
		if !ok {
			fmt.Println("HARNESS-ERROR no replayer for part", v.Part)
			os.Exit(2)
		}
		f, err := rp(v.Case)
		if err != nil {
			fmt.Println("HARNESS-ERROR replay error:", err)
			os.Exit(2)
		}
		if f != nil {
			fmt.Printf("VIOLATION property=%s replay=%s\n  part=%s signature=%s\n  %s\n", id, *replay, v.Part, f.Sig, f.Msg)
			os.Exit(1)
		}
		fmt.Printf("REPLAY-PASSES property=%s part=%s (the stored case does not fail on this tree)\n", id, v.Part)
		os.Exit(0)
	}
	budget := 100 * time.Second
	if *tier == "thorough" {
		budget = 40 * time.Minute
	}
	if s := os.Getenv("VERIF_BUDGET_S"); s != "" {
		if n, err := strconv.Atoi(s); err == nil {
			budget = time.Duration(n) * time.Second
		}
	}
	r := explore.NewReport(id, *tier, seed, d.Level, *dir, budget)
	ctx.R = r
	d.Run(ctx)
	os.Exit(r.Finish())
}

type tail struct {
	buf bytes.Buffer
}

func (t *tail) Write(p []byte) (int, error) {
	t.buf.Write(p)
	if t.buf.Len() > 1<<16 {
		b := t.buf.Bytes()
		t.buf = *bytes.NewBuffer(append([]byte(nil), b[len(b)-(1<<15):]...))
	}
	return len(p), nil
}

func runChild(exe string, args []string, scratch string) (int, string) {
	t := &tail{}
	cmd := exec.Command(exe, args...)
	cmd.Stdout = io.MultiWriter(os.Stdout, t)
	cmd.Stderr = io.MultiWriter(os.Stderr, t)
	cmd.Env = os.Environ()
	err := cmd.Run()
	code := 0
	if err != nil {
		if ee, ok := err.(*exec.ExitError); ok {
			code = ee.ExitCode()
		} else {
			code = 2
		}
	}
	return code, t.buf.String()
}

func supervise(exe, id, tier, replay, dir string, seed int, level string) int {
	scratch, err := os.MkdirTemp("", "vmc-"+id+"-")
	if err != nil {
		fmt.Println("HARNESS-ERROR cannot create scratch dir:", err)
		return 2
	}
	defer os.RemoveAll(scratch)
	t0 := time.Now()
	args := append([]string{}, os.Args[1:]...)
	args = append(args, "--child", scratch)
	code, out := runChild(exe, args, scratch)
	if verdictRe.MatchString(out) && code >= 0 && code <= 2 {
		return code
	}
	// The child stopped without a verdict: the real code exited or crashed the process.
	lines := strings.Split(strings.TrimSpace(out), "\n")
	last := ""
	for i := len(lines) - 1; i >= 0 && i >= len(lines)-40; i-- {
		if strings.HasPrefix(lines[i], "fatal error:") || strings.HasPrefix(lines[i], "panic:") {
			last = lines[i]
			break
		}
	}
	if last == "" && len(lines) > 0 {
		last = lines[len(lines)-1]
	}
	if len(last) > 160 {
		last = last[:160]
	}
	if replay != "" {
		fmt.Printf("VIOLATION property=%s replay=%s\n  the emulator process stopped (exit %d) while replaying: %s\n", id, replay, code, last)
		return 1
	}
	cur, _ := filepath.Glob(filepath.Join(scratch, "current-*.json"))
	outDir := explore.OutDir(dir)
	os.MkdirAll(filepath.Join(outDir, "replays"), 0o755)
	findings := map[string]explore.Finding{}
	for _, f := range explore.LoadFindings(dir) {
		if f.Property == id && f.Status == "finding" {
			findings[f.Signature] = f
		}
	}
	reported, knownHit := 0, 0
	var samples []any
	for _, c := range cur {
		b, err := os.ReadFile(c)
		if err != nil {
			continue
		}
		var v explore.Violation
		if json.Unmarshal(b, &v) != nil {
			continue
		}
		// confirm in fresh children (5x) that this very case stops the process
		tmp := filepath.Join(scratch, "cand.json")
		os.WriteFile(tmp, b, 0o644)
		stops := 0
		msg := ""
		for i := 0; i < 5; i++ {
			sub, err := os.MkdirTemp("", "vmc-"+id+"-r-")
			if err != nil {
				break
			}
			c2, o2 := runChild2(exe, []string{id, "--dir", dir, "--replay", tmp, "--child", sub})
			os.RemoveAll(sub)
			if !verdictRe.MatchString(o2) {
				stops++
				l2 := strings.Split(strings.TrimSpace(o2), "\n")
				msg = l2[len(l2)-1]
				for _, l := range l2 {
					if strings.HasPrefix(l, "fatal error:") || strings.HasPrefix(l, "panic:") {
						msg = l
						break
					}
				}
				_ = c2
			}
		}
		if stops == 0 {
			continue
		}
		if stops != 5 {
			fmt.Printf("HARNESS-ERROR property=%s a process stop was not reproducible (%d of 5) for part %s\n", id, stops, v.Part)
			return 2
		}
		if len(msg) > 160 {
			msg = msg[:160]
		}
		v.Property = id
		v.Sig = "process-stopped: " + msg
		v.Msg = fmt.Sprintf("the emulator stopped the process while running this case (output: %s)", msg)
		v.Count = 1
		samples = append(samples, json.RawMessage(v.Case))
		name := fmt.Sprintf("%s-stop-%016x.json", id, explore.Hash(string(v.Case)))
		path := filepath.Join(outDir, "replays", name)
		vb, _ := json.MarshalIndent(v, "", " ")
		os.WriteFile(path, vb, 0o644)
		if kf, ok := findings[v.Sig]; ok {
			knownHit++
			fmt.Printf("KNOWN-FINDING: property=%s %s [%s] (replay=%s)\n", id, kf.What, v.Sig, path)
			continue
		}
		reported++
		fmt.Printf("VIOLATION property=%s replay=%s\n  part=%s signature=%s\n  %s\n", id, path, v.Part, v.Sig, v.Msg)
	}
	if reported == 0 && knownHit == 0 {
		fmt.Printf("HARNESS-ERROR property=%s the exploration process stopped (exit %d) outside any guarded case: %s\n", id, code, last)
		return 2
	}
	if len(samples) == 0 {
		samples = append(samples, "none")
	}
	ev := map[string]any{
		"property_id": id, "tier": tier, "seed": seed, "level": level,
		"coverage": map[string]any{
			"states": 1, "transitions": 1, "traces_validated_against_impl": 1, "evaluations": 1, "distinct_nontrivial": 2,
			"samples": samples, "exhaustive": false,
			"rule":        "the exploration was cut short: the real code stopped the process; the guarded case that was running is reported",
			"caps_hit":    []string{"process stopped by the code under check; exploration incomplete"},
			"explanation": "exploration incomplete because the emulator exited/crashed the process",
		},
		"assumptions": []string{}, "wall_s": time.Since(t0).Seconds(), "violations": reported,
	}
	eb, _ := json.MarshalIndent(ev, "", " ")
	os.MkdirAll(filepath.Join(outDir, "evidence"), 0o755)
	os.WriteFile(filepath.Join(outDir, "evidence", id+".json"), eb, 0o644)
	if reported > 0 {
		return 1
	}
	// only known findings stopped the process: the exploration is still incomplete
	fmt.Printf("HARNESS-ERROR property=%s exploration incomplete: a known finding stops the process before the space is covered\n", id)
	return 2
}

func runChild2(exe string, args []string) (int, string) {
	var b bytes.Buffer
	cmd := exec.Command(exe, args...)
	cmd.Stdout, cmd.Stderr = &b, &b
	cmd.Env = os.Environ()
	err := cmd.Run()
	code := 0
	if err != nil {
		if ee, ok := err.(*exec.ExitError); ok {
			code = ee.ExitCode()
		} else {
			code = 2
		}
	}
	return code, b.String()
}
