// vmc: one binary, one sub-command per property.
//
//	vmc <Cnn> --tier quick|thorough
//	vmc <Cnn> --replay <file>
//	vmc worker <name> args...   (internal: crash-contained worker)
package main

import (
	"encoding/json"
	"flag"
	"fmt"
	"os"
	"strconv"
	"time"

	"verifmc/explore"
	"verifmc/props"
)

func main() {
	if len(os.Args) < 2 {
		fmt.Println("usage: vmc <property> [--tier quick|thorough] [--replay file]")
		os.Exit(2)
	}
	if os.Args[1] == "worker" {
		w, ok := props.Workers[os.Args[2]]
		if !ok {
			fmt.Println("unknown worker", os.Args[2])
			os.Exit(2)
		}
		os.Exit(w(os.Args[3:]))
	}
	id := os.Args[1]
	fs := flag.NewFlagSet("vmc", flag.ExitOnError)
	tier := fs.String("tier", "quick", "quick|thorough")
	replay := fs.String("replay", "", "replay a stored violation")
	dir := fs.String("dir", "/verif", "verification directory")
	repo := fs.String("repo", "/repo", "repository under check")
	fs.Parse(os.Args[2:])
	d, ok := props.Registry[id]
	if !ok {
		fmt.Println("unknown property", id)
		os.Exit(2)
	}
	seed := 0
	if s := os.Getenv("VERIF_SEED"); s != "" {
		seed, _ = strconv.Atoi(s)
	}
	exe, _ := os.Executable()
	scratch, err := os.MkdirTemp("", "vmc-"+id+"-")
	if err != nil {
		fmt.Println("HARNESS-ERROR cannot create scratch dir:", err)
		os.Exit(2)
	}
	defer os.RemoveAll(scratch)
	ctx := &props.Ctx{Tier: *tier, Seed: seed, Repo: *repo, Scratch: scratch, SelfExe: exe}
	if *replay != "" {
		b, err := os.ReadFile(*replay)
		if err != nil {
			fmt.Println("cannot read replay file:", err)
			os.RemoveAll(scratch)
			os.Exit(2)
		}
		var v explore.Violation
		if err := json.Unmarshal(b, &v); err != nil {
			fmt.Println("bad replay file:", err)
			os.RemoveAll(scratch)
			os.Exit(2)
		}
		d.Run(ctx) // registration only (R == nil)
		rp, ok := explore.Replayers[v.Part]
		if !ok {
			fmt.Println("no replayer for part", v.Part)
			os.RemoveAll(scratch)
			os.Exit(2)
		}
		f, err := rp(v.Case)
		os.RemoveAll(scratch)
		if err != nil {
			fmt.Println("replay error:", err)
			os.Exit(2)
		}
		if f != nil {
			fmt.Printf("VIOLATION property=%s replay=%s\n  part=%s signature=%s\n  %s\n", id, *replay, v.Part, f.Sig, f.Msg)
			os.Exit(1)
		}
		fmt.Printf("REPLAY-PASSES property=%s part=%s (the stored case no longer fails)\n", id, v.Part)
		os.Exit(0)
	}
	budget := 100 * time.Second
	if *tier == "thorough" {
		budget = 25 * time.Minute
	}
	if s := os.Getenv("VERIF_BUDGET_S"); s != "" {
		if n, err := strconv.Atoi(s); err == nil {
			budget = time.Duration(n) * time.Second
		}
	}
	r := explore.NewReport(id, *tier, seed, d.Level, *dir, budget)
	ctx.R = r
	d.Run(ctx)
	code := r.Finish()
	os.RemoveAll(scratch)
	os.Exit(code)
}
