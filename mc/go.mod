module verifmc

go 1.23

require github.com/scottyw/tetromino v0.0.0

replace github.com/scottyw/tetromino => /repo
