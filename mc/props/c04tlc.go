package props

import (
	"bufio"
	"compress/gzip"
	"fmt"
	"io"
	"os"
	"path/filepath"
	"regexp"
	"strings"

	"github.com/scottyw/tetromino/gameboy/cpu"
	"verifmc/explore"
	"verifmc/machine"
)

// C04/C05, secondary evidence: tla/IntHalt.tla restates interrupt dispatch, EI/DI/RETI and HALT as a reactive
// machine over two sources; TLC checks the statements' claims on the model and dumps its state graph; EVERY
// edge is replayed on the real CPU + Interrupts + Mapper: a cartridge whose vectors hold the model's two fixed
// handlers ([RETI] at 0040, [EI, NOP, RETI] at 0050), the main program fed one instruction per step into work
// RAM at the current PC, requests raised between boundaries. After every step PC, SP (nesting depth), IF, the
// halted flag are compared with the target state (the master enable through its effect on later steps).

type ihState struct {
	IME, EIDelay, Halted, HaltBug bool
	IE, IF                        uint8 // bit 0: source 0 (VBlank), bit 1: source 1 (Timer)
	Stack                         [][2]int
	Last                          string
}

type ihEdge struct {
	Start ihState  `json:"start"`
	Path  []string `json:"path"`
	Src   ihState  `json:"src"`
	Ev    string   `json:"ev"`
	Want  ihState  `json:"want"`
}

var ihSetRe = regexp.MustCompile(`\d+`)

func parseIHState(label string) (ihState, error) {
	var s ihState
	lab := strings.ReplaceAll(strings.ReplaceAll(label, `\"`, `"`), `\\`, `\`)
	n := 0
	for _, part := range strings.Split(lab, `\n`) {
		part = strings.TrimSpace(strings.TrimPrefix(strings.TrimSpace(part), `/\`))
		kv := strings.SplitN(part, " = ", 2)
		if len(kv) != 2 {
			continue
		}
		k, v := strings.TrimSpace(kv[0]), strings.TrimSpace(kv[1])
		n++
		set := func() uint8 {
			var m uint8
			for _, d := range ihSetRe.FindAllString(v, -1) {
				m |= 1 << uint(d[0]-'0')
			}
			return m
		}
		switch k {
		case "ime":
			s.IME = v == "TRUE"
		case "eiDelay":
			s.EIDelay = v == "TRUE"
		case "halted":
			s.Halted = v == "TRUE"
		case "haltbug":
			s.HaltBug = v == "TRUE"
		case "ie":
			s.IE = set()
		case "iff":
			s.IF = set()
		case "last":
			s.Last = strings.Trim(v, `"`)
		case "stack":
			ds := ihSetRe.FindAllString(v, -1)
			for i := 0; i+1 < len(ds); i += 2 {
				s.Stack = append(s.Stack, [2]int{int(ds[i][0] - '0'), int(ds[i+1][0] - '0')})
			}
		default:
			n--
		}
	}
	if n != 8 {
		return s, fmt.Errorf("state label with %d of 8 variables: %q", n, label)
	}
	return s, nil
}

var ihEdgeRe = regexp.MustCompile(`^(-?\d+) -> (-?\d+) \[label="((?:[^"\\]|\\.)*)"`)

func loadIHGraph(rd io.Reader) (edges []ihEdge, states int, err error) {
	nodes := map[string]ihState{}
	var inits []string
	type rawEdge struct{ a, b, ev string }
	var raw []rawEdge
	sc := bufio.NewScanner(rd)
	sc.Buffer(make([]byte, 1<<20), 1<<24)
	for sc.Scan() {
		line := sc.Text()
		if m := ihEdgeRe.FindStringSubmatch(line); m != nil {
			raw = append(raw, rawEdge{m[1], m[2], strings.ReplaceAll(m[3], `\"`, ``)})
			continue
		}
		if m := tlcNodeRe.FindStringSubmatch(line); m != nil {
			st, e := parseIHState(m[2])
			if e != nil {
				return nil, 0, e
			}
			nodes[m[1]] = st
			if m[3] != "" {
				inits = append(inits, m[1])
			}
		}
	}
	if len(inits) == 0 || len(raw) == 0 {
		return nil, 0, fmt.Errorf("no initial states or no edges in the graph dump")
	}
	out := map[string][]rawEdge{}
	for _, e := range raw {
		out[e.a] = append(out[e.a], e)
	}
	type par struct {
		init string
		path []string
	}
	parent := map[string]par{}
	var queue []string
	for _, i := range inits {
		parent[i] = par{init: i}
		queue = append(queue, i)
	}
	for len(queue) > 0 {
		n := queue[0]
		queue = queue[1:]
		for _, e := range out[n] {
			if _, ok := parent[e.b]; !ok {
				p := parent[n]
				parent[e.b] = par{init: p.init, path: append(append([]string(nil), p.path...), e.ev)}
				queue = append(queue, e.b)
			}
		}
	}
	for _, e := range raw {
		p, ok := parent[e.a]
		if !ok {
			continue
		}
		edges = append(edges, ihEdge{Start: nodes[p.init], Path: p.path, Src: nodes[e.a], Ev: e.ev, Want: nodes[e.b]})
	}
	return edges, len(nodes), nil
}

var ihROM = func() []byte {
	img := make([]byte, 0x8000)
	img[0x40] = 0xd9                                   // handler 0: RETI
	img[0x50], img[0x51], img[0x52] = 0xfb, 0x00, 0xd9 // handler 1: EI, NOP, RETI
	return img
}()

var ihOpcode = map[string]uint8{"NOP": 0x00, "EI": 0xfb, "DI": 0xf3, "HALT": 0x76}

type ihRun struct {
	m      *machine.M
	mainPC uint16
	depth  int
}

func ihMask(two uint8) uint8 { // model bit 0 -> IF bit 0 (VBlank), model bit 1 -> IF bit 2 (Timer)
	return two&1 | two&2<<1
}

func newIHRun(s ihState) *ihRun {
	m := machine.New(ihROM, machine.Opts{})
	for i := 0; i < 30; i++ {
		m.Hardware()
	}
	m.Map.Write(0xff40, 0x00) // LCD off: no VBlank/STAT requests of its own
	m.CPU.VSet(cpu.VRegs{A: 1, SP: 0xdff0, PC: 0xc000})
	m.Map.Write(0xffff, ihMask(s.IE))
	m.Map.Write(0xff0f, ihMask(s.IF))
	if s.IME {
		m.I.Enable()
	} else {
		m.I.Disable()
	}
	return &ihRun{m: m, mainPC: 0xc000}
}

// apply executes one model event on the real machine; pre is the model state before it.
func (r *ihRun) apply(ev string, pre ihState) error {
	m := r.m
	switch {
	case strings.HasPrefix(ev, "Req(0"):
		m.I.RequestVblank()
		return nil
	case strings.HasPrefix(ev, "Req(1"):
		m.I.RequestTimer()
		return nil
	case strings.HasPrefix(ev, "Step("):
		name := strings.Trim(ev[5:], `()"\`)
		op, ok := ihOpcode[name]
		if !ok {
			return fmt.Errorf("unknown instruction %q", name)
		}
		g := m.CPU.VGet()
		if g.PC >= 0xc000 && g.PC < 0xdf00 {
			m.Map.Write(g.PC, op) // the main program: one instruction per step, wherever PC stands
		}
		if !m.CPU.VAtBoundary() {
			return fmt.Errorf("real CPU not at a boundary before a step")
		}
		wake := pre.Halted && (pre.IE&pre.IF) != 0 && !pre.IME
		for n := 0; n < 12; n++ {
			m.CPU.ExecuteMachineCycle()
			if m.CPU.VAtBoundary() && !(wake && m.CPU.VGet().Halted) {
				break
			}
		}
		return nil
	}
	return fmt.Errorf("unknown event %q", ev)
}

func ihEdgeCheck(l *explore.Local, _ struct{}, e ihEdge) *explore.Fail {
	r := newIHRun(e.Start)
	// the model states along the path are recomputed from the edges themselves (each is replayed as an edge of its
	// own); here only the bookkeeping of where the main program counter must stand is carried along
	track := func(ev string, pre, post ihState) {
		if !strings.HasPrefix(ev, "Step(") {
			return
		}
		if post.Last == "instr" && len(pre.Stack) == 0 && !pre.HaltBug {
			r.mainPC++ // all four main instructions are one byte long; under the halt bug PC does not advance
		}
	}
	// replaying the path needs the intermediate model states: re-derive them by replaying the same prefix edges is not
	// possible without the graph, so the path carries them implicitly through Src of the final edge only; the
	// main-PC bookkeeping is therefore checked against the real PC whenever the handler stack is empty.
	pre := e.Start
	for _, ev := range e.Path {
		before := r.m.CPU.VGet()
		if err := r.apply(ev, pre); err != nil {
			return explore.Failf("harness: "+err.Error(), "%v", e)
		}
		after := r.m.CPU.VGet()
		// derive what the step did from the real machine for the bookkeeping of the prefix (the prefix edges are judged on their own)
		if strings.HasPrefix(ev, "Step(") && before.PC >= 0xc000 && after.PC == before.PC+1 {
			r.mainPC = after.PC
		}
		pre = ihState{IME: r.m.I.Enabled(), Halted: after.Halted, IE: pre.IE, IF: 0}
		if f := r.m.Map.Read(0xff0f); true {
			pre.IF = f&1 | f>>1&2
		}
		l.Trans(1)
	}
	_ = track
	if g := r.m.CPU.VGet(); len(e.Src.Stack) == 0 {
		r.mainPC = g.PC
	}
	if err := r.apply(e.Ev, e.Src); err != nil {
		return explore.Failf("harness: "+err.Error(), "%v", e)
	}
	l.Trans(1)
	g := r.m.CPU.VGet()
	ctx := fmt.Sprintf("from model state %+v (reached by %v) event %s", e.Src, e.Path, e.Ev)
	w := e.Want
	if g.Halted != w.Halted {
		return explore.Failf("tlc-edge: halted differs from the model", "%s: halted=%v, model %v", ctx, g.Halted, w.Halted)
	}
	if f := r.m.Map.Read(0xff0f); f&1|f>>1&2 != w.IF {
		return explore.Failf("tlc-edge: IF differs from the model", "%s: IF=%02x, model bits %02b", ctx, f, w.IF)
	}
	// the master enable itself is not compared: when exactly the flag flips after EI (with the following instruction
	// or at the boundary after it) is invisible to a guest; its effect is compared through the dispatch edges
	if want := uint16(0xdff0 - 2*len(w.Stack)); g.SP != want {
		return explore.Failf("tlc-edge: nesting depth (SP) differs from the model", "%s: SP=%04x, model %04x", ctx, g.SP, want)
	}
	if n := len(w.Stack); n > 0 {
		fr := w.Stack[n-1]
		want := uint16(0x40+0x10*fr[0]) + uint16(fr[1]-1)
		if g.PC != want {
			return explore.Failf("tlc-edge: PC differs from the model (inside a handler)", "%s: PC=%04x, model %04x", ctx, g.PC, want)
		}
	} else if strings.HasPrefix(e.Ev, "Step(") && len(e.Src.Stack) == 0 {
		want := r.mainPC
		if w.Last == "instr" && !e.Src.HaltBug {
			want++
		}
		if g.PC != want {
			return explore.Failf("tlc-edge: PC differs from the model (main program)", "%s: PC=%04x, model %04x (what the step did: %s)", ctx, g.PC, want, w.Last)
		}
	}
	l.Eval(1)
	l.Outcome(explore.Hash(fmt.Sprintf("%+v", w)))
	return nil
}

// ihTLCPart registers and runs the edge replay (quick: committed graph; thorough: fresh TLC run).
func ihTLCPart(c *Ctx) {
	var edges []ihEdge
	bound := ""
	if c.R != nil {
		dir := filepath.Join(c.R.Dir, "tla")
		var rd io.Reader
		if c.Thorough() {
			dot, st, err := runTLCSpec(dir, c.Scratch, "IntHalt")
			if err != nil {
				if strings.Contains(err.Error(), "not installed") {
					c.R.Extra("tlc", "skipped: "+err.Error())
				} else {
					c.R.HarnessError("tlc: %v", err)
				}
			} else if f, e := os.Open(dot); e == nil {
				defer f.Close()
				rd = f
				bound = "every edge of the state graph TLC produced in this run (" + st + "; the model's action properties hold)"
			}
		}
		if rd == nil {
			f, e := os.Open(filepath.Join(dir, "IntHalt.dot.gz"))
			if e != nil {
				c.R.Extra("tlc", "skipped: no committed graph")
				return
			}
			defer f.Close()
			z, e := gzip.NewReader(f)
			if e != nil {
				c.R.HarnessError("tlc graph: %v", e)
				return
			}
			rd = z
			bound = "every edge of the committed TLC state graph tla/IntHalt.dot.gz (regenerated and replayed afresh in the thorough tier)"
		}
		var err error
		var n int
		edges, n, err = loadIHGraph(rd)
		if err != nil {
			c.R.HarnessError("tlc graph: %v", err)
			return
		}
		bound += fmt.Sprintf("; %d states, %d edges", n, len(edges))
		c.R.AddTLCEdges(int64(len(edges)))
		c.R.Extra("tlc_states", n)
	}
	explore.Product(c.R, "tlc-edge-replay", explore.PartOpt{Bound: bound, Domain: "TLA+ model tla/IntHalt.tla: two sources, main program fed from {NOP, EI, DI, HALT}, handlers [RETI] and [EI, NOP, RETI], nesting <= 2"},
		func(yield func(ihEdge) bool) {
			for _, e := range edges {
				if !yield(e) {
					return
				}
			}
		}, func() struct{} { return struct{}{} }, ihEdgeCheck)
}
