package props

import (
	"fmt"
	"github.com/scottyw/tetromino/gameboy/controller"
	"os"
	"path/filepath"

	"verifmc/explore"
	"verifmc/machine"
	"verifmc/ref"
)

// C06 — address space and register read-back; C07 — a write changes only what is documented.
// Both go through Mapper.Read/Write only; no machine cycle elapses between a write and the reads.

// machine states the sweeps start from
var busStates = []string{"power-on", "lcd-off", "lcd-off+apu-off", "after-busy-rom", "mbc1-ram-enabled", "ch3-playing", "dma-in-flight", "dacs-on-idle", "dac3-on-fresh", "lcd-off+all-requested", "keys-held", "mbc2-ram-enabled", "mbc3-ram-enabled", "mbc5-ram-enabled", "lcd-on-registers-set", "lcd-off+oam-source", "sweep-armed", "mbc2-ram-disabled"}

func busMachine(state string, repo string) (*machine.M, ref.CartKind) {
	kind := ref.KNone
	var m *machine.M
	switch state {
	case "after-busy-rom":
		rom, err := os.ReadFile(filepath.Join(repo, "gameboy/testdata/blargg/cpu_instrs/cpu_instrs.gb"))
		if err != nil {
			panic(err)
		}
		m = machine.New(rom, machine.Opts{})
		kind = ref.KMBC1
		for i := 0; i < 2*17556+777; i++ {
			m.Cycle()
		}
		for !m.CPU.VAtBoundary() {
			m.Cycle()
		}
	case "mbc1-ram-enabled":
		m = machine.New(machine.Image(0x03, 2, 3, 8), machine.Opts{})
		kind = ref.KMBC1
		m.Map.Write(0x0000, 0x0a)
	case "mbc2-ram-enabled":
		m = machine.New(machine.Image(0x06, 2, 0, 8), machine.Opts{})
		kind = ref.KMBC2
		m.Map.Write(0x0000, 0x0a)
	case "mbc2-ram-disabled":
		// cartridge RAM switched off again after use: stores into its window are then stores into nothing
		m = machine.New(machine.Image(0x06, 2, 0, 8), machine.Opts{})
		kind = ref.KMBC2
		m.Map.Write(0x0000, 0x0a)
		m.Map.Write(0xa123, 0x05)
		m.Map.Write(0x0000, 0x00)
		m.Map.Write(0x2100, 0x03)
	case "mbc3-ram-enabled":
		m = machine.New(machine.Image(0x13, 2, 3, 8), machine.Opts{})
		kind = ref.KMBC3
		m.Map.Write(0x0000, 0x0a)
	case "mbc5-ram-enabled":
		m = machine.New(machine.Image(0x1b, 2, 3, 8), machine.Opts{})
		kind = ref.KMBC5
		m.Map.Write(0x0000, 0x0a)
	default:
		m = machine.New(machine.ROMOnly(), machine.Opts{})
	}
	if state == "lcd-on-registers-set" {
		// LCD on in the middle of line 10 with every LCD register holding a value of its own (none at its power-on
		// value): what a write to one of them does to the others shows only when the others are not already 00
		for _, w := range [][2]uint16{{0xff45, 0x40}, {0xff42, 0x11}, {0xff43, 0x22}, {0xff4a, 0x33}, {0xff4b, 0x44}, {0xff47, 0xe4}, {0xff48, 0xd2}, {0xff49, 0x39}, {0xff41, 0x48}} {
			m.Map.Write(w[0], uint8(w[1]))
		}
		for i := 0; i < 10*114+30; i++ {
			m.Hardware()
		}
	} else if state != "power-on" {
		// leave mode 2 first (mode 2 lasts 20 cycles), then switch the LCD off
		for m.Map.Read(0xff41)&3 == 2 {
			m.Hardware()
		}
		m.Map.Write(0xff40, m.Map.Read(0xff40)&0x7f)
	}
	switch state {
	case "lcd-off+oam-source":
		// LCD off with the mode-2 STAT source selected, LYC away from line 0, nothing requested
		m.Map.Write(0xff45, 0x50)
		m.Map.Write(0xff41, 0x20)
		m.Map.Write(0xff0f, 0x00)
	case "sweep-armed":
		// channel 1 playing with its sweep unit armed (period 1, shift 1, adding) at a frequency close to the top
		for _, w := range [][2]uint16{{0xff26, 0x80}, {0xff10, 0x11}, {0xff12, 0xf0}, {0xff13, 0x00}, {0xff14, 0x85}} {
			m.Map.Write(w[0], uint8(w[1]))
		}
		for i := 0; i < 40; i++ {
			m.Hardware()
		}
	case "lcd-off+apu-off":
		m.Map.Write(0xff26, 0x00)
	case "ch3-playing":
		m.Map.Write(0xff26, 0x80)
		m.Map.Write(0xff1a, 0x80)
		m.Map.Write(0xff1c, 0x20)
		m.Map.Write(0xff1d, 0x00)
		m.Map.Write(0xff1e, 0x87)
		for i := 0; i < 40; i++ {
			m.Hardware()
		}
	case "lcd-off+all-requested":
		m.Map.Write(0xff0f, 0x1f) // every interrupt requested, none enabled, timer stopped
		m.Map.Write(0xffff, 0x00)
	case "keys-held":
		// Right and A held on the pad while neither group is selected (JOYP = 30): selecting a group is a plain register write
		m.Map.Write(0xff00, 0x30)
		m.C.ButtonAction(controller.Right, true)
		m.C.ButtonAction(controller.A, true)
	case "dac3-on-fresh":
		m.Map.Write(0xff26, 0x80)
		m.Map.Write(0xff1a, 0x80) // channel 3's DAC on, never triggered
	case "dacs-on-idle":
		// every DAC switched on, no channel triggered (after channel 3 has played once and was stopped by a power cycle)
		for _, w := range [][2]uint16{{0xff26, 0x80}, {0xff1a, 0x80}, {0xff1c, 0x20}, {0xff1e, 0x87}} {
			m.Map.Write(w[0], uint8(w[1]))
		}
		for i := 0; i < 300; i++ {
			m.Hardware()
		}
		for _, w := range [][2]uint16{{0xff26, 0x00}, {0xff26, 0x80}, {0xff12, 0xf0}, {0xff17, 0xf0}, {0xff1a, 0x80}, {0xff21, 0xf0}} {
			m.Map.Write(w[0], uint8(w[1]))
		}
	case "apu-busy":
		// all four channels playing, every length counter one clock from expiry with length counting off,
		// second half of a frame-sequencer period (where enabling length clocks the counter at once)
		for _, w := range [][2]uint16{{0xff26, 0x80}, {0xff25, 0xff}, {0xff24, 0x77}, {0xff11, 0x3f}, {0xff16, 0x3f}, {0xff1b, 0xff}, {0xff20, 0x3f},
			{0xff12, 0xf0}, {0xff17, 0xf0}, {0xff1a, 0x80}, {0xff1c, 0x20}, {0xff21, 0xf0}, {0xff13, 0x00}, {0xff18, 0x00}, {0xff1d, 0x00}, {0xff22, 0x00},
			{0xff14, 0x87}, {0xff19, 0x87}, {0xff1e, 0x87}, {0xff23, 0x80}} {
			m.Map.Write(w[0], uint8(w[1]))
		}
		for i := 0; i < 5000 && m.A.VGet().FrameSeqTicks%2 == 0; i++ {
			m.Hardware()
		}
		for i := 0; i < 7; i++ {
			m.Hardware()
		}
	case "dma-in-flight":
		m.Map.Write(0xff46, 0xc1)
		for i := 0; i < 40; i++ {
			m.Hardware()
		}
	}
	return m, kind
}

// ---- C06 -------------------------------------------------------------------------------

type c06Case struct {
	State string `json:"state"`
	Part  string `json:"part"` // plain | io | unusable
}

func c06Check(l *explore.Local, repo string, c c06Case) *explore.Fail {
	m, _ := busMachine(c.State, repo)
	lcdOff := m.Map.Read(0xff40)&0x80 == 0
	rd, wr := m.Map.Read, m.Map.Write
	switch c.Part {
	case "plain":
		// plain-memory regions: three full sweeps with different patterns and orders, each verified completely
		var regions [][2]int
		regions = append(regions, [2]int{0xc000, 0xfdff}, [2]int{0xff80, 0xffff})
		if lcdOff {
			regions = append(regions, [2]int{0x8000, 0x9fff})
			if c.State != "dma-in-flight" { // OAM is not accessible while a transfer runs (C16)
				regions = append(regions, [2]int{0xfe00, 0xfe9f})
			}
		}
		var shadow [0x10000]uint8
		var known [0x10000]bool
		pat := func(k int, a int) uint8 { return uint8(a*(2*k+3) + a>>8*(k+1) + 0x35*k) }
		verify := func(ctx string) *explore.Fail {
			for _, r := range regions {
				for a := r[0]; a <= r[1]; a++ {
					if known[fold(uint16(a))] {
						if got := rd(uint16(a)); got != shadow[fold(uint16(a))] {
							name := "plain memory does not hold the last written value"
							if a >= 0xe000 && a < 0xfe00 {
								name = "echo E000-FDFF does not mirror C000-DDFF"
							}
							return explore.Failf(name, "state %s, %s: %04x reads %02x, last written %02x", c.State, ctx, a, got, shadow[fold(uint16(a))])
						}
					}
				}
			}
			return nil
		}
		for k := 0; k < 3; k++ {
			for _, r := range regions {
				n := r[1] - r[0] + 1
				for i := 0; i < n; i++ {
					a := r[0] + i
					switch k {
					case 1:
						a = r[1] - i
					case 2:
						a = r[0] + (i*257+11)%n
					}
					v := pat(k, a)
					wr(uint16(a), v)
					shadow[fold(uint16(a))], known[fold(uint16(a))] = v, true
					if got := rd(uint16(a)); got != v {
						return explore.Failf("plain memory does not read back the written value", "state %s: %04x<-%02x reads %02x", c.State, a, v, got)
					}
					l.Trans(1)
				}
			}
			if f := verify(fmt.Sprintf("after sweep %d", k)); f != nil {
				return f
			}
		}
		// every value at boundary addresses, both mirror directions
		for _, a := range []int{0xc000, 0xddff, 0xde00, 0xdfff, 0xe000, 0xfdff, 0xff80, 0xfffe, 0xffff} {
			for v := 0; v < 256; v++ {
				wr(uint16(a), uint8(v))
				shadow[fold(uint16(a))], known[fold(uint16(a))] = uint8(v), true
				if got := rd(uint16(a)); got != uint8(v) {
					return explore.Failf("plain memory does not read back the written value", "state %s: %04x<-%02x reads %02x", c.State, a, v, got)
				}
				if a >= 0xc000 && a < 0xde00 {
					if got := rd(uint16(a + 0x2000)); got != uint8(v) {
						return explore.Failf("echo E000-FDFF does not mirror C000-DDFF", "state %s: %04x<-%02x, %04x reads %02x", c.State, a, v, a+0x2000, got)
					}
				}
				if a >= 0xe000 && a < 0xfe00 {
					if got := rd(uint16(a - 0x2000)); got != uint8(v) {
						return explore.Failf("echo E000-FDFF does not mirror C000-DDFF", "state %s: %04x<-%02x, %04x reads %02x", c.State, a, v, a-0x2000, got)
					}
				}
				l.Trans(1)
			}
		}
		if f := verify("after the boundary writes"); f != nil {
			return f
		}
	case "unusable":
		if c.State == "dma-in-flight" {
			return nil // FEA0-FEFF reads 00 "while OAM is accessible"
		}
		for a := 0xfea0; a <= 0xfeff; a++ {
			for _, v := range []uint8{0x00, 0xff, 0x55, 0xaa} {
				wr(uint16(a), v)
				if got := rd(uint16(a)); got != 0x00 {
					return explore.Failf("FEA0-FEFF does not read 00", "state %s: %04x reads %02x after writing %02x", c.State, a, got, v)
				}
				l.Trans(1)
			}
		}
	case "io":
		apuOn := rd(0xff26)&0x80 != 0
		timerRunning := rd(0xff07)&0x04 != 0
		order := make([]int, 0, 0x80)
		for a := 0xff00; a < 0xff80; a++ {
			if a != 0xff46 && a != 0xff40 {
				order = append(order, a)
			}
		}
		order = append(order, 0xff40, 0xff46)
		for _, a := range order {
			// every register is exercised from the named state itself, not from what the sweeps of the registers
			// before it left behind (an NR52 sweep, for one, switches every DAC off)
			m, _ = busMachine(c.State, repo)
			rd, wr = m.Map.Read, m.Map.Write
			reg := ref.IOReg(uint16(a))
			isNR := a >= 0xff10 && a <= 0xff25
			if reg.Kind == ref.ROwnedElsewhere || (isNR && !apuOn) {
				continue
			}
			if a >= 0xff30 && a <= 0xff3f && rd(0xff26)&0x04 != 0 {
				continue // wave RAM while channel 3 plays: C18/C19
			}
			if (a == 0xff05 || a == 0xff06) && timerRunning {
				continue // TIMA/TMA read-back is plain only outside the reload window; checked with the timer stopped
			}
			orig := rd(uint16(a))
			// before anything is written in this state: the bits that always read 1 do so already
			if reg.Kind == ref.RMasked && orig&reg.U != reg.U {
				return explore.Failf(fmt.Sprintf("%s (%04X): the always-one bits do not read 1 before the register is written", reg.Name, a), "state %s: %04x reads %02x, bits %02x must read 1", c.State, a, orig, reg.U)
			}
			if reg.Kind == ref.RUnmapped && orig != 0xff {
				return explore.Failf("unmapped I/O address does not read FF", "state %s: %04x reads %02x before any write", c.State, a, orig)
			}
			for v := 0; v < 256; v++ {
				before := rd(uint16(a))
				wr(uint16(a), uint8(v))
				got := rd(uint16(a))
				l.Trans(1)
				switch reg.Kind {
				case ref.RUnmapped:
					if got != 0xff {
						return explore.Failf("unmapped I/O address does not read FF", "state %s: %04x reads %02x after writing %02x", c.State, a, got, v)
					}
				case ref.RMasked:
					want := uint8(v)&reg.W | reg.U | before&reg.RO
					if got != want {
						return explore.Failf(fmt.Sprintf("%s (%04X) does not read back the written bits", reg.Name, a),
							"state %s: %04x<-%02x reads %02x, documented %02x (writable %02x, always-one %02x, read-only %02x)", c.State, a, v, got, want, reg.W, reg.U, reg.RO)
					}
				case ref.RNeverWritten:
					want := before
					if reg.AfterWrite >= 0 {
						want = uint8(reg.AfterWrite)
					}
					if a == 0xff44 && !lcdOff {
						// the PPU recomputes LY every machine cycle: observe what a guest can see
						m.Hardware()
						got = rd(0xff44)
						if (got == uint8(v) && uint8(v) != before && uint8(v) != before+1) || (got != before && got != before+1 && !(before == 153 && got == 0)) {
							return explore.Failf("LY takes a written value", "state %s: LY was %d, wrote %02x, one cycle later LY reads %d", c.State, before, v, got)
						}
						continue
					}
					if got != want {
						return explore.Failf(fmt.Sprintf("%s takes the written value or changes wrongly on a write", reg.Name), "state %s: %04x was %02x, wrote %02x, reads %02x (documented %02x)", c.State, a, before, v, got, want)
					}
				}
			}
			// put the register back and stop anything the values may have started
			switch {
			case a == 0xff46:
				for i := 0; i < 170; i++ {
					m.Hardware()
				}
			case a == 0xff25:
				wr(uint16(a), orig)
				pw := rd(0xff26) & 0x80
				wr(0xff26, 0x00)
				wr(0xff26, pw)
			case a == 0xff04 || a == 0xff44:
			default:
				wr(uint16(a), orig)
			}
		}
	}
	l.Eval(1)
	l.OutcomeStr(c.State + c.Part)
	return nil
}

// ---- C07 -------------------------------------------------------------------------------

type c07Case struct {
	State string   `json:"state"`
	Lo    int      `json:"lo"`
	Hi    int      `json:"hi"`
	Step  int      `json:"step,omitempty"`
	Vals  []uint8  `json:"vals"`
	Addrs []uint16 `json:"addrs,omitempty"`
	Fresh bool     `json:"fresh,omitempty"` // rebuild the machine state before every single write
}

// allowedChange reports whether a write to w may change what is read at address x.
func allowedChange(w, x uint16, v uint8, kind ref.CartKind, ch3On bool) bool {
	if x == w {
		return true // its own readable value
	}
	switch {
	case w < 0x8000:
		if kind == ref.KNone {
			return false
		}
		return x < 0x8000 || (x >= 0xa000 && x < 0xc000) // the ROM/RAM windows
	case w >= 0xa000 && w < 0xc000:
		return kind == ref.KMBC2 && x >= 0xa000 && x < 0xc000 && (x-w)%512 == 0
	case w >= 0xc000 && w < 0xde00:
		return x == w+0x2000
	case w >= 0xe000 && w < 0xfe00:
		return x == w-0x2000
	case w == 0xff40:
		return x == 0xff41 || x == 0xff44
	case w == 0xff46:
		return x >= 0xfe00 && x < 0xff00
	case w == 0xff26:
		// powering off stops channel 3: what FF30-FF3F read may change then, but only then (wave RAM is not a sound
		// register and is not cleared)
		return (x >= 0xff10 && x <= 0xff26) || (ch3On && x >= 0xff30 && x <= 0xff3f)
	case w == 0xff12, w == 0xff17, w == 0xff21:
		// an envelope register switches its channel off only by switching the DAC off (bits 3-7 all zero)
		return x == 0xff26 && v&0xf8 == 0
	case w == 0xff10, w == 0xff14, w == 0xff19, w == 0xff23:
		return x == 0xff26 // only the written channel's status bit: see allowedBits
	case w == 0xff1a, w == 0xff1e:
		return x == 0xff26 || (x >= 0xff30 && x <= 0xff3f)
	case w >= 0xff30 && w <= 0xff3f:
		return ch3On && x >= 0xff30 && x <= 0xff3f
	}
	return false
}

// allowedBits narrows allowedChange to bits: a channel's sweep/envelope/DAC/trigger register may change
// only that channel's status bit in NR52.
func allowedBits(w, x uint16) uint8 {
	if x != 0xff26 || w == 0xff26 {
		return 0xff
	}
	switch ch := chanOfReg(w); ch {
	case 0, 1, 2, 3:
		return 1 << uint(ch)
	}
	return 0xff
}

func chanOfReg(w uint16) int {
	switch {
	case w >= 0xff10 && w <= 0xff14:
		return 0
	case w >= 0xff16 && w <= 0xff19:
		return 1
	case w >= 0xff1a && w <= 0xff1e:
		return 2
	case w >= 0xff20 && w <= 0xff23:
		return 3
	}
	return -1
}

func c07Check(l *explore.Local, repo string, c c07Case) *explore.Fail {
	m, kind := busMachine(c.State, repo)
	var prev, cur [0x10000]uint8
	snap := func(dst *[0x10000]uint8) {
		for a := 0; a < 0x10000; a++ {
			dst[a] = m.Map.Read(uint16(a))
		}
	}
	snap(&prev)
	addrs := c.Addrs
	if addrs == nil {
		step := c.Step
		if step == 0 {
			step = 1
		}
		for a := c.Lo; a <= c.Hi; a += step {
			addrs = append(addrs, uint16(a))
		}
	}
	first := true
	for _, w := range addrs {
		for _, v := range c.Vals {
			if c.Fresh && !first {
				m, kind = busMachine(c.State, repo) // every write starts from the named state itself
				snap(&prev)
			}
			first = false
			ch3On := prev[0xff26]&0x04 != 0
			m.Map.Write(w, v)
			snap(&cur)
			l.Trans(1)
			ch3On = ch3On || cur[0xff26]&0x04 != 0
			for x := 0; x < 0x10000; x++ {
				if cur[x] != prev[x] && (!allowedChange(w, uint16(x), v, kind, ch3On) || (cur[x]^prev[x])&^allowedBits(w, uint16(x)) != 0) {
					return explore.Failf(fmt.Sprintf("a write to %s changes an unrelated location", c07Region(w)),
						"state %s: %04x<-%02x changed %04x from %02x to %02x", c.State, w, v, x, prev[x], cur[x])
				}
			}
			prev, cur = cur, prev
			if w == 0xff46 {
				for i := 0; i < 170; i++ {
					m.Hardware()
				}
				snap(&prev)
			}
		}
	}
	l.Eval(len(addrs) * len(c.Vals))
	l.OutcomeStr(fmt.Sprintf("%s%04x", c.State, c.Lo))
	return nil
}

func c07Region(w uint16) string {
	switch {
	case w < 0x8000:
		return "the cartridge control area 0000-7FFF"
	case w < 0xa000:
		return "VRAM"
	case w < 0xc000:
		return "cartridge RAM"
	case w < 0xe000:
		return "work RAM"
	case w < 0xfe00:
		return "echo RAM"
	case w < 0xfea0:
		return "OAM"
	case w < 0xff00:
		return "FEA0-FEFF"
	case w < 0xff80:
		if n, ok := ref.NRName[w]; ok {
			return n
		}
		r := ref.IOReg(w)
		if r.Name != "unmapped" {
			return r.Name
		}
		return "an unmapped I/O address"
	case w < 0xffff:
		return "high RAM"
	}
	return "IE"
}

func init() {
	register("C06", "model_checking", func(c *Ctx) {
		if c.R != nil {
			c.R.Rule = "through Mapper.Read/Write only, from 13 machine states: (plain) three complete write sweeps (ascending, descending, strided; distinct patterns) over WRAM+echo, HRAM, IE and, LCD off, VRAM and OAM, each followed by a complete read-back of all plain memory, plus all 256 values at region-boundary addresses with both mirror directions; (io) every address FF00-FF7F x all 256 values: read-back = (v & writable) | always-one | read-only bits; DIV/LY never take the value; unmapped read FF; (unusable) FEA0-FEFF read 00; a case = one (state, part)"
			c.R.Assumptions = []string{"NR52 and JOYP's input nibble are owned by C18/C19/C22", "TIMA/TMA read-back is judged with the timer stopped", "LY with the LCD on is observed one machine cycle after the write (what a guest can see)"}
		}
		explore.Product(c.R, "read-back", explore.PartOpt{Bound: "no time elapses between write and read", Domain: "13 machine states x {plain, io, unusable}"},
			func(yield func(c06Case) bool) {
				for _, s := range busStates {
					if s == "keys-held" || s == "lcd-on-registers-set" || s == "lcd-off+oam-source" || s == "sweep-armed" || s == "mbc2-ram-disabled" {
						continue // JOYP's input nibble under held keys is C22's; the states exist for C07
					}
					for _, p := range []string{"plain", "io", "unusable"} {
						if !yield(c06Case{s, p}) {
							return
						}
					}
				}
			}, func() string { return c.Repo }, c06Check)
		c06KeepPart(c)
	})
	register("C07", "model_checking", func(c *Ctx) {
		if c.R != nil {
			c.R.Rule = "for each machine state and each written (address, value): the complete 64 KiB space is read before and after one Mapper.Write (no machine cycle elapses) and every changed address must be in the documented effect set of the written address (own value and mirror; ROM/RAM windows for cartridge control writes; DIV; LCDC -> STAT/LY; DMA -> OAM window; NR52 -> all sound registers and wave RAM; envelope/trigger/sweep/DAC registers -> the status bit of their own channel in NR52; NR30/NR34 -> wave RAM window); the new values themselves belong to C06/C08/C09/C18/C19"
			c.R.Assumptions = []string{"quick: every address FE00-FFFF, every 0x100-aligned address +-1 elsewhere and every region boundary +-1; thorough: all 65,536 addresses"}
		}
		vals := []uint8{0x00, 0xff, 0x55, 0xaa, 0x01, 0x80, 0x0a, 0xe5}
		explore.Product(c.R, "write-effect-sets", explore.PartOpt{Bound: "single write, full-space diff", Domain: "18 machine states (one with the LCD on mid-frame and every LCD register at a value of its own; LCD off with the mode-2 STAT source selected; channel 1 playing with its sweep armed; MBC2 with its RAM switched off again), five of them with a cartridge controller and its RAM enabled (MBC1, MBC2, MBC3, MBC5) (FF10-FF3F: every write from the state itself); plus FF10-FF3F x 8 values each written from a busy APU (all channels playing, length counters at 1, second half of a frame-sequencer period)"},
			func(yield func(c07Case) bool) {
				// sound registers from a busy APU, every write from the state itself
				for lo := 0xff10; lo < 0xff40; lo += 4 {
					if !yield(c07Case{State: "apu-busy", Lo: lo, Hi: lo + 3, Vals: []uint8{0x00, 0xff, 0x40, 0x80, 0xc0, 0x08, 0x7f, 0x3f}, Fresh: true}) {
						return
					}
				}
				for _, s := range busStates {
					// FE00-FFFF completely
					for lo := 0xfe00; lo < 0x10000; lo += 0x10 {
						// the sound registers and wave RAM: every write from the state itself (a sweep over NR52 or NR30
						// would otherwise destroy the state for the addresses after it)
						fresh := (lo >= 0xff10 && lo < 0xff40 && s != "after-busy-rom") || ((s == "lcd-off+all-requested" || s == "keys-held" || s == "lcd-on-registers-set" || s == "lcd-off+oam-source") && lo >= 0xff00 && lo < 0xff80)
						if !yield(c07Case{State: s, Lo: lo, Hi: lo + 0x0f, Vals: vals, Fresh: fresh}) {
							return
						}
					}
					if c.Thorough() {
						tv := []uint8{0x00, 0xa5}
						if s == "mbc1-ram-enabled" || s == "lcd-off" {
							tv = vals[:4]
						}
						for lo := 0; lo < 0xfe00; lo += 0x100 {
							if !yield(c07Case{State: s, Lo: lo, Hi: lo + 0xff, Vals: tv}) {
								return
							}
						}
						continue
					}
					var addrs []uint16
					for a := 0; a < 0xfe00; a += 0x100 {
						addrs = append(addrs, uint16(a), uint16(a+1), uint16(a+0xff))
					}
					for _, b := range []int{0x2000, 0x3000, 0x4000, 0x6000, 0x8000, 0xa000, 0xa200, 0xc000, 0xde00, 0xe000} {
						addrs = append(addrs, uint16(b-1), uint16(b), uint16(b+1))
					}
					for i := 0; i < len(addrs); i += 24 {
						j := i + 24
						if j > len(addrs) {
							j = len(addrs)
						}
						if !yield(c07Case{State: s, Addrs: addrs[i:j], Vals: vals}) {
							return
						}
					}
				}
			}, func() string { return c.Repo }, c07Check)
		c07WavePart(c)
	})
}
