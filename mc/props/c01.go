package props

import (
	"bufio"
	"fmt"
	"os"
	"path/filepath"
	"strconv"
	"strings"

	"github.com/scottyw/tetromino/gameboy/cpu"
	"verifmc/explore"
	"verifmc/ref"
)

// C01 — single-step relation of every defined opcode against the reference interpreter.

// c01Single is one fully specified step (also the replay artefact).
type c01Single struct {
	Regs cpu.VRegs `json:"regs"`
	Code []uint8   `json:"code"`
	Mem  [][2]int  `json:"mem,omitempty"` // (address, value) written before the step
	Full bool      `json:"full,omitempty"`
}

func (e *cpuEnv) placeCode(pc uint16, code []uint8) {
	for i, b := range code {
		e.poke(pc+uint16(i), b)
	}
}

func (e *cpuEnv) single(s *c01Single) (stepOutcome, *explore.Fail) {
	e.m.Map.Write(0xff0f, 0)
	e.m.Map.Write(0xffff, 0)
	e.shadow[0xffff] = 0
	e.placeCode(s.Regs.PC, s.Code)
	for _, mv := range s.Mem {
		e.poke(uint16(mv[0]), uint8(mv[1]))
	}
	o, f := e.runOne(s.Regs)
	if f != nil || o.info.Undefined {
		return o, f
	}
	if f := compareRegs(o, s.Regs); f != nil {
		return o, f
	}
	if f := e.applyWrites(o); f != nil {
		return o, f
	}
	if s.Full {
		if f := e.fullDiff(o); f != nil {
			return o, f
		}
	}
	return o, nil
}

func failWith(f *explore.Fail, s *c01Single) *explore.Fail {
	cp := *s
	cp.Code = append([]uint8(nil), s.Code...)
	cp.Mem = append([][2]int(nil), s.Mem...)
	f.Case = c01Case{Fam: "single", Single: &cp}
	return f
}

type c01Case struct {
	Fam    string     `json:"fam"`
	Op     int        `json:"op,omitempty"` // 0-255 base, 256-511 CB
	Block  int        `json:"block,omitempty"`
	Flags  []uint8    `json:"flags,omitempty"`
	Single *c01Single `json:"single,omitempty"`
}

var allFlags = []uint8{0x00, 0x10, 0x20, 0x30, 0x40, 0x50, 0x60, 0x70, 0x80, 0x90, 0xa0, 0xb0, 0xc0, 0xd0, 0xe0, 0xf0}

func markerRegs() cpu.VRegs {
	return cpu.VRegs{A: 0xa7, B: 0x1b, C: 0x2c, D: 0x3d, E: 0x4e, H: 0xc8, L: 0x5f, SP: 0xdf00, PC: 0xc000}
}

func setReg8(r *cpu.VRegs, i uint8, v uint8) {
	switch i {
	case 0:
		r.B = v
	case 1:
		r.C = v
	case 2:
		r.D = v
	case 3:
		r.E = v
	case 4:
		r.H = v
	case 5:
		r.L = v
	case 7:
		r.A = v
	}
}

func codeOf(op int, operands ...uint8) []uint8 {
	if op >= 256 {
		return []uint8{0xcb, uint8(op - 256)}
	}
	return append([]uint8{uint8(op)}, operands...)
}

// c01ALU8: x=2 block and ALU A,n: A(256) x operand(256) x flags.
func c01ALU8(l *explore.Local, e *cpuEnv, c c01Case) *explore.Fail {
	op := uint8(c.Op)
	imm := op >= 0xc0
	z := op & 7
	s := &c01Single{Regs: markerRegs()}
	for _, fl := range c.Flags {
		for a := 0; a < 256; a++ {
			for v := 0; v < 256; v++ {
				r := markerRegs()
				r.F = fl
				s.Mem = s.Mem[:0]
				switch {
				case imm:
					s.Code = append(s.Code[:0], op, uint8(v))
				case z == 6:
					s.Code = append(s.Code[:0], op)
					s.Mem = append(s.Mem, [2]int{int(r.H)<<8 | int(r.L), v})
				default:
					s.Code = append(s.Code[:0], op)
					setReg8(&r, z, uint8(v))
				}
				r.A = uint8(a)
				if !imm && z == 7 {
					r.A = uint8(v) // operand is A itself
					if a != v {
						continue
					}
				}
				s.Regs = r
				o, f := e.single(s)
				if f != nil {
					return failWith(f, s)
				}
				l.Outcome(uint64(o.got.A)<<8 | uint64(o.got.F))
			}
		}
		l.Eval(65536)
		l.Trans(65536)
	}
	return nil
}

// c01Unary: INC/DEC r, CB ops, accumulator ops: value(256) x 16 flags on the operated register.
func c01Unary(l *explore.Local, e *cpuEnv, c c01Case) *explore.Fail {
	s := &c01Single{}
	var target uint8 = 7 // register index the instruction operates on
	switch {
	case c.Op >= 256:
		target = uint8(c.Op-256) & 7
	case uint8(c.Op)&0xc7 == 0x04 || uint8(c.Op)&0xc7 == 0x05:
		target = (uint8(c.Op) >> 3) & 7
	}
	for _, fl := range allFlags {
		for v := 0; v < 256; v++ {
			r := markerRegs()
			r.F = fl
			s.Mem = s.Mem[:0]
			s.Code = append(s.Code[:0], codeOf(c.Op)...)
			if target == 6 {
				s.Mem = append(s.Mem, [2]int{int(r.H)<<8 | int(r.L), v})
			} else {
				setReg8(&r, target, uint8(v))
			}
			s.Regs = r
			s.Full = v == int(fl)>>4|c.Op&0xf0 // a full-memory diff on a spread of cases
			o, f := e.single(s)
			if f != nil {
				return failWith(f, s)
			}
			l.Outcome(uint64(o.got.A)<<8 | uint64(o.got.F) | uint64(o.got.H)<<16)
		}
	}
	l.Eval(4096)
	l.Trans(4096)
	return nil
}

// c01RP: 16-bit INC/DEC (all 65,536 values), ADD HL,rr, ADD SP,e, LD HL,SP+e.
func c01RP(l *explore.Local, e *cpuEnv, c c01Case) *explore.Fail {
	op := uint8(c.Op)
	s := &c01Single{}
	run := func(r cpu.VRegs, code ...uint8) *explore.Fail {
		s.Regs = r
		s.Code = append(s.Code[:0], code...)
		o, f := e.single(s)
		if f != nil {
			return failWith(f, s)
		}
		l.Outcome(uint64(o.got.H)<<16 | uint64(o.got.L)<<8 | uint64(o.got.F) ^ uint64(o.got.SP)<<24)
		return nil
	}
	setRP := func(r *cpu.VRegs, p uint8, v uint16) {
		switch p {
		case 0:
			r.B, r.C = uint8(v>>8), uint8(v)
		case 1:
			r.D, r.E = uint8(v>>8), uint8(v)
		case 2:
			r.H, r.L = uint8(v>>8), uint8(v)
		case 3:
			r.SP = v
		}
	}
	p := (op >> 4) & 3
	n := 0
	switch {
	case op&0xc7 == 0x03: // INC/DEC rr: block = high byte / 16
		for v := c.Block << 12; v < (c.Block+1)<<12; v++ {
			r := markerRegs()
			r.F = uint8(v&0xf) << 4
			setRP(&r, p, uint16(v))
			if f := run(r, op); f != nil {
				return f
			}
			n++
		}
	case op&0xcf == 0x09: // ADD HL,rr: block selects the sub-domain slice
		for _, pair := range addHLDomain(c.Block, c.Flags != nil) {
			r := markerRegs()
			r.F = uint8(pair[0]^pair[1]) << 4 & 0xf0
			r.H, r.L = uint8(pair[0]>>8), uint8(pair[0])
			if p != 2 {
				setRP(&r, p, pair[1])
			} else if pair[0] != pair[1] {
				continue
			}
			if f := run(r, op); f != nil {
				return f
			}
			n++
		}
	default: // E8 / F8: block = SP high byte
		es := make([]int, 256)
		for i := range es {
			es[i] = i
		}
		for lo := 0; lo < 256; lo++ {
			for _, ev := range es {
				r := markerRegs()
				r.F = uint8(lo&0xf) << 4
				r.SP = uint16(c.Block)<<8 | uint16(lo)
				if f := run(r, op, uint8(ev)); f != nil {
					return f
				}
				n++
			}
		}
	}
	l.Eval(n)
	l.Trans(n)
	return nil
}

// addHLDomain: block b in 0..15 -> lo12 x lo12 slice with hi nibbles 0 (lo12 of HL in [b*256,(b+1)*256));
// block 16 -> hi4 x hi4 x lo12 in {000,FFF,800,7FF} x same.
func addHLDomain(block int, reduced bool) [][2]uint16 {
	var out [][2]uint16
	if block < 16 {
		step := 1
		if reduced {
			step = 17 // quick tier: every 17th second operand plus all boundary values
		}
		for a := block * 256; a < (block+1)*256; a++ {
			for b := 0; b < 4096; b += step {
				out = append(out, [2]uint16{uint16(a), uint16(b)})
			}
			if reduced {
				for _, b := range []int{0xfff, 0xffe, 0x800, 0x7ff, 0xf00, 0x0ff, 0x001, 0xfff - a, 0x1000 - a - 1&0xfff} {
					out = append(out, [2]uint16{uint16(a), uint16(b & 0xfff)})
				}
			}
		}
		return out
	}
	los := []uint16{0x000, 0xfff, 0x800, 0x7ff}
	for h1 := 0; h1 < 16; h1++ {
		for h2 := 0; h2 < 16; h2++ {
			for _, l1 := range los {
				for _, l2 := range los {
					out = append(out, [2]uint16{uint16(h1)<<12 | l1, uint16(h2)<<12 | l2})
				}
			}
		}
	}
	return out
}

// generic sweep over every opcode: pointer placement x flags x operand pairs.
var c01Pointers = []uint16{0xc100, 0xdfd0, 0xe000, 0xfdc0, 0x8000, 0x9fc0, 0xfe00, 0xfe80, 0xff80, 0xffb0, 0x0000, 0x7fc0, 0xa000}
var c01Operands = []uint8{0x00, 0x01, 0x7f, 0x80, 0xfe, 0xff}

func c01Sweep(l *explore.Local, e *cpuEnv, c c01Case) *explore.Fail {
	nOp := 0
	if c.Op < 256 {
		nOp = ref.OperandBytes(uint8(c.Op))
		if c.Op == 0xcb {
			return nil
		}
	}
	s := &c01Single{}
	n := 0
	for pi, P := range c01Pointers {
		// give the addressed locations known, pairwise distinct contents
		for _, off := range []uint16{0x00, 0x01, 0x10, 0x11, 0x20, 0x21, 0x3e, 0x3f, 0x40, 0x41} {
			if plainAddr(P + off) {
				e.poke(P+off, uint8(0x91+off*3+uint16(pi)))
			}
		}
		for _, fl := range allFlags {
			for oi, o1 := range c01Operands {
				for oj, o2 := range c01Operands {
					if nOp < 2 && oj > 0 {
						break
					}
					if nOp < 1 && oi > 0 {
						break
					}
					for _, pc := range []uint16{0xc000, 0xff90, 0xdffe, 0xffff} {
						if pc != 0xc000 && (fl != 0x50 && fl != 0xa0) {
							continue // code in HRAM / across DFFF-E000 / wrapping FFFF-0000: two flag values
						}
						if pc == 0xffff && nOp > 0 && (o1 != 0 || o2 != 0) {
							continue // operands would live in ROM at 0000 (zero)
						}
						r := cpu.VRegs{A: 0xa7, F: fl, B: uint8(P >> 8), C: uint8(P), D: uint8((P + 0x10) >> 8), E: uint8(P + 0x10),
							H: uint8((P + 0x20) >> 8), L: uint8(P + 0x20), SP: P + 0x40, PC: pc}
						s.Regs = r
						s.Code = append(s.Code[:0], codeOf(c.Op, []uint8{o1, o2}[:nOp]...)...)
						s.Full = (oi*6+oj+int(fl>>4))%16 == c.Op%16
						if _, f := e.single(s); f != nil {
							return failWith(f, s)
						}
						n++
						if c.Op < 256 && (uint8(c.Op) == 0x76 || uint8(c.Op) == 0x10) {
							// HALT / STOP: registers other than PC unchanged was checked; nothing else to run
						}
					}
				}
			}
		}
	}
	l.Eval(n)
	l.Trans(n)
	l.Outcome(uint64(c.Op))
	return nil
}

// POP AF: all 256 low bytes x 4 high bytes.
func c01PopAF(l *explore.Local, e *cpuEnv, c c01Case) *explore.Fail {
	s := &c01Single{}
	for lo := 0; lo < 256; lo++ {
		for _, hi := range []int{0x00, 0x5a, 0xa5, 0xff} {
			for _, fl := range []uint8{0x00, 0xf0} {
				r := markerRegs()
				r.F = fl
				r.SP = 0xdf00
				s.Regs = r
				s.Code = append(s.Code[:0], 0xf1)
				s.Mem = append(s.Mem[:0], [2]int{0xdf00, lo}, [2]int{0xdf01, hi})
				o, f := e.single(s)
				if f != nil {
					return failWith(f, s)
				}
				l.Outcome(uint64(o.got.F))
			}
		}
	}
	l.Eval(2048)
	l.Trans(2048)
	return nil
}

// DAA against the repository's own table (third witness, also checks the reference).
func c01DAACSV(l *explore.Local, e *cpuEnv, c c01Case, repo string) *explore.Fail {
	f, err := os.Open(filepath.Join(repo, "daa.csv"))
	if err != nil {
		return explore.Failf("harness: daa.csv unreadable", "%v", err)
	}
	defer f.Close()
	sc := bufio.NewScanner(f)
	s := &c01Single{}
	rows := 0
	for sc.Scan() {
		parts := strings.Split(strings.TrimSpace(sc.Text()), ",")
		if len(parts) != 4 {
			continue
		}
		var v [4]uint8
		ok := true
		for i, p := range parts {
			x, err := strconv.ParseUint(strings.TrimPrefix(p, "0x"), 16, 8)
			if err != nil {
				ok = false
			}
			v[i] = uint8(x)
		}
		if !ok {
			continue
		}
		r := markerRegs()
		r.A, r.F = v[0], v[1]
		s.Regs = r
		s.Code = append(s.Code[:0], 0x27)
		o, fl := e.single(s)
		if fl != nil {
			return failWith(fl, s)
		}
		if o.want.A != v[2] || o.want.F != v[3] {
			return explore.Failf("harness: reference DAA disagrees with daa.csv", "A=%02x F=%02x: reference gives %02x/%02x, table %02x/%02x", v[0], v[1], o.want.A, o.want.F, v[2], v[3])
		}
		if o.got.A != v[2] || o.got.F != v[3] {
			return failWith(explore.Failf("op 27: result differs from the repository's daa.csv", "A=%02x F=%02x: got %02x/%02x, table %02x/%02x", v[0], v[1], o.got.A, o.got.F, v[2], v[3]), s)
		}
		rows++
	}
	if rows != 2048 {
		return explore.Failf("harness: daa.csv row count", "parsed %d rows, expected 2048", rows)
	}
	l.Eval(rows)
	l.Trans(rows)
	return nil
}

func init() {
	register("C01", "model_checking", func(c *Ctx) {
		if c.R != nil {
			c.R.Rule = "single-step relation state x instruction -> state of the real CPU (ExecuteMachineCycle until the next boundary) compared with an independent reference interpreter: all registers and flags, every addressed memory write, F low nibble, and a full diff of all writable memory on a spread of cases; complete products per family (8-bit ALU: A x operand x flags; INC/DEC/CB/accumulator ops: value x 16 flags; INC/DEC rr: all 65,536; ADD SP,e and LD HL,SP+e: SP x e; ADD HL,rr: the stated carry-chain sub-domain; every opcode: 13 pointer placements x 16 flags x operand pairs x 4 code placements); and every ordered pair of opcodes with the second executed right after the first without re-seeding the CPU (its effect must not depend on the predecessor); a case = one (family, opcode, block)"
			c.R.Assumptions = []string{"ADD HL,rr is enumerated over lo12 x lo12 with zero high nibbles plus hi4 x hi4 x {000,FFF,800,7FF}^2, not all 2^32 pairs", "STOP: PC+1 or PC+2 accepted", "data pointers are placed in memory-like regions (VRAM/OAM with the LCD off, WRAM, echo, HRAM, IE, ROM, absent cart RAM); I/O registers are addressed only for JOYP/SB/HRAM", "IME effects of EI/DI/RETI/HALT belong to C04/C05"}
		}
		thorough := c.Thorough()
		gen := func(yield func(c01Case) bool) {
			// 8-bit ALU
			for op := 0x80; op <= 0xff; op++ {
				if op >= 0xc0 && op&0xc7 != 0xc6 {
					continue
				}
				flags := []uint8{0x00, 0x10, 0xf0}
				if thorough || op&7 == 0 || op >= 0xc0 || op&7 == 6 {
					flags = allFlags
				}
				if !thorough && !(op&7 == 0) {
					// quick: the full 16-nibble product for one register source per operation; reduced flags for the rest
					if op >= 0xc0 || op&7 == 6 {
						flags = []uint8{0x00, 0x10, 0x20, 0x40, 0x80, 0xf0}
					}
				}
				for _, fl := range flags {
					if !yield(c01Case{Fam: "alu8", Op: op, Flags: []uint8{fl}}) {
						return
					}
				}
			}
			// unary families
			for op := 0; op < 0x40; op++ {
				if op&7 == 4 || op&7 == 5 || op&7 == 7 {
					if !yield(c01Case{Fam: "unary", Op: op}) {
						return
					}
				}
			}
			for op := 256; op < 512; op++ {
				if !yield(c01Case{Fam: "unary", Op: op}) {
					return
				}
			}
			if !yield(c01Case{Fam: "popaf"}) || !yield(c01Case{Fam: "daacsv"}) {
				return
			}
			// 16-bit
			for op := 0x03; op < 0x40; op += 8 {
				for b := 0; b < 16; b++ {
					if !yield(c01Case{Fam: "rp", Op: op, Block: b}) {
						return
					}
				}
			}
			for op := 0x09; op < 0x40; op += 0x10 {
				for b := 0; b <= 16; b++ {
					cs := c01Case{Fam: "rp", Op: op, Block: b}
					if !thorough {
						cs.Flags = []uint8{1} // reduced second-operand set
					}
					if !yield(cs) {
						return
					}
				}
			}
			for _, op := range []int{0xe8, 0xf8} {
				for hi := 0; hi < 256; hi++ {
					if !thorough && hi > 0x11 && hi < 0xee && hi != 0x7f && hi != 0x80 && hi != 0x8f {
						continue
					}
					if !yield(c01Case{Fam: "rp", Op: op, Block: hi}) {
						return
					}
				}
			}
			for op := 0; op < 512; op++ {
				if op < 256 && ref.UndefinedOpcodes[uint8(op)] {
					continue
				}
				if !yield(c01Case{Fam: "sweep", Op: op}) {
					return
				}
			}
		}
		explore.Product(c.R, "single-step", explore.PartOpt{
			Bound:  "one instruction per evaluation; complete products per family (see rule)",
			Domain: "all 245 base + 256 CB opcodes"},
			gen, newCPUEnv, func(l *explore.Local, e *cpuEnv, cs c01Case) *explore.Fail {
				switch cs.Fam {
				case "single":
					_, f := e.single(cs.Single)
					return f
				case "alu8":
					return c01ALU8(l, e, cs)
				case "unary":
					return c01Unary(l, e, cs)
				case "rp":
					return c01RP(l, e, cs)
				case "sweep":
					return c01Sweep(l, e, cs)
				case "popaf":
					return c01PopAF(l, e, cs)
				case "daacsv":
					return c01DAACSV(l, e, cs, c.Repo)
				}
				return explore.Failf("harness: unknown family", "%s", fmt.Sprint(cs.Fam))
			})
		// every ordered pair of opcodes, the second executed right after the first without re-seeding the CPU:
		// what an instruction does must not depend on what ran before it
		pairFlags := []uint8{0x00, 0xf0}
		if c.Thorough() {
			pairFlags = []uint8{0x00, 0x50, 0xa0, 0xf0}
		}
		explore.Product(c.R, "opcode-pairs-effect", explore.PartOpt{Bound: "two instructions, CPU not re-seeded in between; registers, flags and addressed memory compared after each", Domain: fmt.Sprintf("every ordered pair of the 500 executable encodings x flag nibbles %02x", pairFlags)},
			func(yield func(c02Case) bool) {
				for op := 0; op < 512; op++ {
					if op < 256 && (ref.UndefinedOpcodes[uint8(op)] || op == 0xcb) {
						continue
					}
					for _, fl := range pairFlags {
						if !yield(c02Case{Op1: op, Op2: -1, Flags: fl, Effect: true}) {
							return
						}
					}
				}
			}, newCPUEnv, c02Check)
		// stores observed through a location where ANY write has an effect (DIV is cleared): an instruction that must
		// write to its addressed location has to do so even when the value stored equals the value already there
		explore.Product(c.R, "stores-observed-through-DIV", explore.PartOpt{Bound: "single instruction", Domain: "every opcode x 4 pointer placements aiming BC / DE / HL / nn, FF00+n, FF00+C at FF04 x flags {00,F0} x DIV before = {40, FF, 01}"},
			func(yield func(c03Div) bool) {
				for op := 0; op < 512; op++ {
					if op < 256 && (ref.UndefinedOpcodes[uint8(op)] || op == 0xcb || op == 0x76 || op == 0x10) {
						continue
					}
					for _, p := range []uint16{0xff04, 0xff00, 0xfefc, 0xfee4} {
						for _, fl := range []uint8{0x00, 0xf0} {
							for _, cnt := range []uint16{0x4000, 0xff00, 0x0100} {
								if !yield(c03Div{Effect: true, Op: op, Ptr: p, Flags: fl, Counter: cnt}) {
									return
								}
							}
						}
					}
				}
			}, newCPUEnv, c03DivCheck)
	})
}
