package props

import (
	"bytes"
	"context"
	"encoding/binary"
	"hash/fnv"
	"image"
	"io"
	"math"
	"sync"

	"github.com/scottyw/tetromino/gameboy"
	"github.com/scottyw/tetromino/gameboy/controller"
	"github.com/scottyw/tetromino/gameboy/display"
	"github.com/scottyw/tetromino/gameboy/speakers"
	"verifmc/machine"
)

// gbInst is an emulator built by the real gameboy.New (stub display / speakers overlaid).
type gbInst struct {
	gb     *gameboy.Gameboy
	parts  gameboy.VParts
	disp   *display.Display
	spk    *speakers.Speakers
	serial *bytes.Buffer
	m      *machine.M // view on the same components, for Digest
}

var gbNewMu sync.Mutex

func newGB(romPath string, video, audio bool, withSerial bool) *gbInst {
	return newGBCfg(romPath, video, audio, withSerial, false, false)
}

// newGBCfg: also the two debugging options of gameboy.Config (CPU trace to standard output, LCD debug picture).
func newGBCfg(romPath string, video, audio bool, withSerial bool, debugCPU, debugLCD bool) *gbInst {
	gbNewMu.Lock()
	defer gbNewMu.Unlock()
	g := &gbInst{}
	display.NewHook = func(d *display.Display) { g.disp = d }
	speakers.NewHook = func(s *speakers.Speakers) { g.spk = s }
	speakers.ChanCap = 1 << 16
	var w io.Writer
	if withSerial {
		g.serial = &bytes.Buffer{}
		w = g.serial
	}
	g.gb = gameboy.New(gameboy.Config{RomFilename: romPath, DisableVideoOutput: !video, DisableAudioOutput: !audio, SerialWriter: w, DebugCPU: debugCPU, DebugLCD: debugLCD})
	display.NewHook, speakers.NewHook = nil, nil
	g.parts = g.gb.VParts()
	g.m = &machine.M{I: g.parts.Interrupts, A: g.parts.Audio, P: g.parts.PPU, T: g.parts.Timer, C: g.parts.Controller, Map: g.parts.Mapper, CPU: g.parts.CPU, Serial: g.serial}
	if g.spk != nil {
		g.m.L, g.m.R = g.spk.Left(), g.spk.Right()
	}
	return g
}

func (g *gbInst) frame(ctx context.Context) bool { return g.gb.VRunFrame(ctx) }

// refFrame is the documented frame loop: 17,556 machine cycles of CPU; PPU; mapper; APU; timer -> IF.
func (g *gbInst) refFrame() {
	p := g.parts
	for i := 0; i < 17556; i++ {
		p.CPU.ExecuteMachineCycle()
		p.PPU.EndMachineCycle()
		p.Mapper.EndMachineCycle()
		p.Audio.EndMachineCycle()
		if p.Timer.EndMachineCycle() {
			p.Interrupts.RequestTimer()
		}
	}
}

// drainHash empties the sample channels into a hash (count and values).
func (g *gbInst) drainHash() (n int, h uint64) {
	if g.spk == nil {
		return 0, 0
	}
	hh := fnv.New64a()
	var b [4]byte
	for _, ch := range []chan float32{g.spk.Left(), g.spk.Right()} {
		for {
			select {
			case v, ok := <-ch:
				if !ok {
					goto next
				}
				binary.LittleEndian.PutUint32(b[:], math.Float32bits(v))
				hh.Write(b[:])
				n++
				continue
			default:
			}
			break
		}
	next:
	}
	return n, hh.Sum64()
}

// stateHash: registers, all writable regions + ROM-window probes (or the full 64 KiB), frame, serial, cartridge RAM.
func (g *gbInst) stateHash(full bool) uint64 {
	mode := 1
	if full {
		mode = 2
	}
	h := g.m.DigestMode(mode)
	if full {
		h ^= hashBytes(g.parts.Mapper.DumpRAM()) * 31
	}
	r := g.parts.Mapper.VRTCGet()
	h ^= uint64(r.Ticks)*0x9e3779b97f4a7c15 + uint64(r.S)<<8 + uint64(r.M)<<16 + uint64(r.H)<<24 + uint64(r.D)<<32
	a := g.parts.Audio.VGet()
	h ^= a.Ticks*1099511628211 + a.FrameSeqTicks<<50 + uint64(a.LFSR)<<20 + uint64(a.Duty1)<<3 + uint64(a.Duty2)<<6 + uint64(a.WavePos)<<9
	return h
}

func hashBytes(b []byte) uint64 {
	h := fnv.New64a()
	h.Write(b)
	return h.Sum64()
}

// button schedules: (frame, button, pressed)
type btnEv struct {
	Frame   int
	Button  controller.Button
	Pressed bool
}

var btnSchedules = [][]btnEv{
	nil,
	{{3, controller.Start, true}, {5, controller.Start, false}, {9, controller.A, true}, {12, controller.A, false}},
	{{1, controller.Right, true}, {2, controller.Left, true}, {7, controller.Down, true}, {8, controller.Down, false}, {20, controller.B, true}, {21, controller.Select, true}, {40, controller.B, false}},
	{{0, controller.Up, true}, {0, controller.A, true}, {15, controller.Up, false}, {30, controller.A, false}, {31, controller.Start, true}, {33, controller.Start, false}},
}

// onFrame installs a per-frame callback on the stub display.
func (g *gbInst) onFrame(f func(n int, img *image.RGBA) bool) {
	if g.disp != nil {
		g.disp.OnFrame = func(d *display.Display, n int, img *image.RGBA) bool { return f(n, img) }
	}
}

func (g *gbInst) applyButtons(sched []btnEv, frame int) {
	for _, e := range sched {
		if e.Frame == frame {
			g.parts.Controller.ButtonAction(e.Button, e.Pressed)
			g.parts.CPU.OnInput()
		}
	}
}
