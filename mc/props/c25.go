package props

import (
	"fmt"
	"os"
	"os/exec"
	"regexp"
	"strconv"
	"strings"
	"sync"
	"time"

	"verifmc/explore"
	"verifmc/machine"
	"verifmc/ref"
)

// C25 — instance independence. The only property with a genuine interleaving space:
// all interleavings of k instances x n steps each, under every creation order, each
// instance compared after every step with its own solo run at the same step count.

var c25Progs = [][]byte{
	// P0 register-heavy: ALU, CB ops, conditional branches
	machine.Program(map[uint16][]byte{0x100: {
		0x3e, 0x11, // LD A,11
		0x06, 0x03, // LD B,03
		0x80,       // ADD A,B
		0xcb, 0x00, // RLC B
		0x3c,       // INC A
		0x4f,       // LD C,A
		0x91,       // SUB C
		0x20, 0x02, // JR NZ,+2
		0x16, 0x77, // LD D,77
		0x14,       // INC D
		0x27,       // DAA
		0xcb, 0x37, // SWAP A
		0x18, 0xee, // JR -18 (back to ADD A,B)
	}}),
	// P1 memory-heavy: stores, stack, 16-bit pointers
	machine.Program(map[uint16][]byte{0x100: {
		0x21, 0x00, 0xc0, // LD HL,C000
		0x31, 0xf0, 0xdf, // LD SP,DFF0
		0x3e, 0x5a, // LD A,5A
		0x22,       // LD (HL+),A
		0x3c,       // INC A
		0xf5,       // PUSH AF
		0xc1,       // POP BC
		0x70,       // LD (HL),B
		0x34,       // INC (HL)
		0xe0, 0x80, // LDH (80),A
		0xcd, 0x20, 0x01, // CALL 0120
		0x18, 0xf2, // JR back to LD (HL+),A
	}, 0x120: {
		0xcb, 0xc6, // SET 0,(HL)
		0xc9, // RET
	}}),
	// P2 interrupt-heavy: fast timer, EI, HALT, ISR at 0050
	machine.Program(map[uint16][]byte{0x100: {
		0x21, 0x10, 0xc0, // LD HL,C010
		0x3e, 0x04, // LD A,04
		0xe0, 0xff, // LDH (FF),A   IE=timer
		0x3e, 0xfe, // LD A,FE
		0xe0, 0x05, // LDH (05),A   TIMA=FE
		0xe0, 0x06, // LDH (06),A   TMA=FE
		0x3e, 0x05, // LD A,05
		0xe0, 0x07, // LDH (07),A   TAC=enable,16-clock
		0xfb,       // EI
		0x76,       // HALT
		0x04,       // INC B
		0x18, 0xfc, // JR back to HALT
	}, 0x50: {
		0x34, // INC (HL)
		0xd9, // RETI
	}}),
	// P3 cartridge RAM writer: MBC1+RAM, 4 banks; enables RAM and fills it, switching banks
	machine.ProgramCart(0x03, 0x03, map[uint16][]byte{0x100: {
		0x3e, 0x0a, // LD A,0A
		0xea, 0x00, 0x00, // LD (0000),A   RAM enable
		0x3e, 0x42, // LD A,42
		0xea, 0x00, 0xa0, // LD (A000),A
		0x3c,             // INC A
		0xea, 0x01, 0xa0, // LD (A001),A
		0x3e, 0x01, // LD A,01
		0xea, 0x00, 0x60, // LD (6000),A   mode 1
		0xea, 0x00, 0x40, // LD (4000),A   RAM bank 1
		0x3e, 0x99, // LD A,99
		0xea, 0x00, 0xa0, // LD (A000),A
		0x21, 0x02, 0xa0, // LD HL,A002
		0x34,       // INC (HL)
		0x2c,       // INC L
		0x18, 0xfc, // JR back to INC (HL)
	}}),
	// P4 cartridge RAM reader: MBC1+RAM, 1 bank; reads before it writes (a boot counter)
	machine.ProgramCart(0x03, 0x02, map[uint16][]byte{0x100: {
		0x3e, 0x0a, // LD A,0A
		0xea, 0x00, 0x00, // LD (0000),A   RAM enable
		0xfa, 0x00, 0xa0, // LD A,(A000)
		0xea, 0x00, 0xc0, // LD (C000),A
		0x47,             // LD B,A
		0xfa, 0x01, 0xa0, // LD A,(A001)
		0xea, 0x01, 0xc0, // LD (C001),A
		0x3c,             // INC A
		0xea, 0x00, 0xa0, // LD (A000),A
		0x21, 0x10, 0xa0, // LD HL,A010
		0x7e,       // LD A,(HL)
		0x80,       // ADD A,B
		0x22,       // LD (HL+),A
		0x18, 0xfb, // JR back to LD A,(HL)
	}}),
	// P5 MBC2 (built-in 512x4 RAM): read-increment-write
	machine.ProgramCart(0x06, 0x00, map[uint16][]byte{0x100: {
		0x3e, 0x0a, // LD A,0A
		0xea, 0x00, 0x00, // LD (0000),A   RAM enable
		0xfa, 0x00, 0xa0, // LD A,(A000)
		0xea, 0x00, 0xc0, // LD (C000),A
		0x3c,             // INC A
		0xea, 0x00, 0xa0, // LD (A000),A
		0x21, 0x01, 0xa0, // LD HL,A001
		0x34,       // INC (HL)
		0x7e,       // LD A,(HL)
		0x2c,       // INC L
		0x18, 0xfb, // JR back to INC (HL)
	}}),
	// P6 MBC5+RAM, 4 banks: reads, then writes
	machine.ProgramCart(0x1b, 0x03, map[uint16][]byte{0x100: {
		0x3e, 0x0a, // LD A,0A
		0xea, 0x00, 0x00, // LD (0000),A   RAM enable
		0xfa, 0x00, 0xa0, // LD A,(A000)
		0xea, 0x00, 0xc0, // LD (C000),A
		0x3e, 0x77, // LD A,77
		0xea, 0x00, 0xa0, // LD (A000),A
		0x21, 0x01, 0xa0, // LD HL,A001
		0x34,       // INC (HL)
		0x2c,       // INC L
		0x18, 0xfc, // JR back
	}}),
	// P7 sound: power-cycles the APU, programs channel 1's sweep and channels 2-4, logs NR10/NR52 read-backs
	machine.Program(map[uint16][]byte{0x100: {
		0x21, 0x00, 0xc0, // LD HL,C000
		0xaf,       // XOR A
		0xe0, 0x26, // LDH (26),A   sound off
		0x3e, 0x80, // LD A,80
		0xe0, 0x26, // LDH (26),A   sound on
		0x3e, 0x15, // LD A,15
		0xe0, 0x10, // LDH (10),A   sweep period 1, add, shift 5
		0x3e, 0xf0, // LD A,F0
		0xe0, 0x12, // LDH (12),A
		0x3e, 0x00, // LD A,00
		0xe0, 0x13, // LDH (13),A
		0x3e, 0x87, // LD A,87
		0xe0, 0x14, // LDH (14),A   trigger, f=700
		0xf0, 0x10, // LDH A,(10)
		0x22,       // LD (HL+),A
		0xf0, 0x26, // LDH A,(26)
		0x22,       // LD (HL+),A
		0x7d,       // LD A,L
		0xe6, 0x3f, // AND 3F
		0x6f,       // LD L,A
		0x18, 0xf5, // JR back to LDH A,(10)
	}}),
	// P8 sound, different settings (so that state leaking between instances shows): sweep subtracting, other frequency
	machine.Program(map[uint16][]byte{0x100: {
		0x21, 0x00, 0xc0, // LD HL,C000
		0xaf,       // XOR A
		0xe0, 0x26, // LDH (26),A
		0x3e, 0x80, // LD A,80
		0xe0, 0x26, // LDH (26),A
		0x3e, 0x2a, // LD A,2A
		0xe0, 0x10, // LDH (10),A   sweep period 2, subtract, shift 2
		0x3e, 0xa0, // LD A,A0
		0xe0, 0x12, // LDH (12),A
		0x3e, 0x55, // LD A,55
		0xe0, 0x13, // LDH (13),A
		0x3e, 0x85, // LD A,85
		0xe0, 0x14, // LDH (14),A
		0xf0, 0x10, // LDH A,(10)
		0x22,       // LD (HL+),A
		0xf0, 0x26, // LDH A,(26)
		0x22,       // LD (HL+),A
		0x7d,       // LD A,L
		0xe6, 0x3f, // AND 3F
		0x6f,       // LD L,A
		0x18, 0xf5, // JR back
	}}),
	// P9 video/DMA/serial/joypad: LCD off, VRAM and OAM writes, palettes, LCD on, OAM DMA, serial byte, JOYP select
	machine.Program(map[uint16][]byte{0x100: {
		0xaf,       // XOR A
		0xe0, 0x40, // LDH (40),A   LCD off
		0x21, 0x00, 0x80, // LD HL,8000
		0x3e, 0x3c, // LD A,3C
		0x22,             // LD (HL+),A
		0x22,             // LD (HL+),A
		0xea, 0x00, 0xfe, // LD (FE00),A
		0x3e, 0x1b, // LD A,1B
		0xe0, 0x47, // LDH (47),A   BGP
		0x3e, 0x41, // LD A,41
		0xe0, 0x01, // LDH (01),A   serial
		0x3e, 0x10, // LD A,10
		0xe0, 0x00, // LDH (00),A   JOYP select
		0x3e, 0x93, // LD A,93
		0xe0, 0x40, // LDH (40),A   LCD on
		0x3e, 0xc0, // LD A,C0
		0xe0, 0x46, // LDH (46),A   DMA from C000
		0xf0, 0x44, // LDH A,(44)
		0xea, 0x10, 0xc0, // LD (C010),A
		0xf0, 0x00, // LDH A,(00)
		0xea, 0x11, 0xc0, // LD (C011),A
		0x18, 0xf4, // JR back to LDH A,(44)
	}}),
	// P10 executes across the end of echo RAM into object memory with the LCD on: JP FDFF, where FDFF (echo of
	// DDFF) holds C3 and the operand is OAM[0..1] = 0200; 0200 jumps back. The operand fetches are OAM reads at
	// every phase of the line (8-cycle loop against 114-cycle lines), so the OAM-bug emulation's state is exercised.
	machine.Program(map[uint16][]byte{0x100: {
		0xaf,       // XOR A
		0xe0, 0x40, // LDH (40),A   LCD off
		0x21, 0x00, 0xfe, // LD HL,FE00
		0x3e, 0x00, // LD A,00
		0x22,       // LD (HL+),A
		0x3e, 0x02, // LD A,02
		0x22,       // LD (HL+),A
		0x7d,       // LD A,L       fill the rest of OAM with its own low address byte
		0x22,       // LD (HL+),A
		0xfe, 0x9f, // CP 9F
		0x20, 0xfa, // JR NZ,-6
		0x3e, 0xc3, // LD A,C3
		0xea, 0xff, 0xdd, // LD (DDFF),A
		0x3e, 0x93, // LD A,93
		0xe0, 0x40, // LDH (40),A   LCD on
		0xc3, 0xff, 0xfd, // JP FDFF
	}, 0x200: {
		0x04,             // INC B
		0xc3, 0xff, 0xfd, // JP FDFF
	}}),
	// P11 video with other tile data and scroll than P9: the whole background is tile 0, whose first row differs
	// between the two programs, and SCY = 1 puts that row on the last line of this program's picture (and on the
	// first line of P9's), so whatever a renderer remembers from its last tile row meets the other instance's first
	machine.Program(map[uint16][]byte{0x100: {
		0xaf,       // XOR A
		0xe0, 0x40, // LDH (40),A   LCD off
		0x21, 0x00, 0x80, // LD HL,8000
		0x3e, 0xff, // LD A,FF
		0x22,       // LD (HL+),A   tile 0 row 0 = FF 00
		0xaf,       // XOR A
		0x22,       // LD (HL+),A
		0x3e, 0x01, // LD A,01
		0xe0, 0x42, // LDH (42),A   SCY = 1
		0x3e, 0xe4, // LD A,E4
		0xe0, 0x47, // LDH (47),A   BGP
		0x3e, 0x91, // LD A,91
		0xe0, 0x40, // LDH (40),A   LCD on
		0x04,       // INC B
		0x18, 0xfd, // JR -3
	}}),
}

// allOpcodes: a guest that executes every defined opcode (both tables) once per round, with the pointer registers
// re-aimed at work RAM before each one and every control transfer landing on the following instruction. Whatever an
// implementation builds lazily per opcode — a cached micro-op, a closure, a decoded entry — is built during the first
// round of the first instance that runs, and used by every other instance afterwards.
func allOpcodes() []byte {
	const base = 0x150
	var code []byte
	here := func() uint16 { return base + uint16(len(code)) }
	emit := func(b ...byte) { code = append(code, b...) }
	setup := func() {
		emit(0x01, 0x81, 0xc0) // LD BC,C081
		emit(0x11, 0x82, 0xc0) // LD DE,C082
		emit(0x21, 0x80, 0xc0) // LD HL,C080
		emit(0x31, 0xf0, 0xdf) // LD SP,DFF0
	}
	// after every opcode A and F are stored in a log slot of their own (D000 + 2 x index), so that a wrong result or
	// flag is still there at the end of the frame
	slot := uint16(0xd000)
	log := func() {
		slot += 2
		emit(0x31, byte(slot), byte(slot>>8), 0xf5) // LD SP,slot+2; PUSH AF
	}
	for op := 0; op < 256; op++ {
		o := byte(op)
		if ref.UndefinedOpcodes[o] || o == 0x10 || o == 0x76 || o == 0xcb {
			continue
		}
		if op > 0 {
			log()
		}
		setup()
		switch {
		case o == 0x18 || o == 0x20 || o == 0x28 || o == 0x30 || o == 0x38: // JR
			emit(o, 0x00)
		case o == 0xc3 || o == 0xc2 || o == 0xca || o == 0xd2 || o == 0xda: // JP nn
			t := here() + 3
			emit(o, byte(t), byte(t>>8))
		case o == 0xe9: // JP (HL)
			t := here() + 4
			emit(0x21, byte(t), byte(t>>8), o)
		case o == 0xcd || o == 0xc4 || o == 0xcc || o == 0xd4 || o == 0xdc: // CALL -> RET stub at 0000
			emit(o, 0x00, 0x00)
		case o&0xc7 == 0xc7: // RST -> RET stub
			emit(o)
		case o == 0xc9 || o == 0xd9 || o == 0xc0 || o == 0xc8 || o == 0xd0 || o == 0xd8: // RET, RETI, RET cc
			t := here() + 6 // LD DE,t (3) PUSH DE (1) RET (1) POP DE (1)
			emit(0x11, byte(t), byte(t>>8), 0xd5, o, 0xd1)
			if o == 0xd9 {
				emit(0xf3) // DI after RETI
			}
		default:
			emit(o)
			switch c25OpLen(o) {
			case 2:
				if o == 0xe0 || o == 0xf0 {
					emit(0x80)
				} else if o == 0xe8 || o == 0xf8 {
					emit(0x01)
				} else {
					emit(0x5a)
				}
			case 3:
				emit(0xa4, 0xc0)
			}
			if o == 0xfb {
				emit(0xf3) // DI after EI
			}
		}
	}
	for op := 0; op < 256; op++ {
		log()
		setup()
		emit(0xcb, byte(op))
	}
	log()
	emit(0xc3, byte(base&0xff), byte(base>>8))
	chunks := map[uint16][]byte{0x100: {0xf3, 0xc3, byte(base & 0xff), byte(base >> 8)}, base: code}
	for v := uint16(0); v < 0x40; v += 8 {
		chunks[v] = []byte{0xc9}
	}
	return machine.Program(chunks)
}

// c25OpLen: length in bytes of an unprefixed opcode (immediate operands).
func c25OpLen(o byte) int {
	switch {
	case o == 0x01 || o == 0x11 || o == 0x21 || o == 0x31 || o == 0x08 || o == 0xea || o == 0xfa:
		return 3
	case o&0xc7 == 0x06 || o&0xc7 == 0xc6 || o == 0xe0 || o == 0xf0 || o == 0xe8 || o == 0xf8:
		return 2
	}
	return 1
}

func init() { c25Progs = append(c25Progs, allOpcodes()) } // P12

// P13: MBC3+RAM, 4 banks: reads, then writes (P6's program on the fourth controller type)
func init() {
	c25Progs = append(c25Progs, machine.ProgramCart(0x13, 0x03, map[uint16][]byte{0x100: {
		0x3e, 0x0a, 0xea, 0x00, 0x00, // RAM enable
		0x3e, 0x02, 0xea, 0x00, 0x40, // RAM bank 2
		0xfa, 0x00, 0xa0, 0xea, 0x00, 0xc0, // LD A,(A000); LD (C000),A
		0x3e, 0x66, 0xea, 0x00, 0xa0, // LD (A000),66
		0x21, 0x01, 0xa0, 0x34, 0x2c, 0x18, 0xfc, // LD HL,A001; INC (HL); INC L; JR -4
	}}))
}

// c25AllOpcodesCovered runs P12 alone and counts the distinct opcodes fetched in 2.5 rounds: the guest must really get
// through all of them (a harness self-check; it says nothing about the emulator).
func c25AllOpcodesCovered() int {
	m := machine.New(c25Progs[12], machine.Opts{})
	seen := map[int]bool{}
	for i := 0; i < 32000; i++ {
		if m.CPU.VAtBoundary() {
			pc := m.CPU.VGet().PC
			if op := m.Map.Read(pc); op == 0xcb {
				seen[256+int(m.Map.Read(pc+1))] = true
			} else {
				seen[int(op)] = true
			}
		}
		m.Cycle()
	}
	return len(seen)
}

// P14 / P15: MBC1 cartridges of different ROM sizes (8 and 4 pages, every page signed): each selects its higher banks and
// stores the signature it finds at 4001 in work RAM. P16 / P17: MBC3+TIMER cartridges: P16 keeps rewriting the live
// seconds register and writes a LONE 01 to the latch port (never 00: nothing may be latched), then logs the latched
// seconds; P17 keeps writing 00, 01 pairs. What one cartridge's registers hold must mean nothing to another's.
func bankedGuest(cartType uint8, romCode uint8, pages int, banks []uint8) []byte {
	img := machine.Image(cartType, romCode, 2, pages)
	code := []byte{0x21, 0x00, 0xc0} // LD HL,C000
	for _, b := range banks {
		code = append(code, 0x3e, b, 0xea, 0x00, 0x20, 0xfa, 0x01, 0x40, 0x22) // LD A,b; LD (2000),A; LD A,(4001); LD (HL+),A
	}
	code = append(code, 0x7d, 0xe6, 0x3f, 0x6f) // L &= 3F
	back := -(len(code) - 3 + 2)
	code = append(code, 0x18, byte(back))
	copy(img[0x100:], []byte{0xc3, 0x50, 0x01})
	copy(img[0x150:], code)
	return img
}

func init() {
	c25Progs = append(c25Progs,
		bankedGuest(0x01, 2, 8, []uint8{5, 6, 7, 4, 1}), // P14
		bankedGuest(0x01, 1, 4, []uint8{3, 2, 1, 3, 2}), // P15
		machine.ProgramCart(0x10, 0x02, map[uint16][]byte{0x100: { // P16
			0x3e, 0x0a, 0xea, 0x00, 0x00, // RAM enable
			0x21, 0x00, 0xc0, // LD HL,C000
			0x3e, 0x08, 0xea, 0x00, 0x40, // select seconds
			0x04, 0x78, 0xe6, 0x1f, 0xea, 0x00, 0xa0, // INC B; LD A,B; AND 1F; LD (A000),A   live seconds
			0x3e, 0x01, 0xea, 0x00, 0x60, // lone 01 to the latch port
			0xfa, 0x00, 0xa0, 0x22, // LD A,(A000); LD (HL+),A   latched seconds
			0x7d, 0xe6, 0x3f, 0x6f, // L &= 3F
			0x18, 0xea, // JR back to INC B
		}}),
		machine.ProgramCart(0x10, 0x02, map[uint16][]byte{0x100: { // P17
			0x3e, 0x0a, 0xea, 0x00, 0x00,
			0xaf, 0xea, 0x00, 0x60, // 00 to the latch port
			0x00, 0x00, 0x00, 0x00, 0x00, 0x00,
			0x3c, 0xea, 0x00, 0x60, // 01
			0x18, 0xf0, // JR back to XOR A
		}}),
		// P18: P14's cartridge with a byte-identical header (0100-014F) and another program: what the emulator keeps
		// about one image must not be taken for another's because their headers agree
		bankedGuest(0x01, 2, 8, []uint8{2, 3, 1, 7, 6}),
		// P19 / P20: wave RAM as plain memory: channel 3's DAC off, sixteen bytes written from a running counter (starting
		// at 11 / A7), read back into work RAM, again and again: what one instance keeps in FF30-FF3F is its own
		waveGuest(0x11), waveGuest(0xa7))
}

func waveGuest(seed uint8) []byte {
	return machine.Program(map[uint16][]byte{0x100: {0xc3, 0x50, 0x01}, 0x150: {
		0x3e, 0x80, 0xe0, 0x26, 0xaf, 0xe0, 0x1a, 0x06, seed, // sound on, NR30 = 00, LD B,seed
		0x21, 0x30, 0xff, 0x0e, 0x10, // loop: LD HL,FF30; LD C,10
		0x78, 0x22, 0x04, 0x0d, 0x20, 0xfa, // LD A,B; LD (HL+),A; INC B; DEC C; JR NZ,-6
		0x21, 0x30, 0xff, 0x11, 0x00, 0xc0, 0x0e, 0x10, // LD HL,FF30; LD DE,C000; LD C,10
		0x2a, 0x12, 0x13, 0x0d, 0x20, 0xfa, // LD A,(HL+); LD (DE),A; INC DE; DEC C; JR NZ,-6
		0x18, 0xe5, // JR loop
	}})
}

type c25Case struct {
	// Cfg: per instance, the emulator's debug options (Config.DebugCPU = bit 0, Config.DebugLCD = bit 1); nil = none.
	// An instance is compared with a solo run built with the same options; an instance built without the
	// CPU trace must not write to the process's standard output whatever other instances exist.
	Cfg      []int `json:"cfg,omitempty"`
	Progs    []int `json:"progs"`    // program index per instance
	Unit     int   `json:"unit"`     // machine cycles per step
	Schedule []int `json:"schedule"` // instance index per step
	Create   int   `json:"create"`   // 0: all first; 1: each instance created just before its first step; 2: as 0 plus an extra instance created mid-run and never stepped
}

type c25Env struct {
	solo    map[string][]uint64 // prog/unit -> digest after k steps
	out     *os.File            // the process's standard output while the part runs (nil: not captured)
	exe     string              // this binary (solo runs are made in fresh processes)
	soloErr error
}

// outSize: bytes written to standard output so far in this case.
func (e *c25Env) outSize() int64 {
	if e.out == nil {
		return 0
	}
	st, err := e.out.Stat()
	if err != nil {
		return 0
	}
	return st.Size()
}

func c25Opts(cfg int) machine.Opts {
	return machine.Opts{DebugCPU: cfg&1 != 0, DebugLCD: cfg&2 != 0}
}

func (c c25Case) cfg(i int) int {
	if i < len(c.Cfg) {
		return c.Cfg[i]
	}
	return 0
}

func (e *c25Env) soloDigests(prog, cfg, unit, n int) []uint64 {
	k := fmt.Sprintf("%d/%d/%d/%d", prog, cfg, unit, n)
	if d, ok := e.solo[k]; ok {
		return d
	}
	// the solo run is taken in a process of its own, where the instance really is the only one that ever existed:
	// state that a defect binds to the FIRST instance of a process makes every later instance wrong in the same way,
	// so an in-process "solo" run would be just as wrong as the instances it is compared with
	if e.exe != "" {
		out, err := exec.Command(e.exe, "worker", "c25solo", fmt.Sprint(prog), fmt.Sprint(cfg), fmt.Sprint(unit), fmt.Sprint(n)).Output()
		if err == nil {
			var ds []uint64
			for _, f := range strings.Fields(string(out)) {
				if v, err := strconv.ParseUint(f, 16, 64); err == nil {
					ds = append(ds, v)
				}
			}
			if len(ds) == n+2 {
				e.solo[k] = ds
				return ds
			}
		}
		e.soloErr = fmt.Errorf("solo worker for program %d: %v (%d digests)", prog, err, len(strings.Fields(string(out))))
	}
	ds := c25Solo(prog, cfg, unit, n)
	e.solo[k] = ds
	return ds
}

func c25Solo(prog, cfg, unit, n int) []uint64 {
	m := machine.New(c25Progs[prog], c25Opts(cfg))
	ds := []uint64{m.Digest(false)}
	for i := 0; i < n; i++ {
		for c := 0; c < unit; c++ {
			m.Cycle()
		}
		ds = append(ds, m.Digest(false))
	}
	return append(ds, m.DigestMode(1))
}

func c25SoloWorker(args []string) int {
	var v [4]int
	if len(args) != 4 {
		return 2
	}
	for i := range v {
		v[i], _ = strconv.Atoi(args[i])
	}
	// a traced instance prints to standard output: the digests go to standard error's sibling, fd 3 is not
	// available, so the trace is silenced and only the digests are printed
	var ds []uint64
	quietStdout(func() { ds = c25Solo(v[0], v[1], v[2], v[3]) })
	for _, d := range ds {
		fmt.Printf("%016x\n", d)
	}
	return 0
}

func c25Check(l *explore.Local, e *c25Env, c c25Case) *explore.Fail {
	n := len(c.Progs)
	per := make([]int, n)
	for _, i := range c.Schedule {
		per[i]++
	}
	solo := make([][]uint64, n)
	for i := range solo {
		solo[i] = e.soloDigests(c.Progs[i], c.cfg(i), c.Unit, per[i])
	}
	if e.soloErr != nil {
		return explore.Failf("harness: the solo run in a separate process failed", "%v", e.soloErr)
	}
	if e.out != nil {
		e.out.Truncate(0)
		e.out.Seek(0, 0)
	}
	ms := make([]*machine.M, n)
	if c.Create != 1 {
		for i := range ms {
			ms[i] = machine.New(c25Progs[c.Progs[i]], c25Opts(c.cfg(i)))
		}
	}
	done := make([]int, n)
	for si, i := range c.Schedule {
		if ms[i] == nil {
			ms[i] = machine.New(c25Progs[c.Progs[i]], c25Opts(c.cfg(i)))
		}
		if c.Create == 2 && si == len(c.Schedule)/2 {
			// created mid-run, never stepped; when configurations are mixed it is built with every debug option
			extra := 0
			if len(c.Cfg) > 0 {
				extra = 3
			}
			_ = machine.New(c25Progs[(c.Progs[0]+1)%len(c25Progs)], c25Opts(extra))
		}
		before := e.outSize()
		for k := 0; k < c.Unit; k++ {
			ms[i].Cycle()
		}
		if c.cfg(i)&1 == 0 && e.outSize() != before {
			return explore.Failf("instance-without-the-trace-option-writes-to-stdout", "schedule step %d: instance %d (program %d, built without DebugCPU) wrote %d bytes to standard output while other instances with options %v exist",
				si, i, c.Progs[i], e.outSize()-before, c.Cfg)
		}
		done[i]++
		l.Trans(1)
		for j := range ms {
			if ms[j] == nil {
				continue
			}
			if got := ms[j].Digest(false); got != solo[j][done[j]] {
				who := "the stepped instance diverges from its solo run"
				sig := "stepped-instance-differs-from-solo"
				if j != i {
					who = "an instance that was not stepped changed"
					sig = "unstepped-instance-changed"
				}
				return explore.Failf(sig, "%s: schedule step %d (instance %d stepped, unit %d cycles): instance %d (program %d) after %d of its steps has registers %+v",
					who, si, i, c.Unit, j, c.Progs[j], done[j], ms[j].CPU.VGet())
			}
		}
	}
	for j := range ms {
		if ms[j] == nil {
			continue
		}
		if got := ms[j].DigestMode(1); got != solo[j][per[j]+1] {
			return explore.Failf("final-full-state-differs-from-solo", "instance %d (program %d): reads of every writable region and the frame differ from the solo run after %d steps", j, c.Progs[j], per[j])
		}
		l.Outcome(solo[j][per[j]+1] ^ uint64(j)*0x9e3779b97f4a7c15)
	}
	l.Eval(1)
	return nil
}

// ---- free-running pass under the race detector ------------------------------------------------
// A cooperative enumeration in one goroutine cannot see memory-model-level races between instances that
// really run in parallel, and the race detector sees nothing under a cooperative schedule (hand-offs are
// happens-before edges). So the same instance bodies are also run free, one goroutine each, in a separate
// binary built with -race; any report names two goroutines touching the same variable, i.e. state shared
// between instances. This pass is supporting evidence (one free-running execution per run, not an enumeration).

func c25RaceWorker(args []string) int {
	var wg sync.WaitGroup
	for i := 0; i < 8; i++ {
		wg.Add(1)
		go func(i int) {
			defer wg.Done()
			for round := 0; round < 3; round++ { // instances are also created while others run
				m := machine.New(c25Progs[(i+round)%len(c25Progs)], machine.Opts{Audio: i%2 == 0, ChanCap: 1 << 14})
				for c := 0; c < 17556+4000; c++ {
					m.Cycle()
				}
				_ = m.DigestMode(1)
			}
		}(i)
	}
	wg.Wait()
	fmt.Println("c25race: done")
	return 0
}

var raceSiteRe = regexp.MustCompile(`(?m)^  (github\.com/scottyw/tetromino/[^\s(]+)`)

// c25RacePass runs the worker in the -race binary (built by ./check next to vmc) and reports data races.
func c25RacePass(c *Ctx) {
	if c.R == nil {
		return
	}
	exe := c.SelfExe + "-race"
	if _, err := os.Stat(exe); err != nil {
		c.R.Extra("race_pass", "skipped: no -race binary ("+err.Error()+")")
		return
	}
	t0 := time.Now()
	cmd := exec.Command(exe, "worker", "c25race")
	cmd.Env = append(os.Environ(), "GORACE=halt_on_error=0 exitcode=66", "GOMAXPROCS=8")
	out, err := cmd.CombinedOutput()
	text := string(out)
	n := strings.Count(text, "WARNING: DATA RACE")
	if n == 0 && !strings.Contains(text, "c25race: done") {
		c.R.HarnessError("race pass: worker did not finish: %v: %s", err, tail(text, 600))
		return
	}
	c.R.Extra("race_pass", fmt.Sprintf("supporting evidence, not an enumeration: one free-running execution of 8 goroutines x 3 instances each (created while others run), 21,556 machine cycles per instance, under the Go race detector: %d data race report(s), %.1f s", n, time.Since(t0).Seconds()))
	if n > 0 {
		site := "unknown"
		if m := raceSiteRe.FindStringSubmatch(text); m != nil {
			site = m[1]
		}
		c.R.Violate("free-running-race-pass", explore.Failf("data race between emulator instances running in parallel: "+site, "%d race report(s); first:\n%s", n, tail(text[strings.Index(text, "WARNING: DATA RACE"):], 1800)), map[string]string{"worker": "c25race"})
	}
}

func tail(s string, n int) string {
	if len(s) > n {
		return s[:n]
	}
	return s
}

// interleavings enumerates every sequence over n instances with exactly k steps each.
func interleavings(n, k int, yield func([]int) bool) {
	left := make([]int, n)
	for i := range left {
		left[i] = k
	}
	seq := make([]int, 0, n*k)
	var rec func() bool
	rec = func() bool {
		if len(seq) == n*k {
			return yield(append([]int(nil), seq...))
		}
		for i := 0; i < n; i++ {
			if left[i] > 0 {
				left[i]--
				seq = append(seq, i)
				if !rec() {
					return false
				}
				seq = seq[:len(seq)-1]
				left[i]++
			}
		}
		return true
	}
	rec()
}

func init() {
	Workers["c25race"] = c25RaceWorker
	Workers["c25solo"] = c25SoloWorker
	register("C25", "model_checking", func(c *Ctx) {
		if c.R != nil {
			c.R.Rule = "every interleaving of k emulator instances x n steps each (quick: 2 x 4 and 3 x 2; thorough: 2 x 6 and 3 x 3 for every pair / triple, 2 x 8 for four key pairs; step = 1, 7, 61 or 17556 machine cycles), under 3 creation orders; after every step every live instance's digest (registers + selected reads; all writable regions + ROM-window probes + frame at the end) must equal its solo run at the same step count, the solo run being made in a process of its own (where the instance is the only one that ever existed); a case is one complete schedule"
			c.R.Assumptions = []string{"instances are wired like gameboy.New (machine.New; C26 checks the wiring equivalence)", "explored in one goroutine so that a shared-state defect fails deterministically; true parallel execution is covered by a separate free-running pass of the same bodies under the Go race detector (supporting evidence)"}
		}
		type shape struct{ n, k int }
		shapes := []shape{{2, 4}, {3, 2}}
		units := []int{1, 7}
		if c.Thorough() {
			shapes = []shape{{2, 6}, {3, 3}} // (2 x 8 steps for four key pairs below)
			units = []int{1, 7, 61}
		}
		gen := func(yield func(c25Case) bool) {
			progSets2 := [][]int{{19, 20}, {0, 1}, {1, 2}, {2, 0}, {2, 2}, {3, 4}, {4, 3}, {4, 4}, {5, 5}, {3, 6}, {6, 4}, {7, 8}, {8, 7}, {7, 7}, {9, 9}, {9, 2}, {13, 13}, {13, 6}, {3, 13}}
			progSets3 := [][]int{{0, 1, 2}, {2, 1, 0}, {3, 5, 4}, {7, 9, 8}}
			for _, sh := range shapes {
				sets := progSets2
				if sh.n == 3 {
					sets = progSets3
				}
				for _, ps := range sets {
					for _, u := range units {
						for cr := 0; cr < 3; cr++ {
							ok := true
							interleavings(sh.n, sh.k, func(s []int) bool {
								ok = yield(c25Case{Progs: ps, Unit: u, Schedule: s, Create: cr})
								return ok
							})
							if !ok {
								return
							}
						}
					}
				}
			}
			if c.Thorough() {
				// the deepest shape for four key pairs: 12,870 interleavings each of 2 instances x 8 steps
				for _, ps := range [][]int{{0, 1}, {3, 4}, {7, 8}, {9, 2}} {
					for cr := 0; cr < 3; cr++ {
						ok := true
						interleavings(2, 8, func(s []int) bool {
							ok = yield(c25Case{Progs: ps, Unit: 7, Schedule: s, Create: cr})
							return ok
						})
						if !ok {
							return
						}
					}
				}
			}
			// mixed configurations: instances built with different debug options next to each other
			for _, mc := range []struct{ ps, cfg []int }{{[]int{1, 2}, []int{0, 1}}, {[]int{2, 1}, []int{1, 0}}, {[]int{9, 9}, []int{0, 2}}, {[]int{9, 2}, []int{2, 1}}, {[]int{10, 0}, []int{0, 3}}} {
				for _, u := range units {
					for cr := 0; cr < 3; cr++ {
						ok := true
						interleavings(2, shapes[0].k, func(s []int) bool {
							ok = yield(c25Case{Progs: mc.ps, Cfg: mc.cfg, Unit: u, Schedule: s, Create: cr})
							return ok
						})
						if !ok {
							return
						}
					}
				}
			}
			// the same at frame-sized steps (2 instances x 2 frames); P10 needs a frame to reach the LCD-on loop
			for _, mc := range []struct{ ps, cfg []int }{{[]int{10, 0}, []int{0, 1}}, {[]int{10, 10}, []int{0, 3}}, {[]int{9, 10}, []int{2, 0}}, {[]int{10, 9}, nil}, {[]int{9, 11}, nil}, {[]int{11, 9}, nil}, {[]int{11, 10}, nil}, {[]int{12, 12}, nil}, {[]int{12, 1}, nil}, {[]int{0, 12}, nil}, {[]int{14, 15}, nil}, {[]int{15, 14}, nil}, {[]int{14, 18}, nil}, {[]int{18, 14}, nil}, {[]int{19, 20}, nil}, {[]int{20, 19}, nil}, {[]int{16, 17}, nil}, {[]int{17, 16}, nil}, {[]int{16, 16}, nil}} {
				for cr := 0; cr < 3; cr++ {
					ok := true
					interleavings(2, 2, func(s []int) bool {
						ok = yield(c25Case{Progs: mc.ps, Cfg: mc.cfg, Unit: 17556, Schedule: s, Create: cr})
						return ok
					})
					if !ok {
						return
					}
				}
			}
			// frame-sized steps: 2 instances x 3 frames, 3 x 2
			for _, sh := range []shape{{2, 3}, {3, 2}, {2, 4}} {
				ps := []int{2, 1, 0}[:min(sh.n, 3)]
				if sh.k == 4 {
					ps = []int{7, 8} // the sweep unit needs a few frames to act
				}
				for cr := 0; cr < 3; cr++ {
					ok := true
					interleavings(sh.n, sh.k, func(s []int) bool {
						ok = yield(c25Case{Progs: ps, Unit: 17556, Schedule: s, Create: cr})
						return ok
					})
					if !ok {
						return
					}
				}
			}
		}
		if n := c25AllOpcodesCovered(); n < 498 && c.R != nil {
			c.R.HarnessError("the all-opcodes guest executes only %d of 498 opcodes", n)
		}
		c25GBPart(c) // first: the long enumeration below may use up the tier's time budget
		// the CPU trace of instances built with DebugCPU goes to os.Stdout: capture it in a scratch file for the part
		var capture *os.File
		oldStdout := os.Stdout
		if f, err := os.CreateTemp(c.Scratch, "c25-stdout-*"); err == nil {
			capture, os.Stdout = f, f
			defer func() { os.Stdout = oldStdout; f.Close(); os.Remove(f.Name()) }()
		}
		explore.Product(c.R, "interleavings", explore.PartOpt{Workers: 1, Guard: true, SameSig: true,
			Bound:  fmt.Sprintf("all interleavings of shapes %v (instances x steps), units %v cycles + frame steps 2x3, 3x2; 3 creation orders", shapes, units),
			Domain: "instances built with and without the debug options (CPU trace, debug LCD geometry) side by side; 21 guest programs (two that use wave RAM as plain memory with different contents; two MBC1 cartridges with byte-identical headers and different code; MBC1 cartridges of different ROM sizes selecting their higher banks; two MBC3 clock cartridges interleaving their latch-port writes; cartridge RAM on MBC3; a guest executing every defined opcode once per round; a second video program with other tile data and scroll; execution across echo RAM into object memory with the LCD on; ALU/CB/branches; stores/stack/CALL; timer interrupt + HALT; cartridge RAM writer on MBC1 with 4 banks; cartridge RAM read-before-write on MBC1 with 1 bank, on MBC2 and on MBC5; two sound programs that power-cycle the APU and run different channel-1 sweeps; video + OAM DMA + serial + joypad select)"},
			gen, func() *c25Env { return &c25Env{solo: map[string][]uint64{}, out: capture, exe: c.SelfExe} }, c25Check)
		os.Stdout = oldStdout
		c25RacePass(c)
	})
}
