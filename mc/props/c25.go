package props

import (
	"fmt"

	"verifmc/explore"
	"verifmc/machine"
)

// C25 — instance independence. The only property with a genuine interleaving space:
// all interleavings of k instances x n steps each, under every creation order, each
// instance compared after every step with its own solo run at the same step count.

var c25Progs = [][]byte{
	// P0 register-heavy: ALU, CB ops, conditional branches
	machine.Program(map[uint16][]byte{0x100: {
		0x3e, 0x11, // LD A,11
		0x06, 0x03, // LD B,03
		0x80,       // ADD A,B
		0xcb, 0x00, // RLC B
		0x3c,       // INC A
		0x4f,       // LD C,A
		0x91,       // SUB C
		0x20, 0x02, // JR NZ,+2
		0x16, 0x77, // LD D,77
		0x14,       // INC D
		0x27,       // DAA
		0xcb, 0x37, // SWAP A
		0x18, 0xee, // JR -18 (back to ADD A,B)
	}}),
	// P1 memory-heavy: stores, stack, 16-bit pointers
	machine.Program(map[uint16][]byte{0x100: {
		0x21, 0x00, 0xc0, // LD HL,C000
		0x31, 0xf0, 0xdf, // LD SP,DFF0
		0x3e, 0x5a, // LD A,5A
		0x22,       // LD (HL+),A
		0x3c,       // INC A
		0xf5,       // PUSH AF
		0xc1,       // POP BC
		0x70,       // LD (HL),B
		0x34,       // INC (HL)
		0xe0, 0x80, // LDH (80),A
		0xcd, 0x20, 0x01, // CALL 0120
		0x18, 0xf2, // JR back to LD (HL+),A
	}, 0x120: {
		0xcb, 0xc6, // SET 0,(HL)
		0xc9, // RET
	}}),
	// P2 interrupt-heavy: fast timer, EI, HALT, ISR at 0050
	machine.Program(map[uint16][]byte{0x100: {
		0x21, 0x10, 0xc0, // LD HL,C010
		0x3e, 0x04, // LD A,04
		0xe0, 0xff, // LDH (FF),A   IE=timer
		0x3e, 0xfe, // LD A,FE
		0xe0, 0x05, // LDH (05),A   TIMA=FE
		0xe0, 0x06, // LDH (06),A   TMA=FE
		0x3e, 0x05, // LD A,05
		0xe0, 0x07, // LDH (07),A   TAC=enable,16-clock
		0xfb,       // EI
		0x76,       // HALT
		0x04,       // INC B
		0x18, 0xfc, // JR back to HALT
	}, 0x50: {
		0x34, // INC (HL)
		0xd9, // RETI
	}}),
}

type c25Case struct {
	Progs    []int `json:"progs"`    // program index per instance
	Unit     int   `json:"unit"`     // machine cycles per step
	Schedule []int `json:"schedule"` // instance index per step
	Create   int   `json:"create"`   // 0: all first; 1: each instance created just before its first step; 2: as 0 plus an extra instance created mid-run and never stepped
}

type c25Env struct {
	solo map[string][]uint64 // prog/unit -> digest after k steps
}

func (e *c25Env) soloDigests(prog, unit, n int) []uint64 {
	k := fmt.Sprintf("%d/%d/%d", prog, unit, n)
	if d, ok := e.solo[k]; ok {
		return d
	}
	// the solo run is taken in a process state where this is the only live instance being stepped
	m := machine.New(c25Progs[prog], machine.Opts{})
	ds := []uint64{m.Digest(false)}
	for i := 0; i < n; i++ {
		for c := 0; c < unit; c++ {
			m.Cycle()
		}
		ds = append(ds, m.Digest(false))
	}
	ds = append(ds, m.DigestMode(1))
	e.solo[k] = ds
	return ds
}

func c25Check(l *explore.Local, e *c25Env, c c25Case) *explore.Fail {
	n := len(c.Progs)
	per := make([]int, n)
	for _, i := range c.Schedule {
		per[i]++
	}
	solo := make([][]uint64, n)
	for i := range solo {
		solo[i] = e.soloDigests(c.Progs[i], c.Unit, per[i])
	}
	ms := make([]*machine.M, n)
	if c.Create != 1 {
		for i := range ms {
			ms[i] = machine.New(c25Progs[c.Progs[i]], machine.Opts{})
		}
	}
	done := make([]int, n)
	for si, i := range c.Schedule {
		if ms[i] == nil {
			ms[i] = machine.New(c25Progs[c.Progs[i]], machine.Opts{})
		}
		if c.Create == 2 && si == len(c.Schedule)/2 {
			_ = machine.New(c25Progs[(c.Progs[0]+1)%len(c25Progs)], machine.Opts{}) // created mid-run, never stepped
		}
		for k := 0; k < c.Unit; k++ {
			ms[i].Cycle()
		}
		done[i]++
		l.Trans(1)
		for j := range ms {
			if ms[j] == nil {
				continue
			}
			if got := ms[j].Digest(false); got != solo[j][done[j]] {
				who := "the stepped instance diverges from its solo run"
				sig := "stepped-instance-differs-from-solo"
				if j != i {
					who = "an instance that was not stepped changed"
					sig = "unstepped-instance-changed"
				}
				return explore.Failf(sig, "%s: schedule step %d (instance %d stepped, unit %d cycles): instance %d (program %d) after %d of its steps has registers %+v",
					who, si, i, c.Unit, j, c.Progs[j], done[j], ms[j].CPU.VGet())
			}
		}
	}
	for j := range ms {
		if ms[j] == nil {
			continue
		}
		if got := ms[j].DigestMode(1); got != solo[j][per[j]+1] {
			return explore.Failf("final-full-state-differs-from-solo", "instance %d (program %d): reads of every writable region and the frame differ from the solo run after %d steps", j, c.Progs[j], per[j])
		}
		l.Outcome(solo[j][per[j]+1] ^ uint64(j)*0x9e3779b97f4a7c15)
	}
	l.Eval(1)
	return nil
}

// interleavings enumerates every sequence over n instances with exactly k steps each.
func interleavings(n, k int, yield func([]int) bool) {
	left := make([]int, n)
	for i := range left {
		left[i] = k
	}
	seq := make([]int, 0, n*k)
	var rec func() bool
	rec = func() bool {
		if len(seq) == n*k {
			return yield(append([]int(nil), seq...))
		}
		for i := 0; i < n; i++ {
			if left[i] > 0 {
				left[i]--
				seq = append(seq, i)
				if !rec() {
					return false
				}
				seq = seq[:len(seq)-1]
				left[i]++
			}
		}
		return true
	}
	rec()
}

func init() {
	register("C25", "model_checking", func(c *Ctx) {
		if c.R != nil {
			c.R.Rule = "every interleaving of k emulator instances x n steps each (step = 1, 7 or 17556 machine cycles), under 3 creation orders; after every step every live instance's digest (registers + selected reads; all writable regions + ROM-window probes + frame at the end) must equal its solo run at the same step count; a case is one complete schedule"
			c.R.Assumptions = []string{"instances are wired like gameboy.New (machine.New; C26 checks the wiring equivalence)", "explored in one goroutine so that a shared-state defect fails deterministically; true parallel execution is covered by a separate free-running pass (thorough)"}
		}
		type shape struct{ n, k int }
		shapes := []shape{{2, 5}, {3, 2}}
		units := []int{1, 7}
		if c.Thorough() {
			shapes = []shape{{2, 8}, {3, 4}}
			units = []int{1, 7, 61}
		}
		gen := func(yield func(c25Case) bool) {
			progSets2 := [][]int{{0, 1}, {1, 2}, {2, 0}, {2, 2}}
			progSets3 := [][]int{{0, 1, 2}, {2, 1, 0}}
			for _, sh := range shapes {
				sets := progSets2
				if sh.n == 3 {
					sets = progSets3
				}
				for _, ps := range sets {
					for _, u := range units {
						for cr := 0; cr < 3; cr++ {
							ok := true
							interleavings(sh.n, sh.k, func(s []int) bool {
								ok = yield(c25Case{Progs: ps, Unit: u, Schedule: s, Create: cr})
								return ok
							})
							if !ok {
								return
							}
						}
					}
				}
			}
			// frame-sized steps: 2 instances x 3 frames, 3 x 2
			for _, sh := range []shape{{2, 3}, {3, 2}} {
				ps := []int{2, 1, 0}[:sh.n]
				for cr := 0; cr < 3; cr++ {
					ok := true
					interleavings(sh.n, sh.k, func(s []int) bool {
						ok = yield(c25Case{Progs: ps, Unit: 17556, Schedule: s, Create: cr})
						return ok
					})
					if !ok {
						return
					}
				}
			}
		}
		explore.Product(c.R, "interleavings", explore.PartOpt{Workers: 1, Guard: true,
			Bound:  fmt.Sprintf("all interleavings of shapes %v (instances x steps), units %v cycles + frame steps 2x3, 3x2; 3 creation orders", shapes, units),
			Domain: "3 guest programs (ALU/CB/branches; stores/stack/CALL; timer interrupt + HALT)"},
			gen, func() *c25Env { return &c25Env{solo: map[string][]uint64{}} }, c25Check)
	})
}
