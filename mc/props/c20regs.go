package props

import (
	"fmt"

	"verifmc/explore"
	"verifmc/machine"
)

// C20, independence under every register write of an unrouted channel: only channel Obs is routed (both sides);
// channel Other plays unrouted with its length counter at 1 and length counting off. The paired runs differ in one
// write to one of Other's five registers (eight values), made in the first or in the second half of a
// frame-sequencer period (where enabling length counting clocks the counter at once). Every sample of both sides
// must be the same with and without the write.

type c20RegW struct {
	Obs   int   `json:"obs"`
	Other int   `json:"other"`
	Reg   int   `json:"reg"` // 0-4: NRx0-NRx4 of Other
	K     int   `json:"k"`   // machine cycle of the write
	V     uint8 `json:"v"`
	All   bool  `json:"all,omitempty"` // enumerate all eight values (replay: one)
	// NR10 != 0 (routed channel 1 only): channel 1 plays with its frequency sweep running, and the run is long enough for
	// several sweep steps after the write: the sweep unit is channel 1's alone
	NR10 uint8 `json:"nr10,omitempty"`
}

var c20RegVals = []uint8{0x00, 0xff, 0x40, 0x80, 0xc0, 0x3f, 0x08, 0x7f}

func c20RegRun(c c20RegW, write bool, v uint8) (l, r []float32) {
	m := machine.New(machine.ROMOnly(), machine.Opts{Audio: true, ChanCap: 4096})
	w := m.Map.Write
	w(0xff26, 0x00)
	w(0xff26, 0x80)
	w(0xff24, 0x77)
	w(0xff25, uint8(0x11)<<uint(c.Obs-1))
	for i := 0; i < 16; i++ {
		w(0xff30+uint16(i), uint8(i*17+3))
	}
	start := func(ch int, lenBits uint8) {
		switch ch {
		case 1:
			w(0xff10, 0x00)
			if ch == c.Obs && c.NR10 != 0 {
				w(0xff10, c.NR10)
				w(0xff11, 0x80|lenBits&0x3f)
				w(0xff12, 0xf0)
				w(0xff13, 0x00)
				w(0xff14, 0x84)
				break
			}
			w(0xff11, 0x80|lenBits&0x3f)
			w(0xff12, 0xf0)
			w(0xff13, 0x9b)
			w(0xff14, 0x87)
		case 2:
			w(0xff16, 0x40|lenBits&0x3f)
			w(0xff17, 0xf0)
			w(0xff18, 0x9b)
			w(0xff19, 0x87)
		case 3:
			w(0xff1a, 0x80)
			w(0xff1b, lenBits)
			w(0xff1c, 0x20)
			w(0xff1d, 0x9b)
			w(0xff1e, 0x87)
		case 4:
			w(0xff20, lenBits&0x3f)
			w(0xff21, 0xf0)
			w(0xff22, 0x00)
			w(0xff23, 0x80)
		}
	}
	start(c.Other, 0xff) // length counter 1, length counting off
	start(c.Obs, 0x00)
	horizon := c.K + 1400
	if c.NR10 != 0 {
		horizon = c.K + 60000 // seven sweep clocks
	}
	for cyc := 0; cyc < horizon; cyc++ {
		if cyc == c.K && write {
			w(uint16(0xff10+5*(c.Other-1)+c.Reg), v)
		}
		m.A.EndMachineCycle()
		a, b := drain(m)
		l, r = append(l, a...), append(r, b...)
	}
	return
}

func c20RegCheck(lc *explore.Local, _ struct{}, c c20RegW) *explore.Fail {
	bl, br := c20RegRun(c, false, 0)
	loud := false
	for _, v := range bl {
		loud = loud || v != 0
	}
	if len(bl) < 50 || !loud {
		return explore.Failf("harness: the routed channel is silent", "channel %d: %d samples", c.Obs, len(bl))
	}
	vals := c20RegVals
	if !c.All {
		vals = []uint8{c.V}
	}
	for _, v := range vals {
		al, ar := c20RegRun(c, true, v)
		for side, pair := range [][2][]float32{{br, ar}, {bl, al}} {
			n := len(pair[0])
			if len(pair[1]) != n {
				n = -1
			}
			for i := 0; i < n || n < 0; i++ {
				if n < 0 || pair[0][i] != pair[1][i] {
					reg := fmt.Sprintf("%04X", 0xff10+5*(c.Other-1)+c.Reg)
					f := explore.Failf("a sample depends on a channel that is not routed to that side",
						"only channel %d is routed (both sides); channel %d plays unrouted with its length counter at 1: writing %02x to %s after %d machine cycles changes the %s samples (sample %d of %d / %d)",
						c.Obs, c.Other, v, reg, c.K, [2]string{"right", "left"}[side], i, len(pair[0]), len(pair[1]))
					f.Case = c20RegW{Obs: c.Obs, Other: c.Other, Reg: c.Reg, K: c.K, V: v, NR10: c.NR10}
					return f
				}
			}
		}
		lc.Trans(len(al))
		lc.Eval(1)
	}
	lc.Outcome(uint64(c.Obs)<<4 | uint64(c.Other) | uint64(c.Reg)<<8 | uint64(c.K)<<16)
	return nil
}

func c20RegPart(c *Ctx) {
	ks := []int{500, 2548}
	if c.Thorough() {
		ks = []int{1, 500, 2047, 2048, 2548, 4095, 4096, 6700}
	}
	explore.Product(c.R, "independence-under-register-writes", explore.PartOpt{
		Bound:  "1,400 machine cycles after the write; two runs per (pair, register, value, moment)",
		Domain: fmt.Sprintf("every ordered pair (routed channel, unrouted channel) x the unrouted channel's five registers x 8 values x %d moments (both halves of a frame-sequencer period); the unrouted channel plays with its length counter at 1; with channel 1 routed also while its frequency sweep runs (2 NR10 settings, 60,000 cycles)", len(ks))},
		func(yield func(c20RegW) bool) {
			for obs := 1; obs <= 4; obs++ {
				for other := 1; other <= 4; other++ {
					if obs == other {
						continue
					}
					for reg := 0; reg < 5; reg++ {
						for _, k := range ks {
							if !yield(c20RegW{Obs: obs, Other: other, Reg: reg, K: k, All: true}) {
								return
							}
						}
					}
					if obs == 1 {
						for _, nr10 := range []uint8{0x17, 0x2c} {
							for reg := 0; reg < 5; reg++ {
								if !yield(c20RegW{Obs: obs, Other: other, Reg: reg, K: 500, All: true, NR10: nr10}) {
									return
								}
							}
						}
					}
				}
			}
		}, func() struct{} { return struct{}{} }, c20RegCheck)
}
