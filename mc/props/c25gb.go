package props

import (
	"context"
	"fmt"
	"os/exec"
	"path/filepath"
	"strconv"
	"strings"

	"verifmc/explore"
)

// C25, instances built by the REAL constructor (gameboy.New reading ROM files, stub display / speakers): everything the
// constructor and the loader do before the components exist (reading the image, choosing the controller, creating or
// not creating the audio device) is outside machine.New, which the cycle-granular part uses. Here k instances are
// created from ROM files and stepped a frame at a time in every order; each must produce, frame for frame, the hashes
// of a solo run of the same ROM and configuration made in a process of its own.

type c25GBCase struct {
	Progs    []int `json:"progs"` // c25Progs index per instance (written to a ROM file)
	Cfg      []int `json:"cfg"`   // per instance: bit 0 = video output, bit 1 = audio output
	Schedule []int `json:"schedule"`
	Create   int   `json:"create"` // 0: all first; 1: each just before its first frame; 2: as 0 plus a third instance created mid-run and never stepped
}

type c25GBEnv struct {
	c    *Ctx
	solo map[string][]uint64
	err  error
}

func c25GBPath(c *Ctx, prog int) string {
	return writeOnce(filepath.Join(c.Scratch, fmt.Sprintf("c25-p%d.gb", prog)), c25Progs[prog])
}

// c25GBFrame: one frame, then the hash of everything observable (registers, memory reads, frame, samples, serial).
func c25GBFrame(g *gbInst) uint64 {
	g.frame(context.Background())
	n, sh := g.drainHash()
	h := g.stateHash(false) ^ sh*7 ^ uint64(n)<<40
	if g.serial != nil {
		h ^= hashBytes(g.serial.Bytes()) * 13
	}
	return h
}

func c25GBSolo(rom string, cfg, frames int) (hs []uint64) {
	quietStdout(func() {
		g := newGB(rom, cfg&1 != 0, cfg&2 != 0, true)
		for f := 0; f < frames; f++ {
			hs = append(hs, c25GBFrame(g))
		}
		hs = append(hs, g.stateHash(true))
	})
	return hs
}

func init() {
	Workers["c25gb"] = func(args []string) int {
		if len(args) != 3 {
			return 2
		}
		cfg, _ := strconv.Atoi(args[1])
		frames, _ := strconv.Atoi(args[2])
		for _, h := range c25GBSolo(args[0], cfg, frames) {
			fmt.Printf("%016x\n", h)
		}
		return 0
	}
}

func (e *c25GBEnv) soloHashes(prog, cfg, frames int) []uint64 {
	k := fmt.Sprintf("%d/%d/%d", prog, cfg, frames)
	if d, ok := e.solo[k]; ok {
		return d
	}
	out, err := exec.Command(e.c.SelfExe, "worker", "c25gb", c25GBPath(e.c, prog), fmt.Sprint(cfg), fmt.Sprint(frames)).Output()
	var ds []uint64
	for _, f := range strings.Fields(string(out)) {
		if v, err := strconv.ParseUint(f, 16, 64); err == nil {
			ds = append(ds, v)
		}
	}
	if err != nil || len(ds) != frames+1 {
		e.err = fmt.Errorf("solo worker for program %d: %v (%d hashes)", prog, err, len(ds))
	}
	e.solo[k] = ds
	return ds
}

func c25GBCheck(l *explore.Local, e *c25GBEnv, c c25GBCase) *explore.Fail {
	n := len(c.Progs)
	per := make([]int, n)
	for _, i := range c.Schedule {
		per[i]++
	}
	solo := make([][]uint64, n)
	for i := range solo {
		solo[i] = e.soloHashes(c.Progs[i], c.Cfg[i], per[i])
	}
	if e.err != nil {
		return explore.Failf("harness: the solo run in a separate process failed", "%v", e.err)
	}
	gs := make([]*gbInst, n)
	mk := func(i int) *gbInst {
		return newGB(c25GBPath(e.c, c.Progs[i]), c.Cfg[i]&1 != 0, c.Cfg[i]&2 != 0, true)
	}
	if c.Create != 1 {
		for i := range gs {
			gs[i] = mk(i)
		}
	}
	done := make([]int, n)
	for si, i := range c.Schedule {
		if gs[i] == nil {
			gs[i] = mk(i)
		}
		if c.Create == 2 && si == len(c.Schedule)/2 {
			// a further instance of yet another ROM and the opposite configuration, created and never run
			_ = newGB(c25GBPath(e.c, (c.Progs[0]+1)%10), c.Cfg[0]&1 == 0, c.Cfg[0]&2 == 0, true)
		}
		got := c25GBFrame(gs[i])
		l.Trans(1)
		if got != solo[i][done[i]] {
			return explore.Failf("constructor-built-instance-differs-from-solo", "schedule %v step %d: instance %d (program %d, video=%v audio=%v) differs from its solo run in frame %d; registers %+v",
				c.Schedule, si, i, c.Progs[i], c.Cfg[i]&1 != 0, c.Cfg[i]&2 != 0, done[i]+1, gs[i].parts.CPU.VGet())
		}
		done[i]++
	}
	for j := range gs {
		if gs[j] == nil {
			continue
		}
		if got := gs[j].stateHash(true); got != solo[j][per[j]] {
			return explore.Failf("constructor-built-instance-final-state-differs-from-solo", "instance %d (program %d): the whole address space, frame, cartridge RAM or clock differ from the solo run after %d frames", j, c.Progs[j], per[j])
		}
		l.Outcome(solo[j][per[j]] ^ uint64(j)*0x9e3779b97f4a7c15)
	}
	l.Eval(1)
	return nil
}

func c25GBPart(c *Ctx) {
	type shape struct{ n, k int }
	shapes := []shape{{2, 2}}
	if c.Thorough() {
		shapes = []shape{{2, 3}, {3, 2}}
	}
	// ROM-only images of one size (0/1, 9/11: the loader reads both into buffers of the same size), two MBC1 images with
	// byte-identical headers and different code (14/18), sound programs with and without an audio device (7/8), clock
	// cartridges (16/17), MBC1 / MBC3 RAM (3/13)
	sets2 := []struct{ ps, cfg []int }{
		{[]int{0, 1}, []int{0, 0}}, {[]int{1, 0}, []int{3, 0}}, {[]int{9, 11}, []int{1, 1}}, {[]int{11, 9}, []int{0, 3}},
		{[]int{14, 18}, []int{0, 0}}, {[]int{18, 14}, []int{1, 2}}, {[]int{7, 8}, []int{0, 0}}, {[]int{8, 7}, []int{2, 0}}, {[]int{7, 7}, []int{2, 2}},
		{[]int{16, 17}, []int{0, 0}}, {[]int{19, 20}, []int{0, 2}}, {[]int{3, 13}, []int{0, 1}}, {[]int{9, 2}, []int{3, 3}},
	}
	sets3 := []struct{ ps, cfg []int }{{[]int{0, 1, 2}, []int{0, 0, 0}}, {[]int{7, 9, 8}, []int{0, 3, 0}}, {[]int{14, 18, 15}, []int{0, 0, 0}}}
	explore.Product(c.R, "constructor-built-instances", explore.PartOpt{Workers: 1, Guard: true, SameSig: true,
		Bound:  fmt.Sprintf("all interleavings of shapes %v (instances x frames), 3 creation orders", shapes),
		Domain: "instances created by gameboy.New from ROM files, with and without video / audio output: ROM-only images of equal size, two MBC1 images with byte-identical headers and different code, two sound programs sharing no audio device, clock cartridges, MBC1 / MBC3 cartridge RAM, video + DMA + serial"},
		func(yield func(c25GBCase) bool) {
			for _, sh := range shapes {
				sets := sets2
				if sh.n == 3 {
					sets = sets3
				}
				for _, s := range sets {
					for cr := 0; cr < 3; cr++ {
						ok := true
						interleavings(sh.n, sh.k, func(sc []int) bool {
							ok = yield(c25GBCase{Progs: s.ps, Cfg: s.cfg, Schedule: append([]int(nil), sc...), Create: cr})
							return ok
						})
						if !ok {
							return
						}
					}
				}
			}
		}, func() *c25GBEnv { return &c25GBEnv{c: c, solo: map[string][]uint64{}} }, c25GBCheck)
}
