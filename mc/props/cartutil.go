package props

import (
	"fmt"

	"verifmc/explore"
	"verifmc/machine"
	"verifmc/ref"
)

// cartSpec names one synthetic cartridge.
type cartSpec struct {
	Type    uint8 `json:"type"`
	ROMCode uint8 `json:"rom"`
	RAMCode uint8 `json:"ram"`
}

func (s cartSpec) pages() int {
	switch s.ROMCode {
	case 0x52: // the three in-between sizes some header tables list (1.1, 1.2, 1.5 MiB)
		return 72
	case 0x53:
		return 80
	case 0x54:
		return 96
	}
	return 2 << s.ROMCode
}

// tryCartPair: nil when the emulator rejects the image at construction (an accepted image must behave as documented).
func tryCartPair(s cartSpec) (p *cartPair) {
	defer func() {
		if recover() != nil {
			p = nil
		}
	}()
	return newCartPair(s)
}

func (s cartSpec) String() string {
	return fmt.Sprintf("type=%02x rom=%d ram=%d", s.Type, s.ROMCode, s.RAMCode)
}

// documented maximum ROM-size code per controller
func maxROMCode(k ref.CartKind) uint8 {
	switch k {
	case ref.KNone:
		return 0
	case ref.KMBC1:
		return 6
	case ref.KMBC2:
		return 3
	case ref.KMBC3:
		return 6
	case ref.KMBC5:
		return 8
	}
	return 0
}

type cartPair struct {
	spec cartSpec
	img  []byte
	m    *machine.M
	mod  *ref.Cart
}

func newCartPair(s cartSpec) *cartPair {
	k, ok := ref.KindOf(s.Type)
	if !ok {
		panic("unsupported cart type in harness")
	}
	img := machine.Image(s.Type, s.ROMCode, s.RAMCode, s.pages())
	hasRTC := s.Type == 0x0f || s.Type == 0x10
	p := &cartPair{spec: s, img: img, m: machine.New(img, machine.Opts{}), mod: ref.NewCart(k, s.pages(), ref.RAMBanks(s.RAMCode), hasRTC)}
	return p
}

var windowProbes = []uint16{0x0000, 0x00fe, 0x1ffe, 0x3ffe}

func region(addr uint16) string {
	return fmt.Sprintf("%04X-%04X", addr&0xe000, addr&0xe000|0x1fff)
}

// checkWindows compares both ROM windows with the model (page identity + one content byte).
func (p *cartPair) checkWindows(ctx string) *explore.Fail {
	k := p.mod.Kind.String()
	for w, want := range []int{p.mod.LowPage(), p.mod.HighPage()} {
		base := uint16(w) * 0x4000
		name := [2]string{"0000-3FFF", "4000-7FFF"}[w]
		for _, o := range windowProbes {
			got := int(p.m.Map.Read(base+o))<<8 | int(p.m.Map.Read(base+o+1))
			if got != want {
				return explore.Failf(fmt.Sprintf("%s: window %s shows the wrong ROM page after %s", k, name, ctx),
					"cart %s: window %s offset %04x identifies page %d, documented page %d (model: en=%v bank1=%02x bank2=%x mode=%v romb=%03x ramb=%x pages=%d)",
					p.spec, name, o, got, want, p.mod.RamEn, p.mod.Bank1, p.mod.Bank2, p.mod.Mode, p.mod.RomB, p.mod.RamB, p.mod.Pages)
			}
		}
		// a content byte away from the signatures (not in the header area of page 0)
		o := uint16(0x0a53)
		if got, wantb := p.m.Map.Read(base+o), p.img[want*0x4000+int(o)]; got != wantb {
			return explore.Failf(fmt.Sprintf("%s: window %s content differs from the ROM image after %s", k, name, ctx),
				"cart %s: %04x reads %02x, image page %d has %02x", p.spec, base+o, got, want, wantb)
		}
	}
	return nil
}

// ramProbes are the addresses observed in the external-RAM window.
var ramProbes = []uint16{0xa000, 0xa001, 0xa1ff, 0xa200, 0xb000, 0xbfff}

func (p *cartPair) checkRAMWindow(ctx string) *explore.Fail {
	k := p.mod.Kind.String()
	for _, a := range ramProbes {
		want, mask := p.mod.ReadRAM(a)
		got := p.m.Map.Read(a)
		if got&mask != want&mask {
			state := "enabled"
			if !p.mod.RamEn {
				state = "disabled"
			}
			if k == "none" {
				state = "absent"
			}
			return explore.Failf(fmt.Sprintf("%s: external RAM (%s) reads wrong after %s", k, state, ctx),
				"cart %s: %04x reads %02x, documented %02x (mask %02x; model: en=%v bank2=%x mode=%v ramb=%x banks=%d)",
				p.spec, a, got, want, mask, p.mod.RamEn, p.mod.Bank2, p.mod.Mode, p.mod.RamB, p.mod.RAMBanks)
		}
	}
	return nil
}
