package props

import (
	"bytes"
	"context"
	"fmt"
	"image"
	"os"
	"path/filepath"

	"github.com/scottyw/tetromino/gameboy/cpu"
	"verifmc/explore"
	"verifmc/machine"
	"verifmc/ref"
)

// C23 — serial output: every byte written to SB is delivered once, in order; nothing else.

type c23Ev struct {
	A uint16 `json:"a"`
	V uint8  `json:"v"`
}

var c23Alphabet = []c23Ev{{0xff01, 0x00}, {0xff01, 0x0a}, {0xff01, 0x41}, {0xff01, 0xff}, {0xff02, 0x00}, {0xff02, 0x81}, {0xff02, 0x80}, {0xff02, 0x01}, {0xff02, 0xff},
	{0xff00, 0x30}, {0xff04, 0x00}, {0xff0f, 0x00}, {0xc000, 0x41}, {0xff03, 0x41},
	{0xff46, 0xc0}, {0xff40, 0x11}, {0xff26, 0x00}} // OAM DMA started, LCD off, sound off: none of them is any business of the serial port

type c23Seq struct {
	Seq      []int `json:"seq"`
	NoWriter bool  `json:"no_writer"`
	Ticks    bool  `json:"ticks"` // run 3 machine cycles after every write
}

func c23SeqCheck(l *explore.Local, _ struct{}, c c23Seq) *explore.Fail {
	m := machine.New(machine.ROMOnly(), machine.Opts{NoSerial: c.NoWriter})
	var want []byte
	for _, i := range c.Seq {
		ev := c23Alphabet[i]
		m.Map.Write(ev.A, ev.V)
		if ev.A == 0xff01 {
			want = append(want, ev.V)
		}
		if c.Ticks {
			for k := 0; k < 3; k++ {
				m.Hardware()
			}
		}
		if sb, sc := m.Map.Read(0xff01), m.Map.Read(0xff02); sb != 0xff || sc != 0xff {
			return explore.Failf("SB/SC do not read FF", "after %04x<-%02x: SB=%02x SC=%02x", ev.A, ev.V, sb, sc)
		}
		l.Trans(1)
		if !c.NoWriter && !bytes.Equal(m.Serial.Bytes(), want) {
			return c23Mismatch(m.Serial.Bytes(), want, fmt.Sprintf("write sequence %v", c.Seq))
		}
	}
	l.Eval(1)
	l.Outcome(explore.HashBytes(want))
	return nil
}

// c23Vals: SB written with First, then with every second value (and First alone): the transcript must be exactly those bytes.
type c23Vals struct {
	First int `json:"first"`
}

func c23ValsCheck(l *explore.Local, _ struct{}, c c23Vals) *explore.Fail {
	m := machine.New(machine.ROMOnly(), machine.Opts{})
	var want []byte
	for b := -1; b < 256; b++ {
		m.Serial.Reset()
		want = want[:0]
		m.Map.Write(0xff01, uint8(c.First))
		want = append(want, uint8(c.First))
		if b >= 0 {
			m.Map.Write(0xff01, uint8(b))
			want = append(want, uint8(b))
		}
		l.Trans(1)
		if !bytes.Equal(m.Serial.Bytes(), want) {
			return c23Mismatch(m.Serial.Bytes(), want, fmt.Sprintf("SB written with % x", want))
		}
	}
	l.Eval(257)
	l.Outcome(uint64(c.First))
	return nil
}

func c23Mismatch(got, want []byte, ctx string) *explore.Fail {
	switch {
	case len(got) > len(want):
		return explore.Failf("serial writer received bytes that were not written to SB (or a byte twice)", "%s: delivered % x, written % x", ctx, got, want)
	case len(got) < len(want):
		return explore.Failf("a byte written to SB was not delivered to the serial writer", "%s: delivered % x, written % x", ctx, got, want)
	}
	return explore.Failf("serial bytes delivered with wrong value or order", "%s: delivered % x, written % x", ctx, got, want)
}

// ---- (b) through the CPU: every opcode with every pointer aimed at FF00/FF01/FF02 ----------

type c23CPU struct {
	Op  int    `json:"op"`
	Ptr uint16 `json:"ptr"`
}

func c23CPUCheck(l *explore.Local, e *cpuEnv, c c23CPU) *explore.Fail {
	code := codeOf(c.Op)
	if c.Op < 256 {
		switch ref.OperandBytes(uint8(c.Op)) {
		case 1:
			code = append(code, uint8(c.Ptr))
		case 2:
			code = append(code, uint8(c.Ptr), uint8(c.Ptr>>8))
		}
	}
	for _, fl := range []uint8{0x00, 0xf0} {
		for _, a := range []uint8{0x00, 0x5a, 0xff} {
			e.m.Map.Write(0xff0f, 0)
			e.m.Map.Write(0xffff, 0)
			e.m.Map.Write(0xff00, 0x00) // JOYP, next door to SB, reads CF: a load that goes astray does not read FF there
			e.placeCode(0xc000, code)
			regs := cpu.VRegs{A: a, F: fl, B: uint8(c.Ptr >> 8), C: uint8(c.Ptr), D: uint8(c.Ptr >> 8), E: uint8(c.Ptr), H: uint8(c.Ptr >> 8), L: uint8(c.Ptr), SP: c.Ptr + 2, PC: 0xc000}
			if c.Op == 0xc1 || c.Op == 0xd1 || c.Op == 0xe1 || c.Op == 0xf1 || c.Op == 0xc9 || c.Op == 0xd9 || c.Op&0xe7 == 0xc0 {
				regs.SP = 0xdf00 // POP/RET would load garbage control flow from I/O space; not stores anyway
			}
			before := e.m.Serial.Len()
			o, f := e.runOne(regs)
			if f != nil {
				return f
			}
			if o.info.Undefined {
				return nil
			}
			var want []byte
			for _, w := range e.log {
				if w.Write && w.Addr == 0xff01 {
					want = append(want, w.Val)
				}
			}
			// what the instruction loaded: with the pointers at FF01 / FF02 every data read is a read of SB / SC (FF)
			if c.Ptr == 0xff01 || c.Ptr == 0xff02 {
				reads := false
				for _, a := range o.info.Accesses {
					if !a.Write && (a.Addr == 0xff01 || a.Addr == 0xff02) {
						reads = true
					}
				}
				if f := compareRegs(o, regs); f != nil && reads {
					return explore.Failf("a CPU load from SB / SC does not give FF", "op %s with pointers at %04x: %s", opName(o.info), c.Ptr, f.Msg)
				}
			}
			got := e.m.Serial.Bytes()[before:]
			if !bytes.Equal(got, want) {
				return c23Mismatch(got, want, fmt.Sprintf("op %s with pointers at %04x, A=%02x F=%02x", opName(o.info), c.Ptr, a, fl))
			}
			for _, w := range e.log {
				if plainAddr(w.Addr) {
					e.shadow[fold(w.Addr)] = w.Val
				}
			}
			l.Trans(1)
			l.Outcome(explore.HashBytes(want) ^ uint64(c.Op))
		}
	}
	l.Eval(1)
	return nil
}

// ---- (c) whole ROMs: transcript == SB writes decoded by a per-instruction monitor ----------

type c23ROM struct {
	File   string `json:"file"`
	Frames int    `json:"frames"`
}

type sbBus struct {
	m   *machine.M
	log *[]byte
}

func (b sbBus) Read(a uint16) uint8 {
	if a >= 0xfe00 && a < 0xff00 {
		return 0 // never touch OAM from the monitor
	}
	return b.m.Map.Read(a)
}
func (b sbBus) Write(a uint16, v uint8) {
	if a == 0xff01 {
		*b.log = append(*b.log, v)
	}
}

func c23ROMCheck(l *explore.Local, _ struct{}, c c23ROM) *explore.Fail {
	rom, err := os.ReadFile(c.File)
	if err != nil {
		return explore.Failf("harness: cannot read ROM", "%v", err)
	}
	m := machine.New(rom, machine.Opts{})
	var want []byte
	total := c.Frames * 17556
	for cyc := 0; cyc < total; cyc++ {
		if m.CPU.VAtBoundary() {
			regs := m.CPU.VGet()
			if !regs.Halted && !regs.Stopped && !(m.I.Pending() && m.I.Enabled()) {
				r := toRef(regs)
				info := r.Step(sbBus{m, &want})
				if info.Undefined {
					break
				}
			}
		}
		m.Cycle()
	}
	got := m.Serial.Bytes()
	n := len(got)
	if len(want) < n {
		n = len(want)
	}
	// the last instruction may still be in flight at the horizon
	if len(want)-len(got) > 1 || len(got) > len(want) || !bytes.Equal(got[:n], want[:n]) {
		return c23Mismatch(got, want, filepath.Base(c.File))
	}
	if len(got) == 0 {
		return explore.Failf("harness: the ROM produced no serial output", "%s", c.File)
	}
	l.Trans(len(got))
	l.Eval(1)
	l.Outcome(explore.HashBytes(got))
	return nil
}

// c23Cfg: the emulator is built by the real constructor, gameboy.New, with every combination of its options that
// touches the serial path or prints (serial writer configured or not; CPU trace; LCD debug picture; display and
// speakers attached or not); the guest writes six bytes to SB and runs on for two frames.
type c23Cfg struct {
	Writer, DebugCPU, DebugLCD, Video, Audio bool
}

var c23CfgBytes = []byte{'H', 'i', '!', '\n', 0x00, 0xff}

func c23CfgROM() []byte {
	var code []byte
	for _, b := range c23CfgBytes {
		code = append(code, 0x3e, b, 0xe0, 0x01, 0x3e, 0x81, 0xe0, 0x02)
	}
	code = append(code, 0x18, 0xfe)
	return machine.Program(map[uint16][]byte{0x100: {0xc3, 0x50, 0x01}, 0x150: code})
}

func c23CfgCheck(c *Ctx) func(l *explore.Local, _ struct{}, q c23Cfg) *explore.Fail {
	return func(l *explore.Local, _ struct{}, q c23Cfg) *explore.Fail {
		rom := writeOnce(filepath.Join(c.Scratch, "c23-serial-bytes.gb"), c23CfgROM())
		g := newGBCfg(rom, q.Video, q.Audio, q.Writer, q.DebugCPU, q.DebugLCD)
		g.onFrame(func(int, *image.RGBA) bool { return false })
		ctx := context.Background()
		for f := 0; f < 2; f++ {
			g.frame(ctx)
			g.drainHash()
		}
		desc := fmt.Sprintf("gameboy.New with writer=%v DebugCPU=%v DebugLCD=%v video=%v audio=%v", q.Writer, q.DebugCPU, q.DebugLCD, q.Video, q.Audio)
		if q.Writer && !bytes.Equal(g.serial.Bytes(), c23CfgBytes) {
			return c23Mismatch(g.serial.Bytes(), c23CfgBytes, desc)
		}
		if sb, sc := g.m.Map.Read(0xff01), g.m.Map.Read(0xff02); sb != 0xff || sc != 0xff {
			return explore.Failf("SB/SC do not read FF", "%s: SB=%02x SC=%02x", desc, sb, sc)
		}
		if pc := g.m.CPU.VGet().PC; pc < 0x150+uint16(8*len(c23CfgBytes)) || pc > 0x152+uint16(8*len(c23CfgBytes)) {
			return explore.Failf("an SB write has an effect besides delivery", "%s: the guest is at PC=%04x instead of its final loop", desc, pc)
		}
		l.Eval(1)
		l.Trans(2)
		l.OutcomeStr(desc)
		return nil
	}
}

func init() {
	register("C23", "model_checking", func(c *Ctx) {
		if c.R != nil {
			c.R.Rule = "(a) every sequence of up to the length bound over 17 Mapper writes (SB with 4 values, SC in {00,81,80,01,FF}, DMA start, LCD off, sound off, JOYP, DIV, IF, WRAM, FF03), with a recording writer and with no writer, with and without machine cycles in between: the transcript must equal the SB writes in order after every write, SB/SC read FF; (a2) every single value and every ordered pair of values written to SB; (b) every opcode executed with every pointer register, SP, n and nn aimed at FF00, FF01, FF02: the bytes delivered must equal the reference CPU's writes to FF01 (read-modify-write instructions write once, PUSH / LD (nn),SP hit FF01 with one of their two bytes), and every instruction that reads through a pointer at FF01 / FF02 must load FF; (d) the real constructor gameboy.New with all 32 combinations of {serial writer configured, DebugCPU, DebugLCD, display, speakers}: a guest writing six bytes to SB delivers exactly those to the writer, or runs on unharmed when none is configured; (c) blargg ROMs: transcript equals the SB stores decoded by a per-instruction monitor"
			c.R.Assumptions = []string{"delivery through gameboy.New's Config.SerialWriter wiring is compared in C26"}
		}
		n := 4
		if c.Thorough() {
			n = 5
		}
		explore.Product(c.R, "mapper-write-sequences", explore.PartOpt{Bound: fmt.Sprintf("all sequences of length <= %d", n), Domain: "17 writes (SB x 4 values, SC in {00,81,80,01,FF}, JOYP, DIV, IF, WRAM, FF03, DMA start, LCDC off, NR52 off) x writer/no writer x ticking/not"},
			func(yield func(c23Seq) bool) {
				seq := make([]int, 0, n)
				var rec func() bool
				rec = func() bool {
					if len(seq) > 0 {
						for _, nw := range []bool{false, true} {
							for _, tk := range []bool{false, true} {
								if len(seq) < n && tk {
									continue
								}
								if !yield(c23Seq{Seq: append([]int(nil), seq...), NoWriter: nw, Ticks: tk}) {
									return false
								}
							}
						}
					}
					if len(seq) == n {
						return true
					}
					for i := range c23Alphabet {
						seq = append(seq, i)
						if !rec() {
							return false
						}
						seq = seq[:len(seq)-1]
					}
					return true
				}
				rec()
			}, func() struct{} { return struct{}{} }, c23SeqCheck)
		// every byte value, alone and as every ordered pair (the alphabet above only uses four values)
		explore.Product(c.R, "every-value", explore.PartOpt{Bound: "one write and every ordered pair of writes to SB", Domain: "all 256 values (65,792 sequences)"},
			func(yield func(c23Vals) bool) {
				for a := 0; a < 256; a++ {
					if !yield(c23Vals{First: a}) {
						return
					}
				}
			}, func() struct{} { return struct{}{} }, c23ValsCheck)
		explore.Product(c.R, "cpu-stores", explore.PartOpt{History: 256, Bound: "single instruction (the emulator instance is reused from case to case, so stores to SC/IF/JOYP by earlier cases are part of the state)", Domain: "every opcode x pointers {FF00,FF01,FF02,FEFF} x A x flags"},
			func(yield func(c23CPU) bool) {
				for op := 0; op < 512; op++ {
					if op < 256 && (ref.UndefinedOpcodes[uint8(op)] || op == 0xcb || op == 0x76 || op == 0x10) {
						continue
					}
					for _, p := range []uint16{0xff00, 0xff01, 0xff02, 0xfeff} {
						if !yield(c23CPU{op, p}) {
							return
						}
					}
				}
			}, newCPUEnv, c23CPUCheck)
		frames := 400
		if c.Thorough() {
			frames = 3300
		}
		quietStdout(func() {
			explore.Product(c.R, "constructor-configurations", explore.PartOpt{Workers: 1, Bound: "six SB writes, two frames", Domain: "gameboy.New x serial writer configured or not x DebugCPU x DebugLCD x display attached or not x speakers attached or not (32 configurations)"},
				func(yield func(c23Cfg) bool) {
					for i := 0; i < 32; i++ {
						if !yield(c23Cfg{i&1 != 0, i&2 != 0, i&4 != 0, i&8 != 0, i&16 != 0}) {
							return
						}
					}
				}, func() struct{} { return struct{}{} }, c23CfgCheck(c))
		})
		explore.Product(c.R, "rom-transcripts", explore.PartOpt{Bound: fmt.Sprintf("%d frames", frames), Domain: "blargg cpu_instrs (combined + 11 individual), instr_timing, mem_timing"},
			func(yield func(c23ROM) bool) {
				td := filepath.Join(c.Repo, "gameboy/testdata/blargg")
				files := []string{"cpu_instrs/cpu_instrs.gb", "instr_timing/instr_timing.gb", "mem_timing/mem_timing.gb"}
				ind, _ := filepath.Glob(filepath.Join(td, "cpu_instrs/individual/*.gb"))
				for _, f := range files {
					if !yield(c23ROM{filepath.Join(td, f), frames}) {
						return
					}
				}
				for _, f := range ind {
					if !yield(c23ROM{f, frames}) {
						return
					}
				}
			}, func() struct{} { return struct{}{} }, c23ROMCheck)
	})
}
