package props

import (
	"fmt"

	"verifmc/explore"
	"verifmc/machine"
)

// C19, secondary evidence: tla/APULen.tla restates one channel's length counter and status bit independently of the
// Go reference model; TLC checks the statement's claims on the model (status on only by a trigger with the DAC on;
// off only by DAC off, power off or expiry; one count per length clock) and dumps its state graph for MAX = 64 and
// MAX = 256. EVERY edge is replayed on the real sound hardware for each channel the configuration stands for
// (64: channels 1, 2 and 4; 256: channel 3): shortest event path to the edge's source state on a fresh machine,
// then the edge's event; NR52's power and status bits and NRx4's length-enable bit are compared with the target.

type c19Edge struct {
	Ch int        `json:"ch"` // 0..3
	E  tlcGenEdge `json:"edge"`
}

func c19TLCApply(m *machine.M, ch int, ev string) error {
	r := c19Ch[ch]
	max := 64
	if ch == 2 {
		max = 256
	}
	w := m.Map.Write
	var t int
	if n, _ := fmt.Sscanf(ev, "WLen(%d)", &t); n == 1 {
		if t < 0 || t >= max {
			return fmt.Errorf("length data %d out of range", t)
		}
		w(r.len, uint8(t))
		return nil
	}
	switch ev {
	case "WDac(TRUE)":
		w(r.dac, r.dacOn)
	case "WDac(FALSE)":
		w(r.dac, 0x00)
	case "WCtl(FALSE,FALSE)":
		w(r.ctl, 0x00)
	case "WCtl(TRUE,FALSE)":
		w(r.ctl, 0x40)
	case "WCtl(FALSE,TRUE)":
		w(r.ctl, 0x80)
	case "WCtl(TRUE,TRUE)":
		w(r.ctl, 0xc0)
	case "PowerOff":
		w(0xff26, 0x00)
	case "PowerOn":
		w(0xff26, 0x80)
	case "Step":
		fs := m.A.VGet().FrameSeqTicks
		for i := 0; ; i++ {
			if i > 2048 {
				return fmt.Errorf("no frame-sequencer step within 2,048 machine cycles")
			}
			m.A.EndMachineCycle()
			if m.A.VGet().FrameSeqTicks != fs {
				return nil
			}
		}
	default:
		return fmt.Errorf("unknown event %q", ev)
	}
	return nil
}

func c19EdgeCheck(l *explore.Local, _ struct{}, c c19Edge) *explore.Fail {
	m := machine.New(machine.ROMOnly(), machine.Opts{})
	r := c19Ch[c.Ch]
	for _, x := range [][2]uint16{{0xff26, 0x00}, {0xff26, 0x80}, {0xff10, 0x00}, {0xff13, 0x00}, {r.len, 0x00}} {
		m.Map.Write(x[0], uint8(x[1]))
	}
	for _, ev := range c.E.Path {
		if err := c19TLCApply(m, c.Ch, ev); err != nil {
			return explore.Failf("tlc-edge: "+err.Error(), "channel %d, on the path %v", c.Ch+1, c.E.Path)
		}
		l.Trans(1)
	}
	if err := c19TLCApply(m, c.Ch, c.E.Ev); err != nil {
		return explore.Failf("tlc-edge: "+err.Error(), "channel %d, from model state %v (reached by %v) event %s", c.Ch+1, c.E.Src, c.E.Path, c.E.Ev)
	}
	l.Trans(1)
	ctx := fmt.Sprintf("channel %d, from model state %v (reached by %v) event %s -> %v", c.Ch+1, c.E.Src, c.E.Path, c.E.Ev, c.E.Want)
	nr52 := m.Map.Read(0xff26)
	if (nr52&0x80 != 0) != c.E.Want.Bool("power") {
		return explore.Failf("tlc-edge: NR52 power bit differs from the model", "%s: NR52=%02x", ctx, nr52)
	}
	if got := nr52&(1<<uint(c.Ch)) != 0; got != c.E.Want.Bool("on") {
		state := "on although the model has it off"
		if !got {
			state = "off although the model has it on"
		}
		return explore.Failf("tlc-edge: channel status bit "+state+" after "+c.E.Ev, "%s: NR52=%02x", ctx, nr52)
	}
	if got := m.Map.Read(r.ctl)&0x40 != 0; got != c.E.Want.Bool("lenEn") {
		return explore.Failf("tlc-edge: NRx4 length-enable bit differs from the model", "%s: NRx4=%02x", ctx, m.Map.Read(r.ctl))
	}
	l.Eval(1)
	l.Outcome(uint64(c.E.Want.Int("len"))<<8 | uint64(c.E.Want.Int("step"))<<4 | uint64(nr52&0x8f) ^ explore.Hash(c.E.Ev)<<20 ^ uint64(c.Ch)<<60)
	return nil
}

func c19TLCPart(c *Ctx) {
	var cases []c19Edge
	bound := ""
	if c.R != nil {
		for _, cfg := range []struct {
			name string
			chs  []int
		}{{"APULen64", []int{0, 1, 3}}, {"APULen256", []int{2}}} {
			edges, b, ok := tlcGraphFor(c, "APULen", cfg.name, 6)
			if !ok {
				continue
			}
			bound += cfg.name + ": " + b + ". "
			for _, ch := range cfg.chs {
				for _, e := range edges {
					cases = append(cases, c19Edge{Ch: ch, E: e})
				}
			}
		}
	}
	explore.Product(c.R, "tlc-edge-replay", explore.PartOpt{Bound: bound, Domain: "TLA+ model tla/APULen.tla (length counter within 3 of 0 or of its maximum; length data 0, max-1, max-2; DAC on/off; NRx4 in {00,40,80,C0}; frame-sequencer step; power off/on), MAX = 64 replayed on channels 1, 2, 4 and MAX = 256 on channel 3"},
		func(yield func(c19Edge) bool) {
			for _, e := range cases {
				if !yield(e) {
					return
				}
			}
		}, func() struct{} { return struct{}{} }, c19EdgeCheck)
}
