package props

import (
	"fmt"

	"github.com/scottyw/tetromino/gameboy/memory"
	"verifmc/explore"
	"verifmc/ref"
)

// C10 — MBC3 real-time clock: (a) carry chain over every counter state, (b) time base
// around the second boundary and over 2 emulated seconds, (c) latch/access protocol.

var c10Cart = cartSpec{0x10, 1, 3}

// ---- (a) carry chain -----------------------------------------------------------------

type c10Block struct {
	D0, D1 int  `json:"d"` // day range [D0,D1)
	Carry  bool `json:"carry"`
	Quick  bool `json:"quick,omitempty"`
}

func c10Carry(l *explore.Local, p *cartPair, b c10Block) *explore.Fail {
	vals6 := make([]uint8, 64)
	for i := range vals6 {
		vals6[i] = uint8(i)
	}
	vals5 := vals6[:32]
	n := 0
	for d := b.D0; d < b.D1; d++ {
		for _, h := range vals5 {
			for _, mi := range vals6 {
				for _, s := range vals6 {
					st := memory.VRTC{S: s, M: mi, H: h, D: uint16(d), Carry: b.Carry}
					p.m.Map.VRTCSet(st)
					p.m.Map.VRTCIncrement()
					g := p.m.Map.VRTCGet()
					r := ref.RTC{S: s, M: mi, H: h, D: uint16(d), Carry: b.Carry}
					r.Step()
					n++
					if g.S != r.S || g.M != r.M || g.H != r.H || g.D != r.D || g.Carry != r.Carry {
						kind := "in-range"
						if s > 59 || mi > 59 || h > 23 {
							kind = "out-of-range"
						}
						return explore.Failf("rtc: one-second step wrong ("+kind+" start)",
							"from d=%d h=%d m=%d s=%d carry=%v the step gives d=%d h=%d m=%d s=%d carry=%v, documented d=%d h=%d m=%d s=%d carry=%v",
							d, h, mi, s, b.Carry, g.D, g.H, g.M, g.S, g.Carry, r.D, r.H, r.M, r.S, r.Carry)
					}
				}
			}
		}
	}
	l.Eval(n)
	l.Trans(n)
	l.State(n)
	l.Outcome(uint64(b.D0))
	return nil
}

// ---- guest-visible observation of the clock -------------------------------------------

// observeClock latches and reads all five registers on the real cartridge and on the model
// (both restored afterwards) and compares them.
func (p *cartPair) observeClock(ctx string) *explore.Fail {
	si := p.m.Map.VMBCSave(false)
	sm := *p.mod
	defer func() {
		p.m.Map.VMBCLoad(si, false)
		ram := p.mod.RAM
		*p.mod = sm
		p.mod.RAM = ram
	}()
	w := func(a uint16, v uint8) { p.m.Map.Write(a, v); p.mod.Write(a, v) }
	w(0x0000, 0x0a)
	w(0x6000, 0x00)
	w(0x6000, 0x01)
	names := [5]string{"seconds", "minutes", "hours", "day-low", "control"}
	for sel := uint8(8); sel <= 0x0c; sel++ {
		w(0x4000, sel)
		want, mask := p.mod.ReadRAM(0xa000)
		got := p.m.Map.Read(0xa123)
		if got&mask != want&mask {
			return explore.Failf("rtc: "+names[sel-8]+" register wrong after "+ctx,
				"register %02x reads %02x after a fresh latch, documented %02x (model live: d=%d h=%d m=%d s=%d carry=%v halt=%v sub=%d)",
				sel, got, want, sm.Clock.D, sm.Clock.H, sm.Clock.M, sm.Clock.S, sm.Clock.Carry, sm.Clock.Halt, sm.Clock.Sub)
		}
	}
	return nil
}

// ---- (b) time base --------------------------------------------------------------------

type c10Base struct {
	Sub   int   `json:"sub"` // preset sub-second count (-1: un-hooked long run from power-on)
	N     int   `json:"n"`   // cycles to run
	Halt  bool  `json:"halt"`
	Start uint8 `json:"s"`
	// Cart: 0 = type 10 (MBC3+TIMER+RAM+BATTERY, 8 KiB RAM x 4); 1 = type 0F (MBC3+TIMER+BATTERY, no RAM);
	// 2 = type 10 with 128 ROM pages and no RAM: the clock belongs to every cartridge that carries a timer
	Cart int `json:"cart,omitempty"`
	// Busy > 0: every Busy machine cycles the guest starts an OAM DMA transfer (FF46) — memory hardware that shares the
	// per-cycle step with the clock; the clock counts every machine cycle whatever else the memory hardware is doing
	Busy int `json:"busy,omitempty"`
}

var c10Carts = []cartSpec{c10Cart, {0x0f, 1, 0}, {0x10, 6, 0}}

func c10TimeBase(l *explore.Local, _ struct{}, c c10Base) *explore.Fail {
	p := newCartPair(c10Carts[c.Cart])
	if c.Sub >= 0 {
		st := memory.VRTC{S: c.Start, M: 59, H: 23, D: 0x1ff, Ticks: c.Sub, Halt: c.Halt}
		p.m.Map.VRTCSet(st)
		p.mod.Clock = ref.RTC{S: c.Start, M: 59, H: 23, D: 0x1ff, Sub: c.Sub, Halt: c.Halt}
	}
	check := func(i int) *explore.Fail {
		_ = i
		return p.observeClock("elapsed machine cycles")
	}
	for i := 1; i <= c.N; i++ {
		if c.Busy > 0 && i%c.Busy == 0 {
			p.m.Map.Write(0xff46, 0xc0)
		}
		p.m.Map.EndMachineCycle()
		p.mod.Clock.Tick()
		l.Trans(1)
		near := (i%ref.CyclesPerSecond) <= 2 || (i%ref.CyclesPerSecond) >= ref.CyclesPerSecond-2
		if c.Sub >= 0 || near || i%65536 == 0 {
			if f := check(i); f != nil {
				return f
			}
		}
	}
	l.Eval(1)
	l.Outcome(uint64(p.mod.Clock.S) | uint64(p.mod.Clock.Sub)<<8)
	return nil
}

// ---- (c) protocol ---------------------------------------------------------------------

type c10Ev struct {
	K string `json:"k"` // w (write A,V) | tick | jump
	A uint16 `json:"a,omitempty"`
	V uint8  `json:"v,omitempty"`
}

type c10Case struct {
	Start int     `json:"start"` // 0: power-on-like; 1: RAM enabled, seconds selected, 2 cycles before a second; 2: enabled, control selected, halted, 3 cycles before
	First int     `json:"first"`
	Depth int     `json:"depth"`
	Path  []c10Ev `json:"path,omitempty"`
}

var c10Alphabet = func() []c10Ev {
	evs := []c10Ev{{K: "w", A: 0x6000, V: 0}, {K: "w", A: 0x6000, V: 1}, {K: "tick"}, {K: "jump"},
		{K: "w", A: 0x0000, V: 0x0a}, {K: "w", A: 0x0000, V: 0x00},
		{K: "dump"}} // the host takes a battery save (Mapper.DumpRAM): not an event of the emulated machine, nothing may change
	for sel := uint8(8); sel <= 0x0c; sel++ {
		evs = append(evs, c10Ev{K: "w", A: 0x4000, V: sel})
	}
	evs = append(evs, c10Ev{K: "w", A: 0x4000, V: 0x00})
	for _, v := range []uint8{0x00, 0x01, 0x3b, 0x3c, 0x3f, 0x40, 0x7f, 0x80, 0xc1, 0xff} {
		evs = append(evs, c10Ev{K: "w", A: 0xa000, V: v})
	}
	return evs
}()

func (p *cartPair) c10Apply(ev c10Ev) *explore.Fail {
	switch ev.K {
	case "w":
		p.m.Map.Write(ev.A, ev.V)
		p.mod.Write(ev.A, ev.V)
	case "tick":
		p.m.Map.EndMachineCycle()
		p.mod.Clock.Tick()
	case "dump":
		_ = p.m.Map.DumpRAM()
	case "jump":
		// as if time had passed until 2 cycles before the next second (state placement by hook;
		// the real tick path then crosses the boundary with the following tick events)
		if !p.mod.Clock.Halt {
			st := p.m.Map.VRTCGet()
			st.Ticks = ref.CyclesPerSecond - 2
			p.m.Map.VRTCSet(st)
			p.mod.Clock.Sub = ref.CyclesPerSecond - 2
		}
	}
	// what the guest sees right now through the window (latched copy)
	if p.mod.RamEn {
		if sel, ok := p.mod.RTCSelected(); ok && sel <= 0x0c {
			want, mask := p.mod.ReadRAM(0xa000)
			if got := p.m.Map.Read(0xa000); got&mask != want&mask {
				return explore.Failf(fmt.Sprintf("rtc: latched register %02x reads wrong", sel),
					"after %v: register %02x reads %02x, documented latched value %02x", ev, sel, got, want)
			}
		}
	}
	return p.observeClock("event " + ev.K)
}

func c10Protocol(l *explore.Local, _ struct{}, c c10Case) *explore.Fail {
	p := newCartPair(c10Cart)
	// a start state with every counter one step before its carry and a non-trivial latched copy
	st := memory.VRTC{S: 58, M: 59, H: 23, D: 0x1ff}
	p.m.Map.VRTCSet(st)
	p.mod.Clock = ref.RTC{S: 58, M: 59, H: 23, D: 0x1ff}
	switch c.Start {
	case 1, 2:
		sel, sub, halt := uint8(0x08), ref.CyclesPerSecond-2, false
		if c.Start == 2 {
			sel, sub, halt = 0x0c, ref.CyclesPerSecond-3, true
		}
		for _, w := range []c08Ev{{0x0000, 0x0a}, {0x4000, sel}, {0x6000, 0}, {0x6000, 1}} {
			p.m.Map.Write(w.A, w.V)
			p.mod.Write(w.A, w.V)
		}
		g := p.m.Map.VRTCGet()
		g.Ticks, g.Halt = sub, halt
		p.m.Map.VRTCSet(g)
		p.mod.Clock.Sub, p.mod.Clock.Halt = sub, halt
	}
	if c.First < 0 {
		for _, ev := range c.Path {
			if f := p.c10Apply(ev); f != nil {
				return f
			}
		}
		return nil
	}
	path := []c10Ev{}
	var fail *explore.Fail
	var dfs func(depth int)
	dfs = func(depth int) {
		if depth == c.Depth {
			l.Eval(1)
			k := p.mod.Clock
			l.Outcome(uint64(k.S) | uint64(k.M)<<8 | uint64(k.H)<<16 | uint64(k.D)<<24 | uint64(k.LS)<<40 | uint64(k.Sub&3)<<48)
			return
		}
		si := p.m.Map.VMBCSave(false)
		sm := *p.mod
		for i, ev := range c10Alphabet {
			if depth == 0 && i != c.First {
				continue
			}
			path = append(path, ev)
			l.Trans(1)
			l.State(1)
			if f := p.c10Apply(ev); f != nil {
				f.Case = c10Case{Start: c.Start, First: -1, Path: append([]c10Ev(nil), path...)}
				fail = f
			} else {
				dfs(depth + 1)
			}
			path = path[:len(path)-1]
			p.m.Map.VMBCLoad(si, false)
			ram := p.mod.RAM
			*p.mod = sm
			p.mod.RAM = ram
			if fail != nil {
				return
			}
		}
	}
	dfs(0)
	return fail
}

func init() {
	register("C10", "model_checking", func(c *Ctx) {
		if c.R != nil {
			c.R.Rule = "(a) every counter state s(64) x m(64) x h(32) x d(512) x carry(2) = 134,217,728, one real one-second step each, compared with the reference carry chain; (b) sub-second count preset to every value within 16 of the second boundary, 0-40 real Mapper cycles, all five registers observed through latch+read after every cycle, halted and running, plus an un-hooked run over 2 emulated seconds; (c) every sequence up to the depth bound over {latch 00/01, select 08-0C/RAM, write 10 values, enable/disable, 1 cycle, jump to 2 cycles before the next second, the host saving the cartridge RAM (DumpRAM)}, the full guest-visible clock observed after every event; secondary evidence: every edge of the TLC state graph of tla/RTCLatch.tla (an independent restatement of the latch protocol around the minute carry) replayed on the real cartridge"
			c.R.Assumptions = []string{"latch writes other than 00/01 are outside the alphabet (unspecified)", "out-of-range counter values wrap at their bit width without carry (Pan Docs)", "the 'jump' event places the sub-second count by hook; crossing the boundary is done by real ticks"}
		}
		explore.Product(c.R, "carry-chain", explore.PartOpt{Bound: "single step from every state", Domain: "all 134,217,728 counter states"},
			func(yield func(c10Block) bool) {
				for _, carry := range []bool{false, true} {
					for d := 0; d < 512; d += 4 {
						if !yield(c10Block{D0: d, D1: d + 4, Carry: carry}) {
							return
						}
					}
				}
			}, func() *cartPair { return newCartPair(c10Cart) }, c10Carry)
		explore.Product(c.R, "time-base", explore.PartOpt{Bound: "0-40 cycles from each preset; 2 x 1,048,576 cycles un-hooked", Domain: "sub-second presets {0..16} and {2^20-17..2^20-1}, halted/running, seconds 58/59/63; the boundary presets and the long run again on cartridge type 0F (timer, no RAM) and on type 10 with 128 ROM pages and no RAM; the long run and a second boundary again with OAM DMA transfers started every 997 / 150 cycles"},
			func(yield func(c10Base) bool) {
				for _, halt := range []bool{false, true} {
					for _, s := range []uint8{58, 59, 63} {
						for sub := 0; sub <= 16; sub++ {
							if !yield(c10Base{Sub: sub, N: 40, Halt: halt, Start: s}) {
								return
							}
						}
						for sub := ref.CyclesPerSecond - 17; sub < ref.CyclesPerSecond; sub++ {
							if !yield(c10Base{Sub: sub, N: 40, Halt: halt, Start: s}) {
								return
							}
						}
					}
				}
				yield(c10Base{Sub: -1, N: 2*ref.CyclesPerSecond + 8})
				yield(c10Base{Sub: -1, N: 2*ref.CyclesPerSecond + 8, Busy: 997}) // OAM DMA transfers in flight for a sixth of the time
				yield(c10Base{Sub: ref.CyclesPerSecond - 200, N: 400, Start: 59, Busy: 150})
				for cart := 1; cart < len(c10Carts); cart++ {
					for _, halt := range []bool{false, true} {
						for _, sub := range []int{0, ref.CyclesPerSecond - 2, ref.CyclesPerSecond - 1} {
							if !yield(c10Base{Sub: sub, N: 40, Halt: halt, Start: 59, Cart: cart}) {
								return
							}
						}
					}
					if !yield(c10Base{Sub: -1, N: 2*ref.CyclesPerSecond + 8, Cart: cart}) {
						return
					}
				}
			}, func() struct{} { return struct{}{} }, c10TimeBase)
		depth := 4
		if c.Thorough() {
			depth = 6
		}
		explore.Product(c.R, "latch-access-protocol", explore.PartOpt{Bound: fmt.Sprintf("every sequence up to depth %d over %d events", depth, len(c10Alphabet)), Domain: "3 start states at d=511 h=23 m=59 s=58 (every carry one step away): idle; enabled + seconds selected 2 cycles before a second; enabled + control selected, halted"},
			func(yield func(c10Case) bool) {
				for st := 0; st < 3; st++ {
					for i := range c10Alphabet {
						if !yield(c10Case{Start: st, First: i, Depth: depth}) {
							return
						}
					}
				}
			}, func() struct{} { return struct{}{} }, c10Protocol)
		c10TLCPart(c)
	})
}
