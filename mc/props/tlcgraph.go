package props

import (
	"bufio"
	"compress/gzip"
	"fmt"
	"io"
	"os"
	"path/filepath"
	"strings"
)

// Generic loader for TLC state-graph dumps (tlc -dump dot,actionlabels): states as variable -> value maps, one
// replay case per edge with the shortest event path from the initial state to the edge's source state.

type tlcVars map[string]string

func (v tlcVars) Bool(k string) bool { return v[k] == "TRUE" }
func (v tlcVars) Int(k string) int {
	n := 0
	fmt.Sscanf(v[k], "%d", &n)
	return n
}

type tlcGenEdge struct {
	Path []string `json:"path"` // events from the initial state to the edge's source state
	Src  tlcVars  `json:"src"`
	Ev   string   `json:"ev"`
	Want tlcVars  `json:"want"`
}

func parseTLCVars(label string) tlcVars {
	v := tlcVars{}
	lab := strings.ReplaceAll(strings.ReplaceAll(label, `\"`, `"`), `\\`, `\`)
	for _, part := range strings.Split(lab, `\n`) {
		part = strings.TrimSpace(strings.TrimPrefix(strings.TrimSpace(part), `/\`))
		kv := strings.SplitN(part, " = ", 2)
		if len(kv) == 2 {
			v[strings.TrimSpace(kv[0])] = strings.Trim(strings.TrimSpace(kv[1]), `"`)
		}
	}
	return v
}

func loadTLCGen(rd io.Reader, nvars int) (edges []tlcGenEdge, states int, err error) {
	nodes := map[string]tlcVars{}
	var inits []string
	type rawEdge struct{ a, b, ev string }
	var raw []rawEdge
	sc := bufio.NewScanner(rd)
	sc.Buffer(make([]byte, 1<<20), 1<<24)
	for sc.Scan() {
		line := sc.Text()
		if m := ihEdgeRe.FindStringSubmatch(line); m != nil {
			raw = append(raw, rawEdge{m[1], m[2], strings.ReplaceAll(m[3], `\"`, ``)})
			continue
		}
		if m := tlcNodeRe.FindStringSubmatch(line); m != nil {
			st := parseTLCVars(m[2])
			if len(st) != nvars {
				return nil, 0, fmt.Errorf("state label with %d of %d variables: %q", len(st), nvars, m[2])
			}
			nodes[m[1]] = st
			if m[3] != "" {
				inits = append(inits, m[1])
			}
		}
	}
	if len(inits) == 0 || len(raw) == 0 {
		return nil, 0, fmt.Errorf("no initial states or no edges in the graph dump")
	}
	out := map[string][]rawEdge{}
	for _, e := range raw {
		out[e.a] = append(out[e.a], e)
	}
	parent := map[string][]string{}
	queue := []string{}
	for _, i := range inits {
		parent[i] = []string{}
		queue = append(queue, i)
	}
	for len(queue) > 0 {
		n := queue[0]
		queue = queue[1:]
		for _, e := range out[n] {
			if _, ok := parent[e.b]; !ok {
				parent[e.b] = append(append([]string(nil), parent[n]...), e.ev)
				queue = append(queue, e.b)
			}
		}
	}
	for _, e := range raw {
		p, ok := parent[e.a]
		if !ok {
			return nil, 0, fmt.Errorf("edge from a state that is not reachable from an initial state")
		}
		edges = append(edges, tlcGenEdge{Path: p, Src: nodes[e.a], Ev: e.ev, Want: nodes[e.b]})
	}
	return edges, len(nodes), nil
}

// tlcGraphFor returns the edges of spec (configuration cfg): the committed graph tla/<cfg>.dot.gz in the quick tier,
// a fresh TLC run in the thorough tier. bound describes what was loaded.
func tlcGraphFor(c *Ctx, spec, cfg string, nvars int) (edges []tlcGenEdge, bound string, ok bool) {
	dir := filepath.Join(c.R.Dir, "tla")
	var rd io.Reader
	if c.Thorough() {
		dot, st, err := runTLCSpecCfg(dir, c.Scratch, spec, cfg)
		if err != nil {
			if strings.Contains(err.Error(), "not installed") {
				c.R.Extra("tlc-"+cfg, "skipped: "+err.Error())
			} else {
				c.R.HarnessError("tlc: %v", err)
			}
		} else if f, e := os.Open(dot); e == nil {
			defer f.Close()
			rd = f
			bound = "every edge of the state graph TLC produced in this run (" + st + "; invariants and action properties of the model hold)"
		}
	}
	if rd == nil {
		f, e := os.Open(filepath.Join(dir, cfg+".dot.gz"))
		if e != nil {
			c.R.Extra("tlc-"+cfg, "skipped: no committed graph")
			return nil, "", false
		}
		defer f.Close()
		z, e := gzip.NewReader(f)
		if e != nil {
			c.R.HarnessError("tlc graph: %v", e)
			return nil, "", false
		}
		rd = z
		bound = "every edge of the committed TLC state graph tla/" + cfg + ".dot.gz (regenerated and replayed afresh in the thorough tier)"
	}
	edges, n, err := loadTLCGen(rd, nvars)
	if err != nil {
		c.R.HarnessError("tlc graph: %v", err)
		return nil, "", false
	}
	bound += fmt.Sprintf("; %d states, %d edges", n, len(edges))
	c.R.AddTLCEdges(int64(len(edges)))
	c.R.Extra("tlc_states_"+cfg, n)
	return edges, bound, true
}
