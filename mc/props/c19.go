package props

import (
	"fmt"

	"verifmc/explore"
)

// C19 — channel status bits and length counters (shares apuPair / ref.APU with C18).

type chRegs struct {
	len, dac, ctl uint16
	dacOn         uint8
	lens          []uint8
	freqHi        uint8
}

var c19Ch = [4]chRegs{
	{0xff11, 0xff12, 0xff14, 0xf0, []uint8{0x00, 0x01, 0x3e, 0x3f}, 0x07},
	{0xff16, 0xff17, 0xff19, 0xf0, []uint8{0x00, 0x01, 0x3e, 0x3f}, 0x00},
	{0xff1b, 0xff1a, 0xff1e, 0x80, []uint8{0x00, 0x01, 0xfe, 0xff}, 0x00},
	{0xff20, 0xff21, 0xff23, 0xf0, []uint8{0x00, 0x01, 0x3e, 0x3f}, 0x00},
}

func c19Alphabet(ch int) []apuEv {
	r := c19Ch[ch]
	var evs []apuEv
	for _, t := range r.lens {
		evs = append(evs, apuEv{K: "w", A: r.len, V: t})
	}
	evs = append(evs, apuEv{K: "w", A: r.dac, V: r.dacOn}, apuEv{K: "w", A: r.dac, V: 0x00})
	if ch != 2 {
		// volume 0 with the envelope rising: the DAC is on (any of bits 3-7 set), and volume 7 falling
		evs = append(evs, apuEv{K: "w", A: r.dac, V: 0x08}, apuEv{K: "w", A: r.dac, V: 0x07})
	}
	for _, v := range []uint8{0x00, 0x40, 0x80, 0xc0} {
		evs = append(evs, apuEv{K: "w", A: r.ctl, V: v | r.freqHi})
	}
	if ch == 0 {
		evs = append(evs, apuEv{K: "w", A: 0xff10, V: 0x00}, apuEv{K: "w", A: 0xff10, V: 0x11})
	}
	evs = append(evs, apuEv{K: "w", A: 0xff26, V: 0x00}, apuEv{K: "w", A: 0xff26, V: 0x80})
	evs = append(evs, apuEv{K: "t1"}, apuEv{K: "tstep"}, apuEv{K: "t2"}, apuEv{K: "t2048"})
	return evs
}

type c19Expiry struct {
	Ch    int   `json:"ch"`
	T     uint8 `json:"t"`
	First bool  `json:"first_half"`
	After bool  `json:"enable_after_trigger"`
	Skew  int   `json:"skew"` // extra cycles before the trigger within the half period
	// Again: after the first expiry (counter 0) trigger once more with length enabled, in the
	// first (1) or second (2) half, and run to the second expiry (reload to the maximum).
	Again int `json:"again,omitempty"`
	// Load: when the length data is written relative to the power cycle that starts the run:
	// "" after power-on (default), "before" the power-off (the counter must survive the power cycle),
	// "off" while powered off (length registers stay writable then).
	Load string `json:"load,omitempty"`
	// Junk: the NRx4 writes also have the unused bits 3-5 set (only bit 7 triggers and only bit 6 enables length)
	Junk bool `json:"junk_bits,omitempty"`
	// Env != 0 (channels 1, 2, 4): the NRx2 value used instead of F0: an envelope that fades the channel to volume 0
	// long before the counter expires. Volume 0 is not "off": only DAC, power, sweep overflow and expiry clear the bit
	Env uint8 `json:"env,omitempty"`
	// Rewrite52: RewriteAt machine cycles after the trigger NR52 is written again with this value (bit 7 set: sound is
	// on already, the write changes nothing); the counter must expire when it would have
	// Idle > 0: before the run, with the channel idle, length counting is enabled through NRx4 (bit 6 set, no trigger)
	// and Idle length clocks pass: the counter counts whether or not the channel plays, so the trigger that follows
	// (NRx1 is not rewritten) finds what is left of it — or reloads the maximum when nothing is left
	Idle      int   `json:"idle,omitempty"`
	Rewrite52 uint8 `json:"rewrite52,omitempty"`
	RewriteAt int   `json:"rewrite_at,omitempty"`
}

func c19ExpiryCheck(l *explore.Local, _ struct{}, c c19Expiry) *explore.Fail {
	p := newAPUPair()
	r := c19Ch[c.Ch]
	ctx := fmt.Sprintf("expiry run ch%d t=%02x first_half=%v enable_after=%v skew=%d", c.Ch+1, c.T, c.First, c.After, c.Skew)
	w := func(a uint16, v uint8) *explore.Fail {
		p.write(a, v)
		return p.compareNR52(ctx)
	}
	loadAt := func(when string) func() *explore.Fail {
		return func() *explore.Fail {
			if c.Load == when {
				return w(r.len, c.T)
			}
			return nil
		}
	}
	if c.Load != "" {
		ctx += " length loaded " + map[string]string{"before": "before the power cycle", "off": "while powered off"}[c.Load]
	}
	steps := []func() *explore.Fail{
		loadAt("before"),
		func() *explore.Fail { return w(0xff26, 0x00) },
		loadAt("off"),
		func() *explore.Fail { return w(0xff26, 0x80) },
		func() *explore.Fail {
			if c.Env != 0 && c.Ch != 2 {
				return w(r.dac, c.Env)
			}
			return w(r.dac, r.dacOn)
		},
		func() *explore.Fail { return w(0xff13, 0xff) },
		func() *explore.Fail { return w(0xff10, 0x00) },
		loadAt(""),
		func() *explore.Fail {
			if c.Idle == 0 {
				return nil
			}
			if f := w(r.ctl, 0x40|r.freqHi); f != nil {
				return f
			}
			return p.tick(c.Idle*4096, ctx)
		},
		func() *explore.Fail {
			n := 1
			if c.First {
				n = p.untilStep() // cross one step: the next one will not clock length
			}
			if c.Skew < 0 {
				// trigger -Skew machine cycles before the following frame-sequencer step (the write lands in the very
				// cycle at whose end the step happens when Skew = -1)
				if f := p.tick(n, ctx); f != nil {
					return f
				}
				return p.tick(p.untilStep()+c.Skew, ctx)
			}
			return p.tick(n+c.Skew, ctx)
		},
	}
	for _, s := range steps {
		if f := s(); f != nil {
			return f
		}
	}
	if c.Skew >= 0 && c.First != (p.mod.Step%2 == 1) {
		return explore.Failf("harness: could not reach the requested frame-sequencer half", "%s: model step %d", ctx, p.mod.Step)
	}
	junk := uint8(0)
	if c.Junk {
		junk = 0x38
	}
	if c.After {
		if f := w(r.ctl, 0x80|junk|r.freqHi); f != nil {
			return f
		}
		if f := p.tick(1, ctx); f != nil {
			return f
		}
		if f := w(r.ctl, 0x40|junk|r.freqHi); f != nil {
			return f
		}
	} else {
		if f := w(r.ctl, 0xc0|junk|r.freqHi); f != nil {
			return f
		}
	}
	if p.mod.Ch[c.Ch].Unspec {
		return explore.Failf("harness: the expiry run did not start with a determined channel", "%s", ctx)
	}
	total := (p.mod.Ch[c.Ch].Len + 3) * 4096
	if c.RewriteAt > 0 && c.RewriteAt < total {
		if f := p.tick(c.RewriteAt, ctx); f != nil {
			return f
		}
		ctx += fmt.Sprintf(", NR52<-%02x %d cycles after the trigger (sound already on)", c.Rewrite52, c.RewriteAt)
		if f := w(0xff26, c.Rewrite52); f != nil {
			return f
		}
		total -= c.RewriteAt
	}
	if f := p.tick(total, ctx); f != nil {
		return f
	}
	if p.mod.Ch[c.Ch].On {
		return explore.Failf("harness: model channel still on after the horizon", "%s", ctx)
	}
	if c.Again > 0 {
		n := p.untilStep()
		if (p.mod.Step%2 == 1) != (c.Again == 1) {
			n += 2048
		}
		if f := p.tick(n-5, ctx+" (before the second trigger)"); f != nil {
			return f
		}
		if f := w(r.ctl, 0xc0|r.freqHi); f != nil {
			return f
		}
		if p.mod.Ch[c.Ch].Unspec || !p.mod.Ch[c.Ch].On {
			return explore.Failf("harness: the re-trigger did not start a determined, running channel", "%s", ctx)
		}
		if f := p.tick((p.mod.Ch[c.Ch].Len+3)*4096, ctx+" (after the second trigger, counter reloaded from 0)"); f != nil {
			return f
		}
	}
	l.Eval(1)
	l.Outcome(uint64(p.cycles))
	return nil
}

// c19Sweep: channel 1 is triggered with its sweep unit programmed, NR10 is optionally rewritten while it plays (without
// a new trigger: the unit's enabled flag is latched by the trigger), and the status bit is compared with the sweep
// model after every machine cycle until the horizon: the bit must drop in the cycle of the overflowing calculation
// and not before.
type c19Sweep struct {
	NR10 uint8 `json:"nr10"`
	Freq int   `json:"freq"`
	Skew int   `json:"skew"` // machine cycles between the power cycle and the trigger
	// Rewrites: NR10 written again After sweep clocks (8,192 machine cycles each, plus 5) after the previous event
	Rewrites []c19Rewrite `json:"rewrites,omitempty"`
	Clocks   int          `json:"clocks"` // horizon after the last event, in sweep clocks
	// Len: t+1 when the channel is also running a length counter (length data t, enabled at the trigger), so that both
	// ways of switching off race
	Len int `json:"len,omitempty"`
}

type c19Rewrite struct {
	After int   `json:"after"`
	V     uint8 `json:"v"`
}

func c19SweepCheck(l *explore.Local, _ struct{}, c c19Sweep) *explore.Fail {
	p := newAPUPair()
	ctx := fmt.Sprintf("sweep run NR10=%02x f=%03x skew=%d", c.NR10, c.Freq, c.Skew)
	w := func(a uint16, v uint8) *explore.Fail {
		p.write(a, v)
		return p.compareNR52(ctx)
	}
	ctl := uint8(0x80 | c.Freq>>8)
	pre := []apuEv{{K: "w", A: 0xff26, V: 0x00}, {K: "w", A: 0xff26, V: 0x80}, {K: "w", A: 0xff12, V: 0xf0}, {K: "w", A: 0xff11, V: 0x00}}
	if c.Len > 0 {
		pre[3].V = uint8(c.Len - 1)
		ctl |= 0x40
	}
	for _, ev := range pre {
		if f := w(ev.A, ev.V); f != nil {
			return f
		}
	}
	if f := p.tick(c.Skew, ctx); f != nil {
		return f
	}
	for _, ev := range []apuEv{{A: 0xff10, V: c.NR10}, {A: 0xff13, V: uint8(c.Freq)}, {A: 0xff14, V: ctl}} {
		if f := w(ev.A, ev.V); f != nil {
			return f
		}
	}
	if p.mod.Ch[0].Unspec {
		return explore.Failf("harness: the sweep run did not start with a determined channel", "%s", ctx)
	}
	for _, rw := range c.Rewrites {
		if f := p.tick(rw.After*8192+5, ctx); f != nil {
			return f
		}
		ctx += fmt.Sprintf(", NR10=%02x %d sweep clocks later", rw.V, rw.After)
		if f := w(0xff10, rw.V); f != nil {
			return f
		}
	}
	if f := p.tick(c.Clocks*8192, ctx); f != nil {
		return f
	}
	l.Eval(1)
	l.Trans(p.cycles)
	o := uint64(p.mod.SwShadow)<<8 | uint64(p.mod.SwTimer)<<4
	if p.mod.Ch[0].On {
		o |= 1
	}
	if p.mod.Ch[0].Unspec {
		o |= 2
	}
	l.Outcome(o)
	return nil
}

// c19Wrap: sound is power-cycled Steps frame-sequencer steps (plus 5 cycles) after the machine started, a channel is
// then triggered with length enabled and 64 length clocks to go, and the run continues past the end of the first
// whole second of emulated time (1,048,576 machine cycles) until the channel has expired. The sequencer knows nothing
// of seconds: its steps stay 2,048 cycles apart and every second one clocks length, whenever sound was switched on.
type c19Wrap struct {
	Ch    int `json:"ch"`
	Steps int `json:"steps"`
	Off   int `json:"off"` // cycles sound stays off
}

func c19WrapCheck(l *explore.Local, _ struct{}, c c19Wrap) *explore.Fail {
	p := newAPUPair()
	r := c19Ch[c.Ch]
	ctx := fmt.Sprintf("channel %d, sound power-cycled %d frame-sequencer steps after the start (off for %d cycles), 64 length clocks running across the end of the first second", c.Ch+1, c.Steps, c.Off)
	if f := p.tick(c.Steps*2048+5, ctx); f != nil {
		return f
	}
	t := uint8(0)
	if c.Ch == 2 {
		t = 0xc0
	}
	p.write(0xff26, 0x00)
	if f := p.tick(c.Off, ctx); f != nil {
		return f
	}
	for _, w := range [][2]uint16{{0xff26, 0x80}, {0xff10, 0x00}, {r.dac, uint16(r.dacOn)}, {0xff13, 0x00}, {r.len, uint16(t)}, {r.ctl, 0xc0}} {
		p.write(w[0], uint8(w[1]))
		if f := p.compareNR52(ctx); f != nil {
			return f
		}
	}
	if p.mod.Ch[c.Ch].Unspec || !p.mod.Ch[c.Ch].On {
		return explore.Failf("harness: the run did not start with a determined, running channel", "%s", ctx)
	}
	if f := p.tick(67*4096, ctx); f != nil {
		return f
	}
	if p.cycles < 1048576+4096 {
		return explore.Failf("harness: the run did not cross the end of the first second", "%s: %d cycles", ctx, p.cycles)
	}
	if p.mod.Ch[c.Ch].On {
		return explore.Failf("harness: model channel still on after the horizon", "%s", ctx)
	}
	l.Eval(1)
	l.Trans(p.cycles)
	l.Outcome(uint64(c.Steps)<<8 | uint64(c.Ch))
	return nil
}

func init() {
	for ch := 0; ch < 4; ch++ {
		apuAlphabets[fmt.Sprintf("c19-ch%d", ch+1)] = c19Alphabet(ch)
	}
	register("C19", "model_checking", func(c *Ctx) {
		if c.R != nil {
			c.R.Rule = "per channel: every sequence up to the depth bound over {length loads (4 values), DAC on/off (NRx2 in {F0, 00, 08, 07}), NRx4 in {00,40,80,C0}, NR10 in {00,11} (channel 1, frequency 7FF: the sweep-overflow-at-trigger path), NR52 off/on, time: 1 cycle, to 1 cycle before the next 512 Hz step, 2 cycles, 2,048 cycles} with at most 3 writes between time advances; NR52 is compared with the reference length/status model after every event and after EVERY machine cycle; plus complete expiry runs for (channel, length data t, first/second half of the frame-sequencer period, length enabled at / after the trigger, 3 skews) checked cycle by cycle until the channel switches off, and re-trigger runs with the counter at 0 (reload to 64/256, minus the extra clock in the first half)"
			c.R.Rule += "; secondary evidence: every edge of the TLC state graph of tla/APULen.tla (an independent restatement of one channel's length counter and status bit) replayed on each real channel; plus channel 1's sweep over time: every NR10 value x 10 frequencies triggered and run for 24 sweep clocks, NR10 rewritten while playing (park / revive without a new trigger), overflow racing length expiry; the status bit must drop in the machine cycle of the overflowing calculation of the reference sweep unit (shadow frequency, timer reloaded with the period or 8, enabled flag latched at the trigger) and not before"
			c.R.Assumptions = []string{"frame-sequencer step times are observed from the implementation (phase is a convention) and checked to be exactly 2,048 machine cycles apart; the step index is the model's own (0 after power-on)", "start-up register/channel state is not asserted", "don't-cares: leaving negate mode after a calculation in it, re-trigger with the counter at its maximum without reload, wave-RAM access while channel 3 plays"}
		}
		depth := 4
		if c.Thorough() {
			depth = 6
		}
		explore.Product(c.R, "status-length-sequences", explore.PartOpt{Bound: fmt.Sprintf("every sequence up to depth %d, at most 3 consecutive writes", depth), Domain: "4 channels, from power-on and from a power cycle"},
			func(yield func(apuCase) bool) {
				for ch := 0; ch < 4; ch++ {
					name := fmt.Sprintf("c19-ch%d", ch+1)
					pre := []apuEv{{K: "w", A: 0xff26, V: 0x00}, {K: "w", A: 0xff26, V: 0x80}, {K: "w", A: 0xff13, V: 0xff}, {K: "w", A: c19Ch[ch].len, V: 0x00}}
					for i := range apuAlphabets[name] {
						if !yield(apuCase{Name: name, Pre: pre, First: i, Depth: depth, MaxW: 3, Alpha: name}) {
							return
						}
					}
				}
			}, func() struct{} { return struct{}{} }, apuDFS)
		explore.Product(c.R, "expiry-across-the-second", explore.PartOpt{Bound: "1.2 million machine cycles per run, NR52 compared after every cycle", Domain: "4 channels x sound power-cycled 440 / 441 / 443 / 446 frame-sequencer steps after the start (even and odd) x off for {1, 100, 2049} cycles; the expiry run crosses the end of the first second"},
			func(yield func(c19Wrap) bool) {
				for ch := 0; ch < 4; ch++ {
					for _, st := range []int{440, 441, 443, 446} {
						for _, off := range []int{1, 100, 2049} {
							if !c.Thorough() && off != 100 && ch != 1 {
								continue
							}
							if !yield(c19Wrap{Ch: ch, Steps: st, Off: off}) {
								return
							}
						}
					}
				}
			}, func() struct{} { return struct{}{} }, c19WrapCheck)
		explore.Product(c.R, "sweep-over-time", explore.PartOpt{Bound: "24 sweep clocks (0.19 s of emulated time) after the trigger, 20 after the last NR10 rewrite; NR52 compared after every machine cycle", Domain: "every NR10 value x 10 frequencies x 3 trigger phases; NR10 rewritten while playing: park / revive sequences (thorough: every value rewritten by every value); sweep overflow racing length expiry"},
			func(yield func(c19Sweep) bool) {
				freqs := []int{0x000, 0x001, 0x200, 0x3ff, 0x400, 0x555, 0x6ff, 0x7c0, 0x7fe, 0x7ff}
				for v := 0; v < 128; v++ {
					for _, f := range freqs {
						for _, skew := range []int{0, 4097, 3*2048 - 1} {
							if skew != 0 && !c.Thorough() && v%16 != 1 && v%16 != 9 && v>>4 != 0 {
								continue
							}
							if !yield(c19Sweep{NR10: uint8(v), Freq: f, Skew: skew, Clocks: 24}) {
								return
							}
						}
					}
				}
				// park and revive: the unit is programmed to do nothing for a while (period 0 and/or shift 0), then given work
				// again, all without a new trigger
				first := []uint8{0x11, 0x17, 0x21, 0x71, 0x19, 0x10, 0x01, 0x00}
				park := []uint8{0x00, 0x08, 0x10, 0x70, 0x07}
				revive := []uint8{0x11, 0x21, 0x71, 0x01, 0x10}
				for _, a := range first {
					for _, b := range park {
						for _, k := range []int{0, 1, 2, 9} {
							for _, d := range revive {
								for _, f := range []int{0x400, 0x700, 0x7c0} {
									if !yield(c19Sweep{NR10: a, Freq: f, Rewrites: []c19Rewrite{{1, b}, {k, d}}, Clocks: 20}) {
										return
									}
								}
							}
						}
					}
				}
				// one rewrite: every value by every value (quick: a reduced set of new values)
				for a := 0; a < 128; a++ {
					for b := 0; b < 128; b++ {
						if !c.Thorough() && !(b>>4 == 0 || b>>4 == 1 || b>>4 == 7) {
							continue
						}
						if !c.Thorough() && !(a%8 <= 1 || a%8 == 7) {
							continue
						}
						for _, k := range []int{1, 2} {
							if !c.Thorough() && k == 2 {
								continue
							}
							if !yield(c19Sweep{NR10: uint8(a), Freq: 0x600, Rewrites: []c19Rewrite{{k, uint8(b)}}, Clocks: 12}) {
								return
							}
						}
					}
				}
				// overflow racing the length counter
				for _, t := range []int{60, 61, 62, 63} {
					for _, v := range []uint8{0x11, 0x12, 0x21, 0x10} {
						for _, f := range []int{0x400, 0x600, 0x7c0} {
							if !yield(c19Sweep{NR10: v, Freq: f, Len: t + 1, Clocks: 12}) {
								return
							}
						}
					}
				}
			}, func() struct{} { return struct{}{} }, c19SweepCheck)
		explore.Product(c.R, "expiry-runs", explore.PartOpt{Bound: "run to expiry, every cycle compared", Domain: "channel x t x half x enable mode x skew {0,1,700, and 1 or 2 cycles before the following frame-sequencer step}; length data written after / before / during the power-off that precedes the run; NR52 rewritten (80 / FF) while sound is on at 4 moments of the run; envelopes that fade to volume 0 long before the expiry; length counting enabled on the idle channel 1, 2 or 5 length clocks before the trigger"},
			func(yield func(c19Expiry) bool) {
				for ch := 0; ch < 4; ch++ {
					var ts []uint8
					max := 64
					if ch == 2 {
						max = 256
					}
					for t := 0; t < max; t++ {
						if c.Thorough() || ch == 1 || t < 2 || t >= max-3 || t == max/2 {
							ts = append(ts, uint8(t))
						}
					}
					// NR52 written again while sound is on, in either half of a period; an envelope fading to volume 0
					for _, first := range []bool{false, true} {
						for _, t := range []uint8{uint8(max - 2), uint8(max - 9)} {
							for _, at := range []int{5, 2053, 4101, 6149} {
								for _, v := range []uint8{0x80, 0xff} {
									if !yield(c19Expiry{Ch: ch, T: t, First: first, Rewrite52: v, RewriteAt: at}) {
										return
									}
								}
							}
						}
						for _, t := range []uint8{uint8(max - 1), uint8(max - 3), uint8(max - 20)} {
							for _, idle := range []int{1, 2, 5} {
								for _, after := range []bool{false, true} {
									if !yield(c19Expiry{Ch: ch, T: t, First: first, After: after, Idle: idle}) {
										return
									}
								}
							}
						}
						if ch != 2 {
							for _, env := range []uint8{0x11, 0x21, 0xf1, 0x73} {
								if !yield(c19Expiry{Ch: ch, T: 0, First: first, Env: env}) {
									return
								}
							}
						}
					}
					for _, t := range ts {
						for _, first := range []bool{false, true} {
							for _, after := range []bool{false, true} {
								for _, skew := range []int{0, 1, 700, -1, -2} {
									if !yield(c19Expiry{Ch: ch, T: t, First: first, After: after, Skew: skew}) {
										return
									}
									if skew == 700 {
										if !yield(c19Expiry{Ch: ch, T: t, First: first, After: after, Skew: skew, Junk: true}) {
											return
										}
									}
									if skew == 0 {
										for _, load := range []string{"before", "off"} {
											if !yield(c19Expiry{Ch: ch, T: t, First: first, After: after, Load: load}) {
												return
											}
										}
									}
									if skew == 0 && (t == uint8(max-1) || t == uint8(max-2)) && !(ch == 2 && !c.Thorough() && after) {
										for again := 1; again <= 2; again++ {
											if !yield(c19Expiry{Ch: ch, T: t, First: first, After: after, Skew: skew, Again: again}) {
												return
											}
										}
									}
								}
							}
						}
					}
				}
			}, func() struct{} { return struct{}{} }, c19ExpiryCheck)
		c19TLCPart(c)
	})
}
