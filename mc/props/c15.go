package props

import (
	"fmt"
	"sort"

	"verifmc/explore"
	"verifmc/machine"
	"verifmc/ref"
)

// C15 — rendered frame vs the DMG composition, over a finite scene family (complete products).

type c15Obj struct {
	Y, X, Tile, Attr uint8
}

type c15Scene struct {
	LCDC, SCX, SCY, WX, WY, BGP, OBP0, OBP1 uint8
	Objs                                    []c15Obj `json:"objs"`
	Set                                     int      `json:"set"` // tile-data set
}

type c15Env struct {
	m    *machine.M
	set  int
	vram [0x2000]uint8
}

// tile data: 384 pairwise distinct pseudo-random patterns from a fixed LCG per set; maps: two fixed patterns.
func c15VRAM(set int) *[0x2000]uint8 {
	var v [0x2000]uint8
	x := uint32(0x9e3779b9) + uint32(set)*0x85ebca6b
	for i := 0; i < 0x1800; i++ {
		x = x*1664525 + 1013904223
		v[i] = uint8(x >> 24)
	}
	// make every tile unique and never fully transparent: stamp its index into row 7
	for t := 0; t < 384; t++ {
		v[t*16+14] = uint8(t)
		v[t*16+15] = uint8(t>>8) | 0x81
	}
	for i := 0; i < 0x400; i++ {
		v[0x1800+i] = uint8(i*7 + i>>5*3 + set)
		v[0x1c00+i] = uint8(i*13 + 0x55 + i>>5 + set*5)
	}
	return &v
}

func (e *c15Env) load(set int) {
	if e.m != nil && e.set == set {
		return
	}
	e.m = machine.New(machine.ROMOnly(), machine.Opts{})
	for e.m.Map.Read(0xff41)&3 == 2 {
		e.m.P.EndMachineCycle()
	}
	e.m.Map.Write(0xff40, 0x00)
	e.vram = *c15VRAM(set)
	for i, b := range e.vram {
		e.m.Map.Write(0x8000+uint16(i), b)
	}
	e.set = set
}

// c15Setup writes scene s (OAM, registers) through the Mapper with the LCD off and returns the reference scene.
func c15Setup(e *c15Env, s c15Scene) ref.Scene {
	m := e.m
	m.Map.Write(0xff40, 0x00)
	sc := ref.Scene{LCDC: s.LCDC | 0x80, SCX: s.SCX, SCY: s.SCY, WX: s.WX, WY: s.WY, BGP: s.BGP, OBP0: s.OBP0, OBP1: s.OBP1, VRAM: &e.vram}
	for i := 0; i < 160; i++ {
		v := uint8(0)
		if i/4 < len(s.Objs) {
			o := s.Objs[i/4]
			v = [4]uint8{o.Y, o.X, o.Tile, o.Attr}[i%4]
		}
		sc.OAM[i] = v
		m.Map.Write(0xfe00+uint16(i), v)
	}
	for _, av := range [][2]uint16{{0xff42, uint16(s.SCY)}, {0xff43, uint16(s.SCX)}, {0xff4a, uint16(s.WY)}, {0xff4b, uint16(s.WX)}, {0xff47, uint16(s.BGP)}, {0xff48, uint16(s.OBP0)}, {0xff49, uint16(s.OBP1)}} {
		m.Map.Write(av[0], uint8(av[1]))
	}
	return sc
}

// c15ToVBlank steps the PPU until the v-blank of the frame being drawn begins (every visible line is in the
// frame buffer, none of the next frame's lines has overwritten it yet). If a v-blank is in progress it first
// runs to the start of the next frame.
func c15ToVBlank(m *machine.M) bool {
	for i := 0; i < 1200 && m.Map.Read(0xff41)&3 == 1; i++ {
		m.P.EndMachineCycle()
	}
	for i := 0; i < 18000; i++ {
		if m.Map.Read(0xff41)&3 == 1 {
			return true
		}
		m.P.EndMachineCycle()
	}
	return false
}

// c15Compare compares the emitted frame with the reference composition.
func c15Compare(e *c15Env, sc *ref.Scene, s c15Scene, when string) *explore.Fail {
	m := e.m
	want := sc.Render()
	pix := m.P.Frame().Pix
	stride := m.P.Frame().Stride
	for y := 0; y < 144; y++ {
		for x := 0; x < 160; x++ {
			w := ref.Shades[want[y][x]]
			o := y*stride + x*4
			if pix[o] != w[0] || pix[o+1] != w[1] || pix[o+2] != w[2] || pix[o+3] != w[3] {
				return explore.Failf(c15Classify(sc, want, x, y, pix[o]), "%spixel (%d,%d) is %02x%02x%02x, DMG composition gives %02x%02x%02x (LCDC=%02x SCX=%d SCY=%d WX=%d WY=%d BGP=%02x OBP0=%02x OBP1=%02x objs=%v)",
					when, x, y, pix[o], pix[o+1], pix[o+2], w[0], w[1], w[2], sc.LCDC, s.SCX, s.SCY, s.WX, s.WY, s.BGP, s.OBP0, s.OBP1, s.Objs)
			}
		}
	}
	return nil
}

func c15Check(l *explore.Local, e *c15Env, s c15Scene) *explore.Fail {
	e.load(s.Set)
	m := e.m
	sc := c15Setup(e, s)
	m.Map.Write(0xff40, sc.LCDC)
	if !c15ToVBlank(m) {
		return explore.Failf("harness: the PPU never reaches v-blank", "LCDC=%02x", sc.LCDC)
	}
	if f := c15Compare(e, &sc, s, ""); f != nil {
		return f
	}
	pix := m.P.Frame().Pix
	l.Eval(1)
	l.Trans(1)
	l.Outcome(explore.HashBytes(pix[:160*4*8]) ^ explore.HashBytes(pix[160*4*72:160*4*80]))
	return nil
}

// c15Edit: the display keeps running; scene A (a uniform background of tile T, scrolled by SCYa, plus two objects)
// is shown for a frame, then during v-blank SCY becomes SCYb and ONE byte of tile T's data (or of the tile map) is
// rewritten; the next two frames are compared with the composition of the edited VRAM. Any copy of VRAM contents
// the renderer keeps between fetches must notice every such write.
type c15Edit struct {
	SCYa, SCYb uint8
	Addr       uint16 `json:"addr"` // VRAM address rewritten
	Val        uint8  `json:"val"`
	Set        int    `json:"set"`
}

func c15EditCheck(l *explore.Local, _ *c15Env, q c15Edit) *explore.Fail {
	e := &c15Env{}
	e.load(q.Set)
	m := e.m
	const tile = 5
	for i := 0; i < 0x400; i++ { // uniform background map
		e.vram[0x1800+i] = tile
		m.Map.Write(0x9800+uint16(i), tile)
	}
	objs := []c15Obj{{60, 40, 9, 0x00}, {100, 120, 10, 0x10}}
	sa := c15Scene{LCDC: 0x13, SCX: 0, SCY: q.SCYa, BGP: 0xe4, OBP0: 0xe4, OBP1: 0x1b, Objs: objs, Set: q.Set}
	sc := c15Setup(e, sa)
	m.Map.Write(0xff40, sc.LCDC)
	for i := 0; i < 144*114+60; i++ { // into v-blank of the first frame
		m.P.EndMachineCycle()
	}
	if m.Map.Read(0xff41)&3 != 1 {
		return explore.Failf("harness: not in v-blank where the scene is edited", "STAT=%02x", m.Map.Read(0xff41))
	}
	m.Map.Write(0xff42, q.SCYb)
	m.Map.Write(q.Addr, q.Val)
	e.vram[q.Addr-0x8000] = q.Val
	if got := m.Map.Read(q.Addr); got != q.Val {
		return nil // VRAM not writable here: outside this part
	}
	sc.SCY = q.SCYb
	sb := sa
	sb.SCY = q.SCYb
	for fr := 2; fr <= 3; fr++ {
		if !c15ToVBlank(m) {
			return explore.Failf("harness: the PPU never reaches v-blank", "LCDC=%02x", sc.LCDC)
		}
		if f := c15Compare(e, &sc, sb, fmt.Sprintf("frame %d, after VRAM %04x<-%02x and SCY %d->%d were written in the v-blank of frame 1: ", fr, q.Addr, q.Val, q.SCYa, q.SCYb)); f != nil {
			return f
		}
		l.Trans(1)
	}
	l.Eval(1)
	l.Outcome(uint64(q.Addr)<<8 | uint64(q.SCYb))
	return nil
}

// c15Reg: the display keeps running; scene A is shown for a frame, then At cycles into the v-blank one video register
// is rewritten (LCDC with bit 7 kept, a palette, a scroll or window register); the next two frames are compared with
// the composition for the new register contents. Whatever the renderer carries over from the last pixel, line or
// frame it drew (a pending object pixel, a window line, a cached palette) must not leak into the new frames.
type c15Reg struct {
	A   c15Scene `json:"a"`
	Reg uint16   `json:"reg"`
	Val uint8    `json:"val"`
	At  int      `json:"at"`
}

func c15RegCheck(l *explore.Local, _ *c15Env, q c15Reg) *explore.Fail {
	e := &c15Env{}
	e.load(q.A.Set)
	m := e.m
	sc := c15Setup(e, q.A)
	m.Map.Write(0xff40, sc.LCDC)
	if !c15ToVBlank(m) {
		return explore.Failf("harness: the PPU never reaches v-blank", "LCDC=%02x", sc.LCDC)
	}
	if f := c15Compare(e, &sc, q.A, "frame 1: "); f != nil {
		return f
	}
	for i := 0; i < q.At; i++ {
		m.P.EndMachineCycle()
	}
	if m.Map.Read(0xff41)&3 != 1 {
		return explore.Failf("harness: not in v-blank where the register is rewritten", "STAT=%02x", m.Map.Read(0xff41))
	}
	sb := q.A
	v := q.Val
	switch q.Reg {
	case 0xff40:
		v |= 0x80
		sc.LCDC, sb.LCDC = v, v
	case 0xff42:
		sc.SCY, sb.SCY = v, v
	case 0xff43:
		sc.SCX, sb.SCX = v, v
	case 0xff4a:
		sc.WY, sb.WY = v, v
	case 0xff4b:
		sc.WX, sb.WX = v, v
	case 0xff47:
		sc.BGP, sb.BGP = v, v
	case 0xff48:
		sc.OBP0, sb.OBP0 = v, v
	case 0xff49:
		sc.OBP1, sb.OBP1 = v, v
	}
	m.Map.Write(q.Reg, v)
	for fr := 2; fr <= 3; fr++ {
		if !c15ToVBlank(m) {
			return explore.Failf("harness: the PPU never reaches v-blank", "LCDC=%02x", sc.LCDC)
		}
		if f := c15Compare(e, &sc, sb, fmt.Sprintf("frame %d, after %04x<-%02x was written %d cycles into the v-blank of frame 1 (LCDC was %02x): ", fr, q.Reg, v, q.At, q.A.LCDC|0x80)); f != nil {
			return f
		}
		l.Trans(1)
	}
	l.Eval(1)
	pix := m.P.Frame().Pix
	l.Outcome(explore.HashBytes(pix[:160*4*8]) ^ explore.HashBytes(pix[160*4*136:160*4*144]))
	return nil
}

// c15Other: while scene A is being drawn, At machine cycles after the LCD was switched on, the guest writes to a
// register that has nothing to do with the picture (LY, which is read-only; LYC; STAT; IF; DIV; JOYP; a sound register;
// SB). Video registers, VRAM and OAM stay constant, so this frame and the next must equal the composition.
type c15Other struct {
	A   c15Scene `json:"a"`
	Reg uint16   `json:"reg"`
	Val uint8    `json:"val"`
	At  int      `json:"at"`
}

func c15OtherCheck(l *explore.Local, _ *c15Env, q c15Other) *explore.Fail {
	e := &c15Env{}
	e.load(q.A.Set)
	m := e.m
	sc := c15Setup(e, q.A)
	m.Map.Write(0xff40, sc.LCDC)
	for i := 0; i < q.At; i++ {
		m.P.EndMachineCycle()
	}
	m.Map.Write(q.Reg, q.Val)
	for fr := 1; fr <= 2; fr++ {
		if !c15ToVBlank(m) {
			return explore.Failf("harness: the PPU never reaches v-blank", "LCDC=%02x", sc.LCDC)
		}
		if f := c15Compare(e, &sc, q.A, fmt.Sprintf("frame %d, %04x<-%02x written %d cycles after the LCD was switched on (line %d, cycle %d of it): ", fr, q.Reg, q.Val, q.At, (q.At+2)/114, (q.At+2)%114)); f != nil {
			return f
		}
		l.Trans(1)
	}
	l.Eval(1)
	pix := m.P.Frame().Pix
	l.Outcome(explore.HashBytes(pix[:160*4*8]) ^ explore.HashBytes(pix[160*4*48:160*4*56]))
	return nil
}

// c15Seq: on a fresh emulator, scene A is displayed for OffAt machine cycles, the LCD is switched off
// (wherever in the frame that is), scene B is set up and displayed; B's first and following frames are compared.
type c15Seq struct {
	A      c15Scene `json:"a"`
	OffAt  int      `json:"off_at"`
	B      c15Scene `json:"b"`
	Frames int      `json:"frames"`
}

func c15SeqCheck(l *explore.Local, _ *c15Env, q c15Seq) *explore.Fail {
	e := &c15Env{}
	e.load(q.B.Set)
	m := e.m
	if q.OffAt >= 0 {
		sa := c15Setup(e, q.A)
		m.Map.Write(0xff40, sa.LCDC)
		for i := 0; i < q.OffAt; i++ {
			m.P.EndMachineCycle()
		}
	}
	sc := c15Setup(e, q.B)
	m.Map.Write(0xff40, sc.LCDC)
	for fr := 1; fr <= q.Frames; fr++ {
		if !c15ToVBlank(m) {
			return explore.Failf("harness: the PPU never reaches v-blank", "LCDC=%02x", sc.LCDC)
		}
		if f := c15Compare(e, &sc, q.B, fmt.Sprintf("frame %d after the LCD was switched on: ", fr)); f != nil {
			return f
		}
		l.Trans(1)
	}
	l.Eval(1)
	pix := m.P.Frame().Pix
	l.Outcome(explore.HashBytes(pix[:160*4*8]) ^ explore.HashBytes(pix[160*4*72:160*4*80]) ^ uint64(q.OffAt))
	return nil
}

// c15Classify names the class of a wrong pixel (which layer the reference took it from).
func c15Classify(sc *ref.Scene, want *[144][160]uint8, x, y int, got uint8) string {
	inObj := false
	clipped := false
	if sc.LCDC&0x02 != 0 {
		for i := 0; i < 40; i++ {
			oy, ox := int(sc.OAM[i*4]), int(sc.OAM[i*4+1])
			if oy == 0 && ox == 0 {
				continue
			}
			if y >= oy-16 && y < oy-8 && x >= ox-8 && x < ox {
				inObj = true
				if oy < 16 || oy > 152 || ox < 8 || ox > 160 {
					clipped = true
				}
			}
		}
	}
	switch {
	case inObj && clipped:
		return "wrong pixel inside an object that is partly outside the screen"
	case inObj:
		return "wrong pixel inside an object"
	case sc.LCDC&0x20 != 0 && sc.WX >= 7 && sc.WX <= 166 && int(sc.WY) <= y && x >= int(sc.WX)-7:
		return "wrong pixel in the window"
	}
	return "wrong background pixel"
}

func init() {
	register("C15", "model_checking", func(c *Ctx) {
		if c.R != nil {
			c.R.Rule = "each scene (registers, VRAM, OAM written through the Mapper with the LCD off, then LCD on for one frame of real PPU cycles) is compared pixel by pixel (160x144 RGBA) with the reference DMG composition; the scene family is a union of complete products: background/window product (tile map x addressing x SCX x SCY x window position x window map x palettes), single-object product (X at every clipping amount on the left/right edges x Y at every clipping amount on the top/bottom edges x flips x palette x priority), object-pair product (dx, dy, priorities, transparency), ten objects on a line; one VRAM byte, or one video register, rewritten in v-blank between two frames of a running display; a write to a register that does not belong to the picture (LY, LYC, STAT, IF, IE, DIV, JOYP, sound, serial, TAC) at 35 positions of the frame being drawn; tile data is one of 3 fixed sets of 384 distinct patterns selected by VERIF_SEED"
			c.R.Assumptions = []string{"preconditions of the statement: LCD and background enabled, 8x8 objects, at most 10 per line, OAM in X order, WX 7-166, constant scene", "quick tier uses a reduced scroll/window value set; every product that is enumerated is enumerated completely"}
		}
		set := ((c.Seed % 3) + 3) % 3
		th := c.Thorough()
		scroll := []uint8{0, 7, 255}
		wxs, wys := []uint8{7, 87, 166}, []uint8{0, 72, 143}
		pals := []uint8{0xe4, 0x1b}
		if th {
			scroll = []uint8{0, 1, 4, 7, 8, 9, 128, 200, 255}
			wxs, wys = []uint8{7, 8, 87, 166}, []uint8{0, 1, 72, 143}
			pals = []uint8{0xe4, 0x1b, 0x6c}
		}
		base := c15Scene{LCDC: 0x13, BGP: 0xe4, OBP0: 0xe4, OBP1: 0x1b, Set: set}
		explore.Product(c.R, "background-window", explore.PartOpt{History: 64, Bound: "one frame per scene (the emulator instance is reused from scene to scene, LCD off/on in between)", Domain: fmt.Sprintf("map x addressing x SCX,SCY in %v x window off/WX %v x WY %v x window map x palettes %02x, 3 fixed objects", scroll, wxs, wys, pals)},
			func(yield func(c15Scene) bool) {
				objs := []c15Obj{{40, 20, 5, 0x00}, {60, 90, 9, 0x90}, {100, 150, 300 & 0xff, 0x60}}
				sets := []int{set}
				if th {
					sets = []int{0, 1, 2} // every fixed tile-data/tile-map set, not only the one VERIF_SEED selects
				}
				for _, tset := range sets {
					base := base
					base.Set = tset
					for _, mapHi := range []uint8{0, 0x08} {
						for _, addr := range []uint8{0, 0x10} {
							for _, sx := range scroll {
								for _, sy := range scroll {
									for _, pal := range pals {
										s := base
										s.LCDC = 0x03 | mapHi | addr
										s.SCX, s.SCY, s.BGP, s.Objs = sx, sy, pal, objs
										if !yield(s) {
											return
										}
										for _, wmap := range []uint8{0, 0x40} {
											for _, wx := range wxs {
												for _, wy := range wys {
													w := s
													w.LCDC |= 0x20 | wmap
													w.WX, w.WY = wx, wy
													if !yield(w) {
														return
													}
												}
											}
										}
									}
								}
							}
						}
					}
				}
			}, func() *c15Env { return &c15Env{} }, c15Check)
		explore.Product(c.R, "single-object", explore.PartOpt{History: 64, Bound: "one frame per scene (the emulator instance is reused from scene to scene, LCD off/on in between)", Domain: "X in {0..8,84,160..168} x Y in {0..16,80,144..160} x 4 flips x 2 palettes x 2 priorities x 2 backgrounds"},
			func(yield func(c15Scene) bool) {
				var xs, ys []uint8
				for v := 0; v <= 8; v++ {
					xs = append(xs, uint8(v))
				}
				xs = append(xs, 84)
				for v := 160; v <= 168; v++ {
					xs = append(xs, uint8(v))
				}
				for v := 0; v <= 16; v++ {
					ys = append(ys, uint8(v))
				}
				ys = append(ys, 80)
				for v := 144; v <= 160; v++ {
					ys = append(ys, uint8(v))
				}
				for _, bgcfg := range []c15Scene{{LCDC: 0x13, BGP: 0xe4, OBP0: 0x1b, OBP1: 0xe4}, {LCDC: 0x3b, BGP: 0x1b, OBP0: 0xe4, OBP1: 0x6c, WX: 60, WY: 50, SCX: 3, SCY: 250}} {
					if !th && bgcfg.LCDC == 0x3b {
						continue
					}
					for _, x := range xs {
						for _, y := range ys {
							for _, attr := range []uint8{0x00, 0x20, 0x40, 0x60} {
								for _, pal := range []uint8{0x00, 0x10} {
									for _, pri := range []uint8{0x00, 0x80} {
										s := bgcfg
										s.Set = set
										s.Objs = []c15Obj{{y, x, uint8(7 + int(x)%5), attr | pal | pri}}
										if !yield(s) {
											return
										}
									}
								}
							}
						}
					}
				}
			}, func() *c15Env { return &c15Env{} }, c15Check)
		explore.Product(c.R, "object-pairs-and-rows", explore.PartOpt{History: 64, Bound: "one frame per scene (the emulator instance is reused from scene to scene, LCD off/on in between)", Domain: "two overlapping objects dx,dy in {-7,-4,-1,0,1,4,7} x priority/palette combinations (OAM in X order); ten objects on one line, alone and with later OAM entries on the neighbouring lines; all forty OAM entries in use; visible objects only in the last four OAM slots"},
			func(yield func(c15Scene) bool) {
				ds := []int{-7, -4, -1, 0, 1, 4, 7}
				for _, dx := range ds {
					for _, dy := range ds {
						for _, a1 := range []uint8{0x00, 0x80, 0x10} {
							for _, a2 := range []uint8{0x00, 0x90, 0x20} {
								x1, y1 := 80, 80
								x2, y2 := x1+dx, y1+dy
								o1 := c15Obj{uint8(y1), uint8(x1), 11, a1}
								o2 := c15Obj{uint8(y2), uint8(x2), 12, a2}
								objs := []c15Obj{o1, o2}
								if x2 < x1 {
									objs = []c15Obj{o2, o1}
								}
								s := base
								s.Objs = objs
								if !yield(s) {
									return
								}
							}
						}
					}
				}
				for _, y := range []uint8{16, 23, 100, 151} {
					for _, off := range []uint8{0, 3} {
						var objs []c15Obj
						for i := 0; i < 10; i++ {
							objs = append(objs, c15Obj{y, uint8(8 + off + uint8(i)*16), uint8(20 + i), uint8(i%2) << 4})
						}
						s := base
						s.Objs = objs
						if !yield(s) {
							return
						}
						// the same ten plus later OAM entries on the lines directly above and below (never more than ten
						// on any line): the scan of a full line must not leave anything behind for its neighbours
						more := append([]c15Obj(nil), objs...)
						if y >= 24 {
							more = append(more, c15Obj{y - 8, 160, 31, 0x10})
						}
						if y <= 144 {
							more = append(more, c15Obj{y + 8, 164, 32, 0x00})
						}
						more = append(more, c15Obj{uint8((int(y)+60)%140 + 16), 166, 33, 0x20})
						s.Objs = more
						if !yield(s) {
							return
						}
					}
				}
				// all forty OAM entries in use, eight per row of five rows, ordered by X within each row (the statement's
				// scenes): every slot of the table, the last ones included, must be scanned
				for _, y0 := range []uint8{16, 40} {
					var objs []c15Obj
					for i := 0; i < 40; i++ {
						objs = append(objs, c15Obj{y0 + uint8(i/8)*20, uint8(8 + (i%8)*18), uint8(20 + i), uint8(i%3) << 4})
					}
					// the statement wants OAM ordered by X: stable order by X keeps rows interleaved but X ascending
					sort.SliceStable(objs, func(a, b int) bool { return objs[a].X < objs[b].X })
					s := base
					s.Objs = objs
					if !yield(s) {
						return
					}
				}
				// thirty-six hidden entries (Y = 0) first, the visible objects in the last four slots
				{
					objs := make([]c15Obj, 36)
					objs = append(objs, c15Obj{60, 40, 21, 0x00}, c15Obj{60, 60, 22, 0x10}, c15Obj{100, 90, 23, 0x80}, c15Obj{100, 120, 24, 0x20})
					s := base
					s.Objs = objs
					if !yield(s) {
						return
					}
				}
			}, func() *c15Env { return &c15Env{} }, c15Check)
		// one VRAM byte rewritten between two frames of a running display
		explore.Product(c.R, "vram-edit-between-frames", explore.PartOpt{Bound: "one frame of scene A, one byte written in v-blank, two frames compared; fresh emulator per case",
			Domain: "uniform background of one tile x SCY before/after in 0..7 (thorough: also 8 further values) x each of the tile's 16 data bytes rewritten with 2 values; one tile-map byte at 4 positions"},
			func(yield func(c15Edit) bool) {
				scys := []uint8{0, 1, 2, 3, 4, 5, 6, 7}
				if th {
					scys = append(scys, 8, 9, 15, 16, 100, 143, 248, 255)
				}
				for _, a := range scys {
					for _, b := range scys {
						for k := 0; k < 16; k++ {
							for _, v := range []uint8{0x00, 0xff} {
								if !yield(c15Edit{SCYa: a, SCYb: b, Addr: 0x8000 + 5*16 + uint16(k), Val: v, Set: set}) {
									return
								}
							}
						}
						for _, ma := range []uint16{0x9800, 0x9813, 0x9a20, 0x9a33} {
							if !yield(c15Edit{SCYa: a, SCYb: b, Addr: ma, Val: 7, Set: set}) {
								return
							}
						}
					}
				}
			}, func() *c15Env { return nil }, c15EditCheck)
		// one register rewritten in v-blank between two frames of a running display
		{
			// objects with and without background priority on the very last pixels of the picture, the first pixels, and mid-screen
			objsC := []c15Obj{{152, 160, 5, 0x80}, {152, 160, 6, 0x90}, {152, 160, 9, 0x80}, {16, 8, 10, 0x80}, {80, 84, 11, 0x80}, {80, 90, 12, 0x10}, {150, 100, 13, 0x00}}
			regScenes := []c15Scene{
				{LCDC: 0x13, BGP: 0xe4, OBP0: 0xe4, OBP1: 0x1b, Set: set, Objs: objsC},
				{LCDC: 0x33, BGP: 0xe4, OBP0: 0x1b, OBP1: 0xe4, WX: 7, WY: 0, Set: set, Objs: objsC},
				{LCDC: 0x73, BGP: 0x1b, OBP0: 0xe4, OBP1: 0x6c, WX: 87, WY: 70, SCX: 3, SCY: 201, Set: set, Objs: objsC},
				{LCDC: 0x11, BGP: 0xe4, OBP0: 0xe4, OBP1: 0x1b, SCX: 9, SCY: 9, Set: set, Objs: objsC},
			}
			explore.Product(c.R, "register-rewrite-in-v-blank", explore.PartOpt{Bound: "one frame of scene A, one register written in v-blank, two frames compared; fresh emulator per case",
				Domain: "4 scenes (objects with background priority on the last and first pixels of the picture) x {LCDC with each of bits 1, 3, 4, 5, 6 flipped, LCDC 91/81/E3 (background stays enabled, objects stay 8x8: the statement's scope); BGP, OBP0, OBP1 x 2 values; SCX, SCY, WX, WY x 2 values} x write 0, 5, 600 or 1139 cycles into the v-blank"},
				func(yield func(c15Reg) bool) {
					for _, a := range regScenes {
						var ws [][2]uint16
						for b := 0; b < 7; b++ {
							if b == 0 || b == 2 {
								continue // the statement covers scenes with the background enabled and 8x8 objects
							}
							ws = append(ws, [2]uint16{0xff40, uint16(a.LCDC ^ 1<<uint(b))})
						}
						ws = append(ws, [2]uint16{0xff40, 0x91}, [2]uint16{0xff40, 0x81}, [2]uint16{0xff40, 0xe3},
							[2]uint16{0xff47, 0x1b}, [2]uint16{0xff47, 0x00}, [2]uint16{0xff48, 0x6c}, [2]uint16{0xff48, 0xff}, [2]uint16{0xff49, 0x6c}, [2]uint16{0xff49, 0x00},
							[2]uint16{0xff42, 0x00}, [2]uint16{0xff42, 0x8f}, [2]uint16{0xff43, 0x00}, [2]uint16{0xff43, 0x8f},
							[2]uint16{0xff4a, 0x00}, [2]uint16{0xff4a, 0x8f}, [2]uint16{0xff4b, 0x07}, [2]uint16{0xff4b, 0xa6})
						for _, w := range ws {
							for _, at := range []int{0, 5, 600, 1139} {
								if !yield(c15Reg{A: a, Reg: w[0], Val: uint8(w[1]), At: at}) {
									return
								}
							}
						}
					}
				}, func() *c15Env { return nil }, c15RegCheck)
		}
		// a write to a register that has nothing to do with the picture, in the middle of the frame
		{
			objsD := []c15Obj{{16 + 52, 8 + 40, 5, 0x00}, {16 + 52, 8 + 120, 6, 0x10}, {16 + 50, 8 + 150, 9, 0x80}, {16 + 1, 8 + 30, 10, 0x00}, {16 + 140, 8 + 60, 11, 0x20}}
			otherScenes := []c15Scene{
				{LCDC: 0x13, BGP: 0xe4, OBP0: 0xe4, OBP1: 0x1b, SCX: 3, SCY: 5, Set: set, Objs: objsD},
				{LCDC: 0x73, BGP: 0x1b, OBP0: 0xe4, OBP1: 0x6c, WX: 47, WY: 30, SCX: 0, SCY: 0, Set: set, Objs: objsD},
			}
			explore.Product(c.R, "unrelated-write-mid-frame", explore.PartOpt{Bound: "one write, this frame and the next compared; fresh emulator per case",
				Domain: "2 scenes x 13 writes (LY x 2, LYC, STAT x 2, IF, IE, DIV, JOYP, NR12, NR52, SB, TAC) x lines {0, 1, 52, 54, 143} x cycle {1, 10, 19, 24, 40, 60, 100} of the line"},
				func(yield func(c15Other) bool) {
					ws := [][2]uint16{{0xff44, 0x00}, {0xff44, 0x90}, {0xff45, 0x34}, {0xff41, 0x78}, {0xff41, 0x00}, {0xff0f, 0x00}, {0xffff, 0x1f}, {0xff04, 0x00}, {0xff00, 0x10}, {0xff12, 0xf0}, {0xff26, 0x00}, {0xff01, 0x55}, {0xff07, 0x05}}
					for _, a := range otherScenes {
						for _, w := range ws {
							for _, line := range []int{0, 1, 52, 54, 143} {
								for _, o := range []int{1, 10, 19, 24, 40, 60, 100} {
									at := line*114 - 2 + o
									if at < 1 {
										at = o
									}
									if !yield(c15Other{A: a, Reg: w[0], Val: uint8(w[1]), At: at}) {
										return
									}
								}
							}
						}
					}
				}, func() *c15Env { return nil }, c15OtherCheck)
		}
		// scene after scene on one instance: the LCD is switched off at many points of scene A's frame
		offs := []int{-1, 1, 19, 20, 61, 113, 114, 10*114 + 30, 72*114 + 5, 100*114 + 70, 143*114 + 113, 144 * 114, 150*114 + 7, 17555, 17556, 17556 + 114*80 + 3}
		frames := 2
		if th {
			frames = 3
			for k := 0; k < 154; k += 7 {
				offs = append(offs, k*114+40, k*114+90)
			}
		}
		objsA := []c15Obj{{30, 30, 5, 0x00}, {30, 38, 6, 0x10}, {90, 100, 9, 0x80}, {150, 160, 44, 0x60}}
		objsB := []c15Obj{{16, 8, 50, 0x00}, {70, 70, 51, 0x90}, {70, 74, 52, 0x20}, {120, 140, 53, 0x40}}
		scenes := []c15Scene{
			{LCDC: 0x13, BGP: 0xe4, OBP0: 0xe4, OBP1: 0x1b, Set: set, Objs: objsA},
			{LCDC: 0x33, BGP: 0xe4, OBP0: 0xe4, OBP1: 0x1b, WX: 7, WY: 0, Set: set, Objs: objsA},
			{LCDC: 0x73, BGP: 0x1b, OBP0: 0x1b, OBP1: 0xe4, WX: 60, WY: 40, SCX: 5, SCY: 250, Set: set, Objs: objsB},
			{LCDC: 0x2b, BGP: 0xe4, OBP0: 0x6c, OBP1: 0x1b, WX: 100, WY: 100, SCX: 131, SCY: 77, Set: set, Objs: objsB},
			{LCDC: 0x11, BGP: 0x6c, OBP0: 0xe4, OBP1: 0x1b, SCX: 255, SCY: 255, Set: set},
		}
		explore.Product(c.R, "scene-after-scene", explore.PartOpt{Bound: fmt.Sprintf("scene A for k machine cycles, LCD off, scene B: %d frames of B compared; fresh emulator per case", frames),
			Domain: fmt.Sprintf("every ordered pair of %d scenes (background only; window at the origin; window inside the screen with the second map; window low right; no objects) x %d switch-off points (none, inside mode 2/3/0 of line 0, mid-frame, last visible line, v-blank, frame boundary, second frame)", len(scenes), len(offs))},
			func(yield func(c15Seq) bool) {
				for _, a := range scenes {
					for _, b := range scenes {
						for _, off := range offs {
							if !yield(c15Seq{A: a, OffAt: off, B: b, Frames: frames}) {
								return
							}
						}
					}
				}
			}, func() *c15Env { return nil }, c15SeqCheck)
	})
}
