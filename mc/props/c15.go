package props

import (
	"fmt"

	"verifmc/explore"
	"verifmc/machine"
	"verifmc/ref"
)

// C15 — rendered frame vs the DMG composition, over a finite scene family (complete products).

type c15Obj struct {
	Y, X, Tile, Attr uint8
}

type c15Scene struct {
	LCDC, SCX, SCY, WX, WY, BGP, OBP0, OBP1 uint8
	Objs                                    []c15Obj `json:"objs"`
	Set                                     int      `json:"set"` // tile-data set
}

type c15Env struct {
	m    *machine.M
	set  int
	vram [0x2000]uint8
}

// tile data: 384 pairwise distinct pseudo-random patterns from a fixed LCG per set; maps: two fixed patterns.
func c15VRAM(set int) *[0x2000]uint8 {
	var v [0x2000]uint8
	x := uint32(0x9e3779b9) + uint32(set)*0x85ebca6b
	for i := 0; i < 0x1800; i++ {
		x = x*1664525 + 1013904223
		v[i] = uint8(x >> 24)
	}
	// make every tile unique and never fully transparent: stamp its index into row 7
	for t := 0; t < 384; t++ {
		v[t*16+14] = uint8(t)
		v[t*16+15] = uint8(t>>8) | 0x81
	}
	for i := 0; i < 0x400; i++ {
		v[0x1800+i] = uint8(i*7 + i>>5*3 + set)
		v[0x1c00+i] = uint8(i*13 + 0x55 + i>>5 + set*5)
	}
	return &v
}

func (e *c15Env) load(set int) {
	if e.m != nil && e.set == set {
		return
	}
	e.m = machine.New(machine.ROMOnly(), machine.Opts{})
	for e.m.Map.Read(0xff41)&3 == 2 {
		e.m.P.EndMachineCycle()
	}
	e.m.Map.Write(0xff40, 0x00)
	e.vram = *c15VRAM(set)
	for i, b := range e.vram {
		e.m.Map.Write(0x8000+uint16(i), b)
	}
	e.set = set
}

func c15Check(l *explore.Local, e *c15Env, s c15Scene) *explore.Fail {
	e.load(s.Set)
	m := e.m
	m.Map.Write(0xff40, 0x00)
	sc := ref.Scene{LCDC: s.LCDC | 0x80, SCX: s.SCX, SCY: s.SCY, WX: s.WX, WY: s.WY, BGP: s.BGP, OBP0: s.OBP0, OBP1: s.OBP1, VRAM: &e.vram}
	for i := 0; i < 160; i++ {
		v := uint8(0)
		if i/4 < len(s.Objs) {
			o := s.Objs[i/4]
			v = [4]uint8{o.Y, o.X, o.Tile, o.Attr}[i%4]
		}
		sc.OAM[i] = v
		m.Map.Write(0xfe00+uint16(i), v)
	}
	for a, v := range map[uint16]uint8{0xff42: s.SCY, 0xff43: s.SCX, 0xff4a: s.WY, 0xff4b: s.WX, 0xff47: s.BGP, 0xff48: s.OBP0, 0xff49: s.OBP1} {
		m.Map.Write(a, v)
	}
	m.Map.Write(0xff40, sc.LCDC)
	for i := 0; i < 17556+120; i++ {
		m.P.EndMachineCycle()
	}
	want := sc.Render()
	pix := m.P.Frame().Pix
	stride := m.P.Frame().Stride
	for y := 0; y < 144; y++ {
		for x := 0; x < 160; x++ {
			w := ref.Shades[want[y][x]]
			o := y*stride + x*4
			if pix[o] != w[0] || pix[o+1] != w[1] || pix[o+2] != w[2] || pix[o+3] != w[3] {
				return explore.Failf(c15Classify(&sc, want, x, y, pix[o]), "pixel (%d,%d) is %02x%02x%02x, DMG composition gives %02x%02x%02x (LCDC=%02x SCX=%d SCY=%d WX=%d WY=%d BGP=%02x OBP0=%02x OBP1=%02x objs=%v)",
					x, y, pix[o], pix[o+1], pix[o+2], w[0], w[1], w[2], sc.LCDC, s.SCX, s.SCY, s.WX, s.WY, s.BGP, s.OBP0, s.OBP1, s.Objs)
			}
		}
	}
	l.Eval(1)
	l.Trans(1)
	l.Outcome(explore.HashBytes(pix[:160*4*8]) ^ explore.HashBytes(pix[160*4*72:160*4*80]))
	return nil
}

// c15Classify names the class of a wrong pixel (which layer the reference took it from).
func c15Classify(sc *ref.Scene, want *[144][160]uint8, x, y int, got uint8) string {
	inObj := false
	clipped := false
	if sc.LCDC&0x02 != 0 {
		for i := 0; i < 40; i++ {
			oy, ox := int(sc.OAM[i*4]), int(sc.OAM[i*4+1])
			if oy == 0 && ox == 0 {
				continue
			}
			if y >= oy-16 && y < oy-8 && x >= ox-8 && x < ox {
				inObj = true
				if oy < 16 || oy > 152 || ox < 8 || ox > 160 {
					clipped = true
				}
			}
		}
	}
	switch {
	case inObj && clipped:
		return "wrong pixel inside an object that is partly outside the screen"
	case inObj:
		return "wrong pixel inside an object"
	case sc.LCDC&0x20 != 0 && sc.WX >= 7 && sc.WX <= 166 && int(sc.WY) <= y && x >= int(sc.WX)-7:
		return "wrong pixel in the window"
	}
	return "wrong background pixel"
}

func init() {
	register("C15", "model_checking", func(c *Ctx) {
		if c.R != nil {
			c.R.Rule = "each scene (registers, VRAM, OAM written through the Mapper with the LCD off, then LCD on for one frame of real PPU cycles) is compared pixel by pixel (160x144 RGBA) with the reference DMG composition; the scene family is a union of complete products: background/window product (tile map x addressing x SCX x SCY x window position x window map x palettes), single-object product (X at every clipping amount on the left/right edges x Y at every clipping amount on the top/bottom edges x flips x palette x priority), object-pair product (dx, dy, priorities, transparency), ten objects on a line; tile data is one of 3 fixed sets of 384 distinct patterns selected by VERIF_SEED"
			c.R.Assumptions = []string{"preconditions of the statement: LCD and background enabled, 8x8 objects, at most 10 per line, OAM in X order, WX 7-166, constant scene", "quick tier uses a reduced scroll/window value set; every product that is enumerated is enumerated completely"}
		}
		set := ((c.Seed % 3) + 3) % 3
		th := c.Thorough()
		scroll := []uint8{0, 7, 255}
		wxs, wys := []uint8{7, 87, 166}, []uint8{0, 72, 143}
		pals := []uint8{0xe4, 0x1b}
		if th {
			scroll = []uint8{0, 1, 7, 8, 128, 255}
			wxs, wys = []uint8{7, 8, 87, 166}, []uint8{0, 1, 72, 143}
			pals = []uint8{0xe4, 0x1b, 0x6c}
		}
		base := c15Scene{LCDC: 0x13, BGP: 0xe4, OBP0: 0xe4, OBP1: 0x1b, Set: set}
		explore.Product(c.R, "background-window", explore.PartOpt{Bound: "one frame per scene", Domain: fmt.Sprintf("map x addressing x SCX,SCY in %v x window off/WX %v x WY %v x window map x palettes %02x, 3 fixed objects", scroll, wxs, wys, pals)},
			func(yield func(c15Scene) bool) {
				objs := []c15Obj{{40, 20, 5, 0x00}, {60, 90, 9, 0x90}, {100, 150, 300 & 0xff, 0x60}}
				for _, mapHi := range []uint8{0, 0x08} {
					for _, addr := range []uint8{0, 0x10} {
						for _, sx := range scroll {
							for _, sy := range scroll {
								for _, pal := range pals {
									s := base
									s.LCDC = 0x03 | mapHi | addr
									s.SCX, s.SCY, s.BGP, s.Objs = sx, sy, pal, objs
									if !yield(s) {
										return
									}
									for _, wmap := range []uint8{0, 0x40} {
										for _, wx := range wxs {
											for _, wy := range wys {
												w := s
												w.LCDC |= 0x20 | wmap
												w.WX, w.WY = wx, wy
												if !yield(w) {
													return
												}
											}
										}
									}
								}
							}
						}
					}
				}
			}, func() *c15Env { return &c15Env{} }, c15Check)
		explore.Product(c.R, "single-object", explore.PartOpt{Bound: "one frame per scene", Domain: "X in {0..8,84,160..168} x Y in {0..16,80,144..160} x 4 flips x 2 palettes x 2 priorities x 2 backgrounds"},
			func(yield func(c15Scene) bool) {
				var xs, ys []uint8
				for v := 0; v <= 8; v++ {
					xs = append(xs, uint8(v))
				}
				xs = append(xs, 84)
				for v := 160; v <= 168; v++ {
					xs = append(xs, uint8(v))
				}
				for v := 0; v <= 16; v++ {
					ys = append(ys, uint8(v))
				}
				ys = append(ys, 80)
				for v := 144; v <= 160; v++ {
					ys = append(ys, uint8(v))
				}
				for _, bgcfg := range []c15Scene{{LCDC: 0x13, BGP: 0xe4, OBP0: 0x1b, OBP1: 0xe4}, {LCDC: 0x3b, BGP: 0x1b, OBP0: 0xe4, OBP1: 0x6c, WX: 60, WY: 50, SCX: 3, SCY: 250}} {
					if !th && bgcfg.LCDC == 0x3b {
						continue
					}
					for _, x := range xs {
						for _, y := range ys {
							for _, attr := range []uint8{0x00, 0x20, 0x40, 0x60} {
								for _, pal := range []uint8{0x00, 0x10} {
									for _, pri := range []uint8{0x00, 0x80} {
										s := bgcfg
										s.Set = set
										s.Objs = []c15Obj{{y, x, uint8(7 + int(x)%5), attr | pal | pri}}
										if !yield(s) {
											return
										}
									}
								}
							}
						}
					}
				}
			}, func() *c15Env { return &c15Env{} }, c15Check)
		explore.Product(c.R, "object-pairs-and-rows", explore.PartOpt{Bound: "one frame per scene", Domain: "two overlapping objects dx,dy in {-7,-4,-1,0,1,4,7} x priority/palette combinations (OAM in X order); ten objects on one line"},
			func(yield func(c15Scene) bool) {
				ds := []int{-7, -4, -1, 0, 1, 4, 7}
				for _, dx := range ds {
					for _, dy := range ds {
						for _, a1 := range []uint8{0x00, 0x80, 0x10} {
							for _, a2 := range []uint8{0x00, 0x90, 0x20} {
								x1, y1 := 80, 80
								x2, y2 := x1+dx, y1+dy
								o1 := c15Obj{uint8(y1), uint8(x1), 11, a1}
								o2 := c15Obj{uint8(y2), uint8(x2), 12, a2}
								objs := []c15Obj{o1, o2}
								if x2 < x1 {
									objs = []c15Obj{o2, o1}
								}
								s := base
								s.Objs = objs
								if !yield(s) {
									return
								}
							}
						}
					}
				}
				for _, y := range []uint8{16, 23, 100, 151} {
					for _, off := range []uint8{0, 3} {
						var objs []c15Obj
						for i := 0; i < 10; i++ {
							objs = append(objs, c15Obj{y, uint8(8 + off + uint8(i)*16), uint8(20 + i), uint8(i%2) << 4})
						}
						s := base
						s.Objs = objs
						if !yield(s) {
							return
						}
					}
				}
			}, func() *c15Env { return &c15Env{} }, c15Check)
	})
}
