package props

import (
	"fmt"
	"github.com/scottyw/tetromino/gameboy/cpu"

	"verifmc/explore"
	"verifmc/machine"
)

// C16 — OAM DMA: 160 bytes copied within 162 cycles, FE00-FEFF read FF meanwhile,
// OAM holds each source byte as it was when copied.

type c16Case struct {
	Kind  string `json:"kind"` // basic restart rewrite
	Page  uint8  `json:"page"`
	RAMEn bool   `json:"ram_en"`
	Page2 uint8  `json:"page2,omitempty"`
	At    int    `json:"at,omitempty"`    // restart / rewrite happens after this many cycles
	Index int    `json:"index,omitempty"` // rewrite: byte index
	// Cart: 0 = MBC1+RAM (default); 1 = MBC3+TIMER+RAM with the clock running; 2 = the same with the clock halted;
	// 3 = MBC5+RAM; 4 = ROM only; 5 = MBC2. The transfer is the console's business: the cartridge must not matter.
	Cart int `json:"cart,omitempty"`
}

func c16Machine(ramEn bool, cart ...int) *machine.M {
	img := machine.Image(0x03, 1, 2, 4)
	k := 0
	if len(cart) > 0 {
		k = cart[0]
	}
	switch k {
	case 1, 2:
		img = machine.Image(0x10, 1, 2, 4)
	case 3:
		img = machine.Image(0x1b, 1, 2, 4)
	case 4:
		img = machine.Image(0x00, 0, 0, 2)
	case 5:
		img = machine.Image(0x06, 1, 0, 4) // MBC2 with its built-in 512 x 4 bit RAM
	}
	m := machine.New(img, machine.Opts{})
	if k == 2 {
		m.Map.Write(0x0000, 0x0a)
		m.Map.Write(0x4000, 0x0c)
		m.Map.Write(0xa000, 0x40) // halt the cartridge clock
		m.Map.Write(0x4000, 0x00)
	}
	for m.Map.Read(0xff41)&3 == 2 {
		m.Hardware()
	}
	m.Map.Write(0xff40, 0x00)
	m.Map.Write(0x0000, 0x0a)
	for a := 0x8000; a < 0xe000; a++ {
		m.Map.Write(uint16(a), uint8(a*5+a>>8*3+1))
	}
	for a := 0xfe00; a < 0xfea0; a++ {
		m.Map.Write(uint16(a), 0x11)
	}
	if !ramEn {
		m.Map.Write(0x0000, 0x00)
	}
	return m
}

func c16Source(m *machine.M, page uint8) [160]uint8 {
	var s [160]uint8
	for i := range s {
		s[i] = m.Map.Read(uint16(page)<<8 + uint16(i))
	}
	return s
}

// c16Idle: no transfer is requested for n machine cycles. OAM (rewritten by the guest with a pattern of its own, the
// LCD being off) must keep that pattern and the window must stay readable: the copy engine does nothing unasked.
func c16Idle(l *explore.Local, m *machine.M, n int, desc string) *explore.Fail {
	for i := 0; i < 160; i++ {
		m.Map.Write(0xfe00+uint16(i), uint8(i*7+3))
	}
	for cyc := 1; cyc <= n; cyc++ {
		m.Hardware()
		if got := m.Map.Read(0xfea0); got != 0x00 {
			return explore.Failf("a DMA transfer runs although none was requested", "%s: FEA0 reads %02x %d cycles after the last transfer ended", desc, got, cyc)
		}
		if cyc%61 == 0 || cyc == n {
			for i := 0; i < 160; i++ {
				if got := m.Map.Read(0xfe00 + uint16(i)); got != uint8(i*7+3) {
					return explore.Failf("OAM changes although no DMA transfer was requested", "%s: OAM[%d]=%02x, the guest wrote %02x; %d cycles after the last transfer ended", desc, i, got, uint8(i*7+3), cyc)
				}
			}
		}
	}
	l.Trans(n)
	return nil
}

func c16Check(l *explore.Local, _ struct{}, c c16Case) *explore.Fail {
	m := c16Machine(c.RAMEn, c.Cart)
	if c.Kind == "idle-from-power-on" {
		if f := c16Idle(l, m, c.At, "no transfer since power-on"); f != nil {
			return f
		}
		l.Eval(1)
		return nil
	}
	step := m.Hardware
	if c.Kind == "lcdon-cpu" {
		// as "lcdon", with the CPU running too (a JR-to-itself loop in high RAM, which is not affected by the transfer):
		// what the CPU does every machine cycle besides executing must not disturb a transfer it takes no part in
		m.Map.Write(0xff80, 0x18)
		m.Map.Write(0xff81, 0xfe)
		m.CPU.VSet(cpu.VRegs{SP: 0xfffe, PC: 0xff80})
		m.I.Disable()
		step = m.Cycle
	}
	if c.Kind == "lcdon" || c.Kind == "lcdon-cpu" {
		// the display is running: the transfer starts c.At cycles after the LCD was switched on (every phase
		// of visible and v-blank lines); only the hardware is stepped, so no CPU access can arm the OAM bug
		m.Map.Write(0xff40, 0x93)
		for i := 0; i < c.At; i++ {
			step()
		}
	}
	src := c16Source(m, c.Page)
	desc := fmt.Sprintf("%s page=%02x ram_en=%v page2=%02x at=%d index=%d", c.Kind, c.Page, c.RAMEn, c.Page2, c.At, c.Index)
	m.Map.Write(0xff46, c.Page)
	started := 0 // cycles since the (last) start
	want := src
	var old, nw uint8
	done := -1
	blocked := func(cyc int) *explore.Fail {
		for _, a := range []uint16{0xfe00, 0xfe9f, 0xfea0, 0xfeff} {
			if got := m.Map.Read(a); got != 0xff {
				return explore.Failf("OAM window readable while a DMA transfer runs", "%s: %04x reads %02x after %d cycles of the transfer", desc, a, got, cyc)
			}
		}
		return nil
	}
	if f := blocked(0); f != nil {
		return f
	}
	for cyc := 1; cyc <= 340; cyc++ {
		step()
		started++
		l.Trans(1)
		finished := m.Map.Read(0xfea0) == 0x00
		if finished {
			done = started
			break
		}
		if started >= 162 {
			return explore.Failf("DMA transfer does not complete within 162 machine cycles", "%s: FEA0 still reads FF %d cycles after the start", desc, started)
		}
		if f := blocked(started); f != nil {
			return f
		}
		switch c.Kind {
		case "restart", "restart-rewrite":
			if cyc == c.At {
				if c.Kind == "restart-rewrite" {
					// the source changes just before the second request: the second transfer must deliver the new byte,
					// also at offsets the first one had already copied
					a := uint16(c.Page2)<<8 + uint16(c.Index)
					m.Map.Write(a, ^m.Map.Read(a))
				}
				want = c16Source(m, c.Page2)
				m.Map.Write(0xff46, c.Page2)
				started = 0
				if f := blocked(0); f != nil {
					return f
				}
			}
		case "rewrite":
			if cyc == c.At {
				a := uint16(c.Page)<<8 + uint16(c.Index)
				old = m.Map.Read(a)
				nw = ^old
				m.Map.Write(a, nw)
			}
		}
	}
	if done < 0 {
		return explore.Failf("DMA transfer does not complete within 162 machine cycles", "%s", desc)
	}
	for i := 0; i < 160; i++ {
		got := m.Map.Read(0xfe00 + uint16(i))
		w := want[i]
		if c.Kind == "rewrite" && i == c.Index && old != nw {
			// byte i is read around cycle i+2; one cycle of tolerance either way
			switch {
			case c.At <= i:
				w = nw
			case c.At >= i+3:
				w = old
			default:
				if got == old || got == nw {
					continue
				}
			}
			if c.At >= 200 {
				w = old
			}
		}
		if got != w {
			return explore.Failf("OAM does not hold the source bytes after a DMA transfer", "%s: OAM[%d]=%02x, source byte %02x (transfer finished after %d cycles)", desc, i, got, w, done)
		}
	}
	if got := m.Map.Read(0xfea0); got != 0 {
		return explore.Failf("FEA0-FEFF does not read 00 after the transfer", "%s: %02x", desc, got)
	}
	if c.Kind == "idle" {
		if f := c16Idle(l, m, c.At, desc); f != nil {
			return f
		}
	}
	l.Eval(1)
	l.Outcome(uint64(done)<<16 | uint64(c.Page) | uint64(want[1])<<24)
	return nil
}

func init() {
	register("C16", "model_checking", func(c *Ctx) {
		if c.R != nil {
			c.R.Rule = "on an MBC1+RAM cartridge with position-dependent contents in ROM, VRAM (LCD off), cartridge RAM, WRAM: (basic) every source page 00-F1 x RAM enabled/disabled: FE00, FE9F, FEA0, FEFF read FF after every cycle until completion, completion within 162 cycles, then OAM equals the 160 source bytes (E0-F1 through the WRAM mirror); (restart) a second FF46 write after every cycle 1-162 with 6 x 6 page pairs; (restart-rewrite) the same with the same page, its echo alias or a neighbour as second source and one source byte changed just before the second request: OAM must hold the second source as it was then; (rewrite) one source byte changed after every cycle 0-165 for byte indices {0,1,79,80,158,159}: the byte must hold the value it had when copied (old or new accepted within one cycle of the copy); (idle) after a transfer, and from power-on without one, the guest rewrites OAM and 66,000 (thorough 270,000) machine cycles pass without a request: FEA0 reads 00 in every cycle and OAM keeps the guest's bytes; (lcdon) with the display running, a transfer started at every cycle position of six lines (hardware stepped without the CPU, and with the CPU spinning in high RAM)"
			c.R.Assumptions = []string{"completion is observed through FEA0 (00 when OAM is accessible, FF during a transfer)", "ROM-only cartridges are not used here (their A0-BF sources belong to C09/C11)"}
		}
		pages := []uint8{0x00, 0x80, 0xc0, 0xdf, 0xe0, 0xf1}
		explore.Product(c.R, "dma", explore.PartOpt{Bound: "every cycle of every transfer observed", Domain: "pages 00-F1 on an MBC1 cartridge, 9 pages on MBC3 (clock running / halted), MBC5, MBC2 and ROM-only cartridges; restarts at every cycle; rewrites at every cycle; LCD on, transfer started at every cycle of lines 0, 1, 70, 143, 144, 153; 66,000 (thorough 270,000) quiet cycles after a transfer and from power-on"},
			func(yield func(c16Case) bool) {
				for p := 0; p <= 0xf1; p++ {
					for _, en := range []bool{true, false} {
						if !yield(c16Case{Kind: "basic", Page: uint8(p), RAMEn: en}) {
							return
						}
					}
				}
				// other cartridges (the clock of an MBC3 running and halted, MBC5, ROM only)
				for cart := 1; cart <= 5; cart++ {
					for _, p := range []uint8{0x00, 0x40, 0x80, 0xa0, 0xa1, 0xc0, 0xdf, 0xe0, 0xf1} {
						if cart == 4 && p == 0xa0 {
							continue
						}
						if !yield(c16Case{Kind: "basic", Page: p, RAMEn: true, Cart: cart}) {
							return
						}
					}
				}
				// long quiet stretches after a transfer and from power-on (past any 16-bit cycle count; thorough: past 2^18)
				idle := 66_000
				if c.Thorough() {
					idle = 270_000
				}
				for cart := 0; cart <= 4; cart += 4 {
					for _, p := range []uint8{0xc0, 0x00} {
						if !yield(c16Case{Kind: "idle", Page: p, RAMEn: true, Cart: cart, At: idle}) {
							return
						}
					}
					if !yield(c16Case{Kind: "idle-from-power-on", RAMEn: true, Cart: cart, At: idle}) {
						return
					}
				}
				for _, p1 := range pages {
					for _, p2 := range pages {
						if !c.Thorough() && p1 != 0xc0 && p2 != 0x80 && p1 != p2 {
							continue
						}
						for r := 1; r <= 162; r++ {
							if !yield(c16Case{Kind: "restart", Page: p1, RAMEn: true, Page2: p2, At: r}) {
								return
							}
						}
					}
				}
				for _, pp := range [][2]uint8{{0xc0, 0xc0}, {0x80, 0x80}, {0xc0, 0xe0}, {0xe0, 0xc0}, {0xd1, 0xf1}, {0xc0, 0xc1}, {0xa0, 0xa0}} {
					for _, idx := range []int{0, 1, 79, 158, 159} {
						for r := 1; r <= 162; r++ {
							if !c.Thorough() && idx != 0 && idx != 79 && r%3 != 0 {
								continue
							}
							if !yield(c16Case{Kind: "restart-rewrite", Page: pp[0], RAMEn: true, Page2: pp[1], At: r, Index: idx}) {
								return
							}
						}
					}
				}
				for _, p := range []uint8{0xc0, 0x00, 0xa0} {
					for _, line := range []int{0, 1, 70, 143, 144, 153} {
						for o := 0; o < 114; o++ {
							if !yield(c16Case{Kind: "lcdon", Page: p, RAMEn: true, At: line*114 + o}) {
								return
							}
							if p == 0xc0 || line == 1 {
								if !yield(c16Case{Kind: "lcdon-cpu", Page: p, RAMEn: true, At: line*114 + o}) {
									return
								}
							}
						}
					}
				}
				for _, p := range []uint8{0xc0, 0x80, 0xa0, 0xe1} {
					for _, idx := range []int{0, 1, 79, 80, 158, 159} {
						for w := 1; w <= 165; w++ {
							if !yield(c16Case{Kind: "rewrite", Page: p, RAMEn: true, At: w, Index: idx}) {
								return
							}
						}
					}
				}
			}, func() struct{} { return struct{}{} }, c16Check)
	})
}
