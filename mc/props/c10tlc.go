package props

import (
	"fmt"

	"github.com/scottyw/tetromino/gameboy/memory"
	"verifmc/explore"
	"verifmc/machine"
)

// C10, secondary evidence: tla/RTCLatch.tla restates the cartridge clock's latch protocol (live counters, latched
// copy, 00-then-01 latch, halt, minute carry) independently of the Go reference clock; TLC checks the statement's
// claims on it and dumps its state graph; EVERY edge is replayed on the real MBC3 cartridge through Mapper writes
// (a second of emulated time = the sub-second count placed one tick before its end by hook, then one real tick).

func c10TLCApply(m *machine.M, ev string) error {
	w := m.Map.Write
	var v int
	switch {
	case ev == "Latch0":
		w(0x6000, 0x00)
	case ev == "Latch1":
		w(0x6000, 0x01)
	case ev == "Second":
		g := m.Map.VRTCGet()
		g.Ticks = 1048575
		m.Map.VRTCSet(g)
		m.Map.EndMachineCycle()
	case ev == "Halt(TRUE)":
		w(0x4000, 0x0c)
		w(0xa000, 0x40)
	case ev == "Halt(FALSE)":
		w(0x4000, 0x0c)
		w(0xa000, 0x00)
	default:
		if n, _ := fmt.Sscanf(ev, "WSec(%d)", &v); n == 1 {
			w(0x4000, 0x08)
			w(0xa000, uint8(v))
		} else if n, _ := fmt.Sscanf(ev, "WMin(%d)", &v); n == 1 {
			w(0x4000, 0x09)
			w(0xa000, uint8(v))
		} else {
			return fmt.Errorf("unknown event %q", ev)
		}
	}
	return nil
}

func c10EdgeCheck(l *explore.Local, _ struct{}, e tlcGenEdge) *explore.Fail {
	m := machine.New(machine.Image(0x10, 1, 3, 4), machine.Opts{})
	m.Map.Write(0x0000, 0x0a)
	m.Map.VRTCSet(memory.VRTC{S: 58})
	m.Map.Write(0x6000, 0x00)
	m.Map.Write(0x6000, 0x01)
	for _, ev := range append(append([]string(nil), e.Path...), e.Ev) {
		if err := c10TLCApply(m, ev); err != nil {
			return explore.Failf("tlc-edge: "+err.Error(), "%v", e)
		}
		l.Trans(1)
	}
	w := e.Want
	ctx := fmt.Sprintf("from model state %v (reached by %v) event %s -> %v", e.Src, e.Path, e.Ev, w)
	m.Map.Write(0x4000, 0x08)
	if got := int(m.Map.Read(0xa000)); got != w.Int("ls") {
		return explore.Failf("tlc-edge: latched seconds differ from the model after "+e.Ev, "%s: reads %d", ctx, got)
	}
	m.Map.Write(0x4000, 0x09)
	if got := int(m.Map.Read(0xa000)); got != w.Int("lm") {
		return explore.Failf("tlc-edge: latched minutes differ from the model after "+e.Ev, "%s: reads %d", ctx, got)
	}
	g := m.Map.VRTCGet()
	if int(g.S) != w.Int("s") || int(g.M) != w.Int("m") || g.Halt != w.Bool("halt") {
		return explore.Failf("tlc-edge: live clock differs from the model after "+e.Ev, "%s: live %02d:%02d halt=%v", ctx, g.M, g.S, g.Halt)
	}
	l.Eval(1)
	l.Outcome(uint64(w.Int("s"))<<24 | uint64(w.Int("m"))<<16 | uint64(w.Int("ls"))<<8 | uint64(w.Int("lm")) ^ explore.Hash(e.Ev)<<32)
	return nil
}

func c10TLCPart(c *Ctx) {
	var edges []tlcGenEdge
	bound := ""
	if c.R != nil {
		if es, b, ok := tlcGraphFor(c, "RTCLatch", "RTCLatch", 6); ok {
			edges, bound = es, b
		}
	}
	explore.Product(c.R, "tlc-edge-replay", explore.PartOpt{Bound: bound, Domain: "TLA+ model tla/RTCLatch.tla (seconds 57-59, 0, 1 and minutes 0, 1 around the minute carry; latch 00 / 01; one second; writes to seconds and minutes; halt on / off)"},
		func(yield func(tlcGenEdge) bool) {
			for _, e := range edges {
				if !yield(e) {
					return
				}
			}
		}, func() struct{} { return struct{}{} }, c10EdgeCheck)
}
