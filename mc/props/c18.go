package props

import (
	"fmt"

	"github.com/scottyw/tetromino/gameboy/audio"
	"verifmc/explore"
	"verifmc/machine"
	"verifmc/ref"
)

// C18 — sound register read-back and power; C19 — channel status bits and length counters.
// Real APU through the Mapper and audio.EndMachineCycle, in lock-step with ref.APU.

type apuPair struct {
	m       *machine.M
	mod     *ref.APU
	lastFS  uint64
	sinceFS int // machine cycles since the last observed frame-sequencer step (-1: none observed yet)
	cycles  int
}

func newAPUPair() *apuPair {
	p := &apuPair{m: machine.New(machine.ROMOnly(), machine.Opts{}), mod: ref.NewAPU(), sinceFS: -1}
	p.lastFS = p.m.A.VGet().FrameSeqTicks
	// wave RAM start-up contents are not fixed by the statements: take them from the machine
	for i := 0; i < 16; i++ {
		p.mod.Wave[i] = p.m.Map.Read(0xff30 + uint16(i))
	}
	return p
}

type apuSnap struct {
	a       audio.VSnap
	mod     ref.APU
	lastFS  uint64
	sinceFS int
	cycles  int
}

func (p *apuPair) save() apuSnap {
	return apuSnap{p.m.A.VSave(), *p.mod, p.lastFS, p.sinceFS, p.cycles}
}

func (p *apuPair) load(s apuSnap) {
	p.m.A.VLoad(s.a)
	*p.mod = s.mod
	p.lastFS, p.sinceFS, p.cycles = s.lastFS, s.sinceFS, s.cycles
}

var apuRegs = []uint16{0xff10, 0xff11, 0xff12, 0xff13, 0xff14, 0xff16, 0xff17, 0xff18, 0xff19, 0xff1a, 0xff1b, 0xff1c, 0xff1d, 0xff1e,
	0xff20, 0xff21, 0xff22, 0xff23, 0xff24, 0xff25}

func (p *apuPair) write(a uint16, v uint8) {
	p.m.Map.Write(a, v)
	p.mod.Write(a, v)
	p.lastFS = p.m.A.VGet().FrameSeqTicks // a power-on write resets the sequencer's step counter: not a step
}

func (p *apuPair) compareNR52(ctx string) *explore.Fail {
	want, mask := p.mod.Read(0xff26)
	got := p.m.Map.Read(0xff26)
	if got&mask == want&mask {
		return nil
	}
	d := (got ^ want) & mask
	switch {
	case d&0x80 != 0:
		return explore.Failf("NR52 power bit wrong", "%s: NR52 reads %02x, documented %02x", ctx, got, want)
	case d&0x70 != 0:
		return explore.Failf("NR52 bits 4-6 do not read 1", "%s: NR52 reads %02x", ctx, got)
	}
	ch := 0
	for d&(1<<uint(ch)) == 0 {
		ch++
	}
	state := "on although it must be off"
	if want&(1<<uint(ch)) != 0 {
		state = "off although it must be on"
	}
	return explore.Failf(fmt.Sprintf("channel %d status bit %s", ch+1, state),
		"%s: NR52 reads %02x, documented %02x (model channel %d: dac=%v len=%d lenEn=%v step=%d)", ctx, got, want, ch+1, p.mod.Ch[ch].Dac, p.mod.Ch[ch].Len, p.mod.Ch[ch].LenEn, p.mod.Step)
}

// tick advances n machine cycles, feeding observed frame-sequencer steps to the model and
// comparing NR52 after every cycle.
func (p *apuPair) tick(n int, ctx string) *explore.Fail {
	for i := 0; i < n; i++ {
		p.m.A.EndMachineCycle()
		p.cycles++
		if p.sinceFS >= 0 {
			p.sinceFS++
		}
		if fs := p.m.A.VGet().FrameSeqTicks; fs != p.lastFS && fs != p.lastFS+1 && !(fs == 0 && p.lastFS >= 511) {
			// the implementation rewrote its step counter without stepping (a bookkeeping reset): not a step. What the
			// guest can see of it — which of the following steps clock length — is judged through NR52 as always
			p.lastFS = fs
		} else if fs != p.lastFS {
			if p.sinceFS >= 0 && p.sinceFS != 2048 {
				return explore.Failf("frame sequencer steps are not 2,048 machine cycles apart", "%s: %d cycles between two steps", ctx, p.sinceFS)
			}
			p.sinceFS = 0
			p.lastFS = fs
			p.mod.FrameStep()
		} else if p.sinceFS > 2048 {
			return explore.Failf("frame sequencer steps are not 2,048 machine cycles apart", "%s: no step for %d cycles", ctx, p.sinceFS)
		}
		if f := p.compareNR52(ctx); f != nil {
			return f
		}
	}
	return nil
}

// untilStep returns the number of cycles until the next frame-sequencer step (power-on phase: first step after 2,048 cycles).
func (p *apuPair) untilStep() int {
	if p.sinceFS >= 0 {
		return 2048 - p.sinceFS
	}
	return 2048 - p.cycles%2048
}

func (p *apuPair) compareRegs(ctx string) *explore.Fail {
	for _, a := range apuRegs {
		want, mask := p.mod.Read(a)
		if got := p.m.Map.Read(a); got&mask != want&mask {
			pw := "on"
			if !p.mod.Power {
				pw = "off"
			}
			return explore.Failf(fmt.Sprintf("%s reads wrong (power %s)", ref.NRName[a], pw), "%s: %04x reads %02x, documented %02x (mask %02x)", ctx, a, got, want, ref.NRMask[a])
		}
	}
	for _, a := range []uint16{0xff30, 0xff37, 0xff3f} {
		want, mask := p.mod.Read(a)
		if got := p.m.Map.Read(a); got&mask != want&mask {
			return explore.Failf("wave RAM does not keep its contents", "%s: %04x reads %02x, expected %02x", ctx, a, got, want)
		}
	}
	return p.compareNR52(ctx)
}

// ---- events shared by C18/C19 ----------------------------------------------------------

type apuEv struct {
	K string `json:"k"` // w | t1 | t2 | tstep (to 1 cycle before the next step) | t2048 | t4096
	A uint16 `json:"a,omitempty"`
	V uint8  `json:"v,omitempty"`
}

func (p *apuPair) apply(ev apuEv, full bool) *explore.Fail {
	ctx := fmt.Sprintf("after %s %04x<-%02x", ev.K, ev.A, ev.V)
	var f *explore.Fail
	switch ev.K {
	case "w":
		p.write(ev.A, ev.V)
	case "t1":
		f = p.tick(1, ctx)
	case "t2":
		f = p.tick(2, ctx)
	case "tstep":
		f = p.tick(p.untilStep()-1, ctx)
	case "t2048":
		f = p.tick(2048, ctx)
	case "t4096":
		f = p.tick(4096, ctx)
	}
	if f != nil {
		return f
	}
	if full {
		return p.compareRegs(ctx)
	}
	return p.compareNR52(ctx)
}

type apuCase struct {
	Name  string  `json:"name"`
	Pre   []apuEv `json:"pre,omitempty"` // fixed prefix
	First int     `json:"first"`         // index of the first event (-1: replay Path)
	Depth int     `json:"depth"`
	MaxW  int     `json:"max_w,omitempty"` // max consecutive non-time events
	Path  []apuEv `json:"path,omitempty"`
	Alpha string  `json:"alpha"`
	Full  bool    `json:"full"`
}

var apuAlphabets = map[string][]apuEv{}

func apuDFS(l *explore.Local, _ struct{}, c apuCase) *explore.Fail {
	p := newAPUPair()
	for _, ev := range c.Pre {
		if f := p.apply(ev, c.Full); f != nil {
			f.Msg += " [in the fixed prefix]"
			return f
		}
	}
	if c.First < 0 {
		expired := -1
		for i, ev := range c.Path {
			if f := p.apply(ev, c.Full); f != nil {
				return f
			}
			l.Trans(1)
			if expired < 0 && ev.K != "w" && p.m.Map.Read(0xff26)&0x0f == 0 {
				expired = i
			}
		}
		l.Eval(1)
		l.Outcome(uint64(p.m.Map.Read(0xff26)) | uint64(expired+1)<<8 | uint64(len(c.Path))<<32)
		return nil
	}
	evs := apuAlphabets[c.Alpha]
	path := []apuEv{}
	var fail *explore.Fail
	var dfs func(depth, run int)
	dfs = func(depth, run int) {
		if depth == c.Depth {
			l.Eval(1)
			st := p.m.A.VGet()
			h := uint64(p.m.Map.Read(0xff26))
			for i, e := range st.Enabled {
				if e {
					h |= 1 << uint(8+i)
				}
			}
			l.Outcome(h | uint64(p.mod.Ch[0].Len)<<16 | uint64(p.mod.Ch[2].Len)<<24 | uint64(p.mod.Step)<<36)
			return
		}
		s := p.save()
		for i, ev := range evs {
			if depth == 0 && i != c.First {
				continue
			}
			r := 0
			if ev.K == "w" {
				r = run + 1
				if c.MaxW > 0 && r > c.MaxW {
					continue
				}
			}
			path = append(path, ev)
			l.Trans(1)
			l.State(1)
			if f := p.apply(ev, c.Full); f != nil {
				f.Case = apuCase{Name: c.Name, Pre: c.Pre, First: -1, Path: append([]apuEv(nil), path...), Alpha: c.Alpha, Full: c.Full}
				fail = f
			} else {
				dfs(depth+1, r)
			}
			path = path[:len(path)-1]
			p.load(s)
			if fail != nil {
				return
			}
		}
	}
	dfs(0, 0)
	return fail
}

// ---- C18 (a): every register x every value x power state --------------------------------

type c18Case struct {
	Reg   uint16 `json:"reg"`
	State string `json:"state"` // on | off | off-on
}

func c18Check(l *explore.Local, _ struct{}, c c18Case) *explore.Fail {
	p := newAPUPair()
	for v := 0; v < 256; v++ {
		val := uint8(v)
		if c.Reg == 0xff14 || c.Reg == 0xff19 || c.Reg == 0xff1e || c.Reg == 0xff23 {
			// triggers are C19's business: here the read-back of bit 6 with every other bit pattern
		}
		switch c.State {
		case "on":
			p.write(c.Reg, ^val) // the read-back must not depend on what was there before
			p.write(c.Reg, val)
		case "off":
			p.write(0xff26, 0x00)
			p.write(c.Reg, val)
		case "off-on":
			p.write(c.Reg, ^val)
			p.write(0xff26, 0x00)
			p.write(c.Reg, val)
			p.write(0xff26, 0x80)
		}
		if f := p.compareRegs(fmt.Sprintf("state %s, %s<-%02x", c.State, ref.NRName[c.Reg], val)); f != nil {
			return f
		}
		for i := uint16(0); i < 16; i++ {
			want, mask := p.mod.Read(0xff30 + i)
			if got := p.m.Map.Read(0xff30 + i); got&mask != want&mask {
				return explore.Failf("wave RAM does not keep its contents", "state %s, %04x<-%02x: FF3%X reads %02x, expected %02x", c.State, c.Reg, val, i, got, want)
			}
		}
		l.Trans(1)
		if c.State != "on" {
			p.write(0xff26, 0x80)
		}
		// keep channels quiet for the next value
		p.write(0xff26, 0x00)
		p.write(0xff26, 0x80)
	}
	l.Eval(256)
	l.OutcomeStr(fmt.Sprint(c))
	return nil
}

// ---- C18 (c): a register keeps reading back what was written for as long as nobody writes it ------------

type c18Keep struct {
	Reg     uint16 `json:"reg"`
	Trigger bool   `json:"trigger"` // all four channels are triggered after the write (envelopes, sweep, length then run)
}

// c18KeepCheck writes every value to the register (a fresh APU per value), optionally triggers the channels, and
// lets 20 envelope periods of emulated time pass (327,680 machine cycles), reading all registers back every 4,096
// cycles: the hardware's own activity (envelope, sweep, length, frame sequencer) must never change what a
// register reads back. NR52's status bits are C19's.
func c18KeepCheck(l *explore.Local, _ struct{}, c c18Keep) *explore.Fail {
	for v := 0; v < 256; v++ {
		if c.Reg != 0xff12 && c.Reg != 0xff17 && c.Reg != 0xff21 && c.Reg != 0xff10 && v%17 != 0 && v != 0x7f && v != 0x80 {
			continue // all 256 values for the envelope and sweep registers, 18 values for the others
		}
		p := newAPUPair()
		p.write(0xff26, 0x00)
		p.write(0xff26, 0x80)
		for _, w := range [][2]uint16{{0xff11, 0x80}, {0xff12, 0x73}, {0xff16, 0x40}, {0xff17, 0x2b}, {0xff1a, 0x80}, {0xff1c, 0x40}, {0xff21, 0x94}, {0xff24, 0x77}, {0xff25, 0xff}, {0xff13, 0x00}, {0xff10, 0x00}} {
			if w[0] != c.Reg {
				p.write(w[0], uint8(w[1]))
			}
		}
		val := uint8(v)
		if c.Reg == 0xff14 || c.Reg == 0xff19 || c.Reg == 0xff1e || c.Reg == 0xff23 {
			val &= 0x7f
		}
		p.write(c.Reg, val)
		if c.Trigger {
			for _, a := range []uint16{0xff14, 0xff19, 0xff1e, 0xff23} {
				if a != c.Reg {
					p.write(a, 0x86)
				}
			}
		}
		for t := 0; t < 80; t++ {
			for i := 0; i < 4096; i++ {
				p.m.A.EndMachineCycle()
			}
			l.Trans(1)
			for _, a := range apuRegs {
				want, mask := p.mod.Read(a)
				if got := p.m.Map.Read(a); got&mask != want&mask {
					return explore.Failf(fmt.Sprintf("%s reads wrong (power on)", ref.NRName[a]),
						"%s<-%02x (channels triggered: %v), then %d machine cycles without any write: %04x reads %02x, documented %02x", ref.NRName[c.Reg], val, c.Trigger, (t+1)*4096, a, got, want)
				}
			}
			if got := p.m.Map.Read(0xff26); got&0xf0 != 0xf0 {
				return explore.Failf("NR52 bits 4-6 do not read 1", "NR52 reads %02x", got)
			}
		}
	}
	l.Eval(1)
	l.OutcomeStr(fmt.Sprint(c))
	return nil
}

// c18Wave: wave RAM is filled (channel 3 off), channel 3 plays at frequency F for K machine cycles — every phase of
// its period — and is stopped (sound powered off, its DAC switched off, or its length counter expiring); sound is
// powered on again where needed and channel 3 is triggered from idle, played for J cycles and stopped through NR30.
// Wave RAM, read with channel 3 off, must still hold the bytes written: no write went to FF30-FF3F and the channel
// was never re-triggered while it played.
type c18Wave struct {
	F    int    `json:"f"`
	K    int    `json:"k"`
	Stop string `json:"stop"` // power | dac | len
	J    int    `json:"j"`
}

func c18WaveCheck(l *explore.Local, _ struct{}, c c18Wave) *explore.Fail {
	p := newAPUPair()
	ctx := fmt.Sprintf("channel 3 at f=%03x played %d cycles, stopped by %s, triggered again from idle for %d cycles", c.F, c.K, c.Stop, c.J)
	p.write(0xff26, 0x00)
	p.write(0xff26, 0x80)
	p.write(0xff1a, 0x00)
	for i := 0; i < 16; i++ {
		p.write(0xff30+uint16(i), uint8(0x10*i+15-i)^0x5a)
	}
	wave := func(when string) *explore.Fail {
		for i := 0; i < 16; i++ {
			want, mask := p.mod.Read(0xff30 + uint16(i))
			if mask != 0xff {
				return explore.Failf("harness: the model does not determine wave RAM here", "%s (%s): byte %d", ctx, when, i)
			}
			if got := p.m.Map.Read(0xff30 + uint16(i)); got != want {
				return explore.Failf("wave RAM does not keep its contents", "%s: %s FF3%X reads %02x, written %02x", ctx, when, i, got, want)
			}
		}
		return nil
	}
	if f := wave("before playing"); f != nil {
		return f
	}
	p.write(0xff1a, 0x80)
	p.write(0xff1c, 0x20)
	p.write(0xff1d, uint8(c.F))
	ctl := uint8(0x80 | c.F>>8)
	p.write(0xff1b, 0x00)
	if c.Stop == "len" {
		// length 1: expires at the first length clock; K then counts on from the expiry
		p.write(0xff1b, 0xff)
		ctl |= 0x40
	}
	p.write(0xff1e, ctl)
	if c.Stop == "len" {
		for i := 0; i < 3*4096 && p.mod.Ch[2].On; i++ {
			if f := p.tick(1, ctx); f != nil {
				return f
			}
		}
		if p.mod.Ch[2].On {
			return explore.Failf("harness: the length counter did not expire", "%s", ctx)
		}
	}
	if f := p.tick(c.K, ctx); f != nil {
		return f
	}
	switch c.Stop {
	case "power":
		p.write(0xff26, 0x00)
		if f := p.tick(3, ctx); f != nil {
			return f
		}
		p.write(0xff26, 0x80)
	case "dac":
		p.write(0xff1a, 0x00)
	}
	if f := wave("after the stop,"); f != nil {
		return f
	}
	p.write(0xff1a, 0x80)
	p.write(0xff1d, uint8(c.F))
	p.write(0xff1e, 0x80|uint8(c.F>>8))
	if f := p.tick(c.J, ctx); f != nil {
		return f
	}
	p.write(0xff1a, 0x00)
	if f := wave("after the trigger from idle,"); f != nil {
		return f
	}
	l.Eval(1)
	l.Trans(p.cycles)
	l.Outcome(uint64(c.K)<<16 | uint64(c.F))
	return nil
}

func init() {
	vals := []uint8{0x00, 0xff, 0x55, 0xaa, 0x80, 0x7f, 0x08, 0xf7}
	var a18 []apuEv
	for _, r := range apuRegs {
		for _, v := range vals {
			if r == 0xff14 || r == 0xff19 || r == 0xff1e || r == 0xff23 {
				v &= 0x7f // no triggers in this alphabet
			}
			a18 = append(a18, apuEv{K: "w", A: r, V: v})
		}
	}
	for _, r := range []uint16{0xff30, 0xff37, 0xff3f} {
		for _, v := range vals {
			a18 = append(a18, apuEv{K: "w", A: r, V: v})
		}
	}
	a18 = append(a18, apuEv{K: "w", A: 0xff26, V: 0x00}, apuEv{K: "w", A: 0xff26, V: 0x80}, apuEv{K: "t1"}, apuEv{K: "t2048"}, apuEv{K: "t4096"})
	apuAlphabets["c18"] = a18
	// reduced value set for the deeper thorough-tier enumeration
	var a18r []apuEv
	for _, ev := range a18 {
		if ev.K != "w" || ev.A == 0xff26 || ev.V == 0x00 || ev.V == 0xff || ev.V == 0x7f || ev.V == 0x55 || ev.V == 0x08 {
			a18r = append(a18r, ev)
		}
	}
	apuAlphabets["c18r"] = a18r

	register("C18", "model_checking", func(c *Ctx) {
		if c.R != nil {
			c.R.Rule = "(a) every register NR10-NR51, and every unmapped address between them (FF15, FF1F, FF27-FF2F), x all 256 values x power state {on, off, off-then-on}, each preceded by a write of the complementary value: all 20 registers, NR52 and all of wave RAM are read back and compared with the reference (last written value OR mask while on; masks while off; writes ignored while off except NR52 and the length registers; wave RAM preserved); (c) every register written once (all 256 values for the sweep and envelope registers) and then left alone for 327,680 cycles with the channels idle or playing: the read-back never changes; (b) every sequence up to the depth bound over {write r<-v for all 20 registers + 3 wave-RAM bytes x 8 values (no trigger bits), NR52<-00, NR52<-80, 1 cycle, 2,048 cycles, 4,096 cycles}, all registers compared after every event and NR52 after every cycle; (w) wave RAM across stop and restart: channel 3 played for every number of cycles of four wave periods at 7 frequencies, stopped by power-off / DAC off / length expiry, triggered again from idle and stopped: FF30-FF3F still read the bytes written"
			c.R.Assumptions = []string{"trigger bits are excluded from the write values of (b); status bits under triggers are C19's", "NR52's low nibble is predicted by the shared length/status model"}
		}
		explore.Product(c.R, "readback-all-values", explore.PartOpt{Bound: "single write per observation", Domain: "20 registers, NR52 itself and the 11 unmapped addresses between them (FF15, FF1F, FF27-FF2F) x 256 values x 3 power states; all registers and the whole of wave RAM read back"},
			func(yield func(c18Case) bool) {
				regs := append([]uint16{0xff26, 0xff15, 0xff1f, 0xff27, 0xff28, 0xff29, 0xff2a, 0xff2b, 0xff2c, 0xff2d, 0xff2e, 0xff2f}, apuRegs...)
				for _, r := range regs {
					for _, s := range []string{"on", "off", "off-on"} {
						if !yield(c18Case{r, s}) {
							return
						}
					}
				}
			}, func() struct{} { return struct{}{} }, c18Check)
		explore.Product(c.R, "readback-over-time", explore.PartOpt{Bound: "327,680 machine cycles (20 envelope clocks) after the write, all registers read back every 4,096 cycles", Domain: "20 registers x values (all 256 for NR10 and the three envelope registers, 18 for the others) x channels triggered or not"},
			func(yield func(c18Keep) bool) {
				for _, r := range apuRegs {
					for _, tr := range []bool{false, true} {
						if !yield(c18Keep{r, tr}) {
							return
						}
					}
				}
			}, func() struct{} { return struct{}{} }, c18KeepCheck)
		explore.Product(c.R, "wave-ram-across-stop-and-restart", explore.PartOpt{Bound: "played for every K in 1..P+2 machine cycles (P = 4 wave periods, at most 300), then stopped and triggered again from idle for J in {1, 3}", Domain: "f in {7FF, 7FE, 7FC, 7F0, 7C0, 700, 400} x stop by power-off / DAC off / length expiry"},
			func(yield func(c18Wave) bool) {
				for _, f := range []int{0x7ff, 0x7fe, 0x7fc, 0x7f0, 0x7c0, 0x700, 0x400} {
					n := 4*(2048-f)/2 + 2
					if n > 300 {
						n = 300
					}
					for _, stop := range []string{"power", "dac", "len"} {
						for k := 1; k <= n; k++ {
							for _, j := range []int{1, 3} {
								if !yield(c18Wave{F: f, K: k, Stop: stop, J: j}) {
									return
								}
							}
						}
					}
				}
			}, func() struct{} { return struct{}{} }, c18WaveCheck)
		// "while off, writes other than to NR52 and the length registers are ignored": a length written while the power
		// is off is the length the channel has after power-on (seen through the moment its status bit clears)
		explore.Product(c.R, "length-written-while-off", explore.PartOpt{Bound: "one length loaded with the power on, another written with the power off, then power-on, DAC on, trigger with length counting and 4,096-cycle steps until well after the expiry; NR52 compared after every cycle", Domain: "4 channels x length values (quick: 5 per channel; thorough: all 64 / 256) x with and without a length loaded before the power-off"},
			func(yield func(apuCase) bool) {
				for ch := 0; ch < 4; ch++ {
					base := uint16(0xff10 + 5*ch)
					max := 64
					if ch == 2 {
						max = 256
					}
					vals := []int{0, 1, max / 2, max - 2, max - 1}
					if c.Thorough() {
						vals = nil
						for v := 0; v < max; v++ {
							vals = append(vals, v)
						}
					}
					for _, v := range vals {
						for _, before := range []bool{true, false} {
							var path []apuEv
							if before {
								path = append(path, apuEv{K: "w", A: base + 1, V: uint8(max - 1 - v)})
							}
							path = append(path, apuEv{K: "w", A: 0xff26, V: 0x00}, apuEv{K: "w", A: base + 1, V: uint8(v)}, apuEv{K: "w", A: 0xff26, V: 0x80})
							if ch == 2 {
								path = append(path, apuEv{K: "w", A: 0xff1a, V: 0x80})
							} else {
								path = append(path, apuEv{K: "w", A: base + 2, V: 0xf0})
							}
							path = append(path, apuEv{K: "w", A: base + 4, V: 0xc0})
							for i := 0; i < max-v+3; i++ {
								path = append(path, apuEv{K: "t4096"})
							}
							if !yield(apuCase{Name: "c18", First: -1, Path: path, Alpha: "c18", Full: true}) {
								return
							}
						}
					}
				}
			}, func() struct{} { return struct{}{} }, apuDFS)
		depth := 3
		explore.Product(c.R, "write-power-time-sequences", explore.PartOpt{Bound: fmt.Sprintf("every sequence up to depth %d over %d events (thorough: additionally depth 4 over the %d events with the value set {00,FF,7F,55,08})", depth, len(a18), len(apuAlphabets["c18r"])), Domain: "from power-on; from a powered-off start; from the second half of a frame-sequencer period (plain; all length counters at 1; all length counters at 1 and all channels playing)"},
			func(yield func(apuCase) bool) {
				// non-initial start states: powered off; second half of a frame-sequencer period; every length
				// counter one clock from expiry there; and additionally all four channels playing
				len1 := []apuEv{{K: "w", A: 0xff11, V: 0x3f}, {K: "w", A: 0xff16, V: 0x3f}, {K: "w", A: 0xff1b, V: 0xff}, {K: "w", A: 0xff20, V: 0x3f}}
				play := []apuEv{{K: "w", A: 0xff12, V: 0xf0}, {K: "w", A: 0xff17, V: 0xf0}, {K: "w", A: 0xff1a, V: 0x80}, {K: "w", A: 0xff21, V: 0xf0},
					{K: "w", A: 0xff14, V: 0x80}, {K: "w", A: 0xff19, V: 0x80}, {K: "w", A: 0xff1e, V: 0x80}, {K: "w", A: 0xff23, V: 0x80}}
				odd := []apuEv{{K: "t2048"}}
				cat := func(parts ...[]apuEv) (o []apuEv) {
					for _, p := range parts {
						o = append(o, p...)
					}
					return
				}
				for _, pre := range [][]apuEv{nil, {{K: "w", A: 0xff26, V: 0x00}}, odd, cat(len1, odd), cat(len1, play, odd)} {
					for i := range a18 {
						if !yield(apuCase{Name: "c18", Pre: pre, First: i, Depth: depth, Alpha: "c18", Full: true}) {
							return
						}
					}
					if c.Thorough() {
						for i := range apuAlphabets["c18r"] {
							if !yield(apuCase{Name: "c18", Pre: pre, First: i, Depth: 4, Alpha: "c18r", Full: true}) {
								return
							}
						}
					}
				}
			}, func() struct{} { return struct{}{} }, apuDFS)
	})
}
