package props

import (
	"fmt"

	"verifmc/explore"
	"verifmc/ref"
)

// C08 — ROM banking. (1) Complete closure of each controller's register machine under
// writes of every value to every control-region representative, for every declared ROM
// size; (2) long write sweeps on every supported cartridge-type byte; (3) every ROM page
// re-read through the windows afterwards (writes never change ROM contents).

type c08Ev struct {
	A uint16 `json:"a"`
	V uint8  `json:"v"`
}

var c08Addrs = []uint16{0x0000, 0x00ff, 0x0100, 0x1fff, 0x2000, 0x20ff, 0x2100, 0x2fff, 0x3000, 0x3fff, 0x4000, 0x5fff, 0x6000, 0x7fff}

type c08Node struct {
	p *cartPair
}

func (n *c08Node) Apply(ev c08Ev) *explore.Fail {
	n.p.m.Map.Write(ev.A, ev.V)
	n.p.mod.Write(ev.A, ev.V)
	return n.p.checkWindows("a write to " + region(ev.A))
}

func (n *c08Node) Key() string {
	m := n.p.mod
	lo := uint16(n.p.m.Map.Read(0))<<8 | uint16(n.p.m.Map.Read(1))
	hi := uint16(n.p.m.Map.Read(0x4000))<<8 | uint16(n.p.m.Map.Read(0x4001))
	b := []byte{byte(lo >> 8), byte(lo), byte(hi >> 8), byte(hi), m.Bank1, m.Bank2, byte(m.RomB >> 8), byte(m.RomB), m.RamB, 0}
	if m.RamEn {
		b[9] |= 1
	}
	if m.Mode {
		b[9] |= 2
	}
	// plus every register-sized field of the real controller struct (ROM/RAM images excluded by size), so that
	// hidden controller state — cached bank numbers, a field added later — is never merged away
	return string(b) + explore.DeepKey(n.p.m.Map.VMBCSave(false), 64)
}

type c08Snap struct {
	impl interface{}
	mod  ref.Cart
}

func c08Values(s cartSpec, full bool) []uint8 {
	if full {
		v := make([]uint8, 256)
		for i := range v {
			v[i] = uint8(i)
		}
		return v
	}
	set := map[uint8]bool{}
	for _, x := range []int{0x00, 0x01, 0x02, 0x03, 0x0a, 0x0f, 0x10, 0x11, 0x1f, 0x20, 0x21, 0x3f, 0x40, 0x5a, 0x60, 0x7f, 0x80, 0x81, 0xe0, 0xff,
		s.pages() - 1, s.pages(), s.pages() + 1, s.pages()/2 - 1, s.pages() / 2} {
		set[uint8(x)] = true
	}
	var v []uint8
	for i := 0; i < 256; i++ {
		if set[uint8(i)] {
			v = append(v, uint8(i))
		}
	}
	return v
}

// verifyPages re-reads every ROM page reachable through the windows and compares it byte by byte with the image.
func (p *cartPair) verifyPages(l *explore.Local) *explore.Fail {
	sel := func(page int) {
		w := func(a uint16, v uint8) { p.m.Map.Write(a, v); p.mod.Write(a, v) }
		switch p.mod.Kind {
		case ref.KMBC1:
			w(0x4000, uint8(page>>5))
			w(0x2000, uint8(page&31))
		case ref.KMBC2:
			w(0x2100, uint8(page))
		case ref.KMBC3:
			w(0x2000, uint8(page))
		case ref.KMBC5:
			w(0x2000, uint8(page))
			w(0x3000, uint8(page>>8))
		}
	}
	cmp := func(base uint16, page int) *explore.Fail {
		for o := 0; o < 0x4000; o++ {
			if got, want := p.m.Map.Read(base+uint16(o)), p.img[page*0x4000+o]; got != want {
				return explore.Failf(p.mod.Kind.String()+": ROM contents differ from the image",
					"cart %s: page %d offset %04x reads %02x, image has %02x", p.spec, page, o, got, want)
			}
		}
		l.Eval(1)
		return nil
	}
	for page := 0; page < p.mod.Pages; page++ {
		sel(page)
		if f := cmp(0x4000, p.mod.HighPage()); f != nil {
			return f
		}
	}
	if f := cmp(0x0000, p.mod.LowPage()); f != nil {
		return f
	}
	if p.mod.Kind == ref.KMBC1 {
		p.m.Map.Write(0x6000, 1)
		p.mod.Write(0x6000, 1)
		for b2 := 0; b2 < 4; b2++ {
			p.m.Map.Write(0x4000, uint8(b2))
			p.mod.Write(0x4000, uint8(b2))
			if f := cmp(0x0000, p.mod.LowPage()); f != nil {
				return f
			}
		}
	}
	return nil
}

// c08Rejected: only the in-between size codes 52-54 may be refused; a supported controller type with a standard
// size code that cannot even be constructed serves no ROM bank at all.
func c08Rejected(s cartSpec) *explore.Fail {
	if s.ROMCode >= 0x52 {
		return nil
	}
	k, _ := ref.KindOf(s.Type)
	return explore.Failf(k.String()+": a supported cartridge type is rejected at construction", "cart %s: building the memory map panics", s)
}

type c08Sweep struct {
	Cart  cartSpec `json:"cart"`
	Order int      `json:"order"`
}

func c08SweepCheck(l *explore.Local, _ struct{}, c c08Sweep) *explore.Fail {
	p := tryCartPair(c.Cart)
	if p == nil {
		if f := c08Rejected(c.Cart); f != nil {
			return f
		}
		l.OutcomeStr("rejected at construction: " + c.Cart.String())
		return nil
	}
	if f := p.checkWindows("power-on"); f != nil {
		return f
	}
	n := len(c08Addrs) * 256
	for i := 0; i < n; i++ {
		j := i
		switch c.Order {
		case 1:
			j = n - 1 - i
		case 2:
			j = (i * 1031) % n // 1031 is coprime with 3584
		case 3:
			j = (i*2053 + 17) % n
		}
		a, v := c08Addrs[j/256], uint8(j%256)
		if c.Order >= 2 {
			a, v = c08Addrs[j%len(c08Addrs)], uint8(j/len(c08Addrs))
		}
		p.m.Map.Write(a, v)
		p.mod.Write(a, v)
		l.Trans(1)
		if f := p.checkWindows("a write to " + region(a)); f != nil {
			f.Msg += fmt.Sprintf(" [sweep order %d, step %d: %04x<-%02x]", c.Order, i, a, v)
			return f
		}
	}
	l.Outcome(uint64(p.mod.HighPage())<<16 | uint64(p.mod.LowPage()) | uint64(c.Cart.Type)<<40)
	return p.verifyPages(l)
}

var c08Types = map[ref.CartKind][]uint8{
	ref.KNone: {0x00},
	ref.KMBC1: {0x01, 0x02, 0x03},
	ref.KMBC2: {0x05, 0x06},
	ref.KMBC3: {0x0f, 0x10, 0x11, 0x12, 0x13},
	ref.KMBC5: {0x19, 0x1a, 0x1b, 0x1c, 0x1d, 0x1e},
}

var c08Kinds = []ref.CartKind{ref.KNone, ref.KMBC1, ref.KMBC2, ref.KMBC3, ref.KMBC5}

// c08Blind: a sequence of control writes made WITHOUT looking at the windows in between, then one observation
// of both ROM windows and the RAM window. The closure reads the windows after every write; an implementation that
// computes its mapping lazily at read time (or caches it at write time and forgets one case) can behave
// differently when nothing is read between two writes.
type c08Blind struct {
	Spec  cartSpec `json:"spec"`
	First c08Ev    `json:"first"`
	Depth int      `json:"depth"`
	Path  []c08Ev  `json:"path,omitempty"` // replay: the exact sequence
}

var c08BlindVals = []uint8{0x00, 0x01, 0x0a, 0x1f, 0x20, 0x21, 0x60, 0xff}
var c08BlindAddrs = []uint16{0x0000, 0x2000, 0x2100, 0x3000, 0x4000, 0x6000, 0xa000, 0xa100} // the last two: stores into the RAM window are not control writes

func c08BlindCheck(l *explore.Local, _ struct{}, c c08Blind) *explore.Fail {
	p := tryCartPair(c.Spec)
	if p == nil {
		if f := c08Rejected(c.Spec); f != nil {
			return f
		}
		l.OutcomeStr("rejected at construction: " + c.Spec.String())
		return nil
	}
	apply := func(ev c08Ev) {
		p.m.Map.Write(ev.A, ev.V)
		p.mod.Write(ev.A, ev.V)
	}
	observe := func(path []c08Ev) *explore.Fail {
		f := p.checkWindows(fmt.Sprintf("%d writes with no read in between", len(path)))
		if f == nil {
			f = p.checkRAMWindow(fmt.Sprintf("%d control writes with no read in between", len(path)))
		}
		if f != nil {
			f.Msg += fmt.Sprintf(" [writes: %v]", path)
			f.Case = c08Blind{Spec: c.Spec, Path: append([]c08Ev(nil), path...)}
		}
		return f
	}
	if c.Path != nil {
		for _, ev := range c.Path {
			apply(ev)
		}
		return observe(c.Path)
	}
	start := c08Snap{p.m.Map.VMBCSave(false), *p.mod}
	path := make([]c08Ev, 0, c.Depth)
	var fail *explore.Fail
	var rec func(d int)
	rec = func(d int) {
		if d == c.Depth {
			// rebuild the state from the start (no snapshot taken mid-sequence: taking one is not an observation,
			// but keeping to plain writes makes the artefact exactly what was executed)
			p.m.Map.VMBCLoad(start.impl, false)
			ram := p.mod.RAM
			*p.mod = start.mod
			p.mod.RAM = ram
			for _, ev := range path {
				apply(ev)
			}
			l.Trans(len(path))
			l.Eval(1)
			fail = observe(path)
			return
		}
		for _, a := range c08BlindAddrs {
			for _, v := range c08BlindVals {
				if d == 0 && (a != c.First.A || v != c.First.V) {
					continue
				}
				path = append(path, c08Ev{a, v})
				rec(d + 1)
				path = path[:len(path)-1]
				if fail != nil {
					return
				}
			}
		}
	}
	rec(0)
	l.Outcome(uint64(c.First.A)<<8 | uint64(c.First.V) | uint64(c.Spec.Type)<<32)
	return fail
}

func init() {
	register("C08", "model_checking", func(c *Ctx) {
		if c.R != nil {
			c.R.Rule = "per cartridge (controller x declared ROM size): breadth-first closure of the controller register machine under writes of values to 14 control-region representative addresses, successors by in-place snapshot/restore of the real controller, de-duplicated on (visible page ids, model registers); after every write both ROM windows are identified through unique page signatures and compared with the documented bank arithmetic; plus every sequence of 3 (thorough 4) control writes made without reading in between followed by one observation of the ROM and RAM windows; plus 4 fixed-order sweeps of all 3584 (address,value) writes on every supported cartridge-type byte and a byte-by-byte re-read of every ROM page; secondary evidence: every edge of the TLC state graph of tla/MBC1.tla (an independent restatement of the MBC1 register machine, 128 and 16 ROM pages) replayed on the real Mapper, both ROM windows and the RAM window compared"
			c.R.Assumptions = []string{"ROM sizes up to each controller's documented maximum (ROM-only 32 KiB, MBC1/MBC3 2 MiB, MBC2 256 KiB, MBC5 8 MiB)", "synthetic images: every 16 KiB page carries its index at 4 offsets"}
		}
		for _, k := range c08Kinds {
			if k == ref.KNone {
				continue
			}
			typ := c08Types[k][len(c08Types[k])-1]
			type rr struct{ rom, ram uint8 }
			var combos []rr
			for code := uint8(0); code <= maxROMCode(k); code++ {
				combos = append(combos, rr{code, 3})
			}
			if k != ref.KMBC2 {
				// the declared RAM size has nothing to do with ROM banking: the largest ROM again with no RAM and with 64 KiB
				combos = append(combos, rr{maxROMCode(k), 0}, rr{maxROMCode(k), 5})
			}
			for _, cb := range combos {
				code := cb.rom
				spec := cartSpec{typ, code, cb.ram}
				full := c.Thorough() || ((code == maxROMCode(k) || (code == 0 && k != ref.KMBC5)) && cb.ram == 3)
				vals := c08Values(spec, full)
				var evs []c08Ev
				for _, a := range c08Addrs {
					for _, v := range vals {
						evs = append(evs, c08Ev{a, v})
					}
				}
				explore.BFS(c.R, explore.BFSSpec[cartSpec, c08Ev, *c08Node]{
					Name:   fmt.Sprintf("closure-%s-rom%d-ram%d", k, code, cb.ram),
					Starts: []cartSpec{spec},
					New:    func(s cartSpec) *c08Node { return &c08Node{newCartPair(s)} },
					Save:   func(n *c08Node) any { return c08Snap{n.p.m.Map.VMBCSave(false), *n.p.mod} },
					Load: func(n *c08Node, s any) {
						sn := s.(c08Snap)
						n.p.m.Map.VMBCLoad(sn.impl, false)
						ram := n.p.mod.RAM
						*n.p.mod = sn.mod
						n.p.mod.RAM = ram
					},
					Events: func(*c08Node) []c08Ev { return evs },
					MaxDev: -1,
					Opt:    explore.PartOpt{Bound: "unbounded depth, closure", Domain: fmt.Sprintf("%s, %d pages, %d values x %d addresses", k, spec.pages(), len(vals), len(c08Addrs))},
				})
			}
		}
		bdepth := 3
		if c.Thorough() {
			bdepth = 4
		}
		explore.Product(c.R, "blind-write-sequences", explore.PartOpt{
			Bound:  fmt.Sprintf("every sequence of %d control writes from power-on with no read in between, then one observation of both ROM windows and the RAM window", bdepth),
			Domain: "MBC1 (128 and 64 pages), MBC2, MBC3, MBC5 (512 pages) with 4 RAM banks; 6 control addresses x 8 values"},
			func(yield func(c08Blind) bool) {
				for _, spec := range []cartSpec{{0x03, 6, 3}, {0x03, 5, 3}, {0x06, 3, 0}, {0x13, 6, 3}, {0x1b, 8, 3}} {
					for d := 1; d <= bdepth; d++ {
						for _, a := range c08BlindAddrs {
							for _, v := range c08BlindVals {
								if !yield(c08Blind{Spec: spec, First: c08Ev{a, v}, Depth: d}) {
									return
								}
							}
						}
					}
				}
			}, func() struct{} { return struct{}{} }, c08BlindCheck)
		explore.Product(c.R, "sweeps-all-cart-types", explore.PartOpt{
			Bound:  "4 fixed orders of all 14x256 control writes on one instance each, then every page re-read",
			Domain: "every supported cartridge-type byte x ROM-size codes {0, 1, max} (thorough: all codes); codes 52-54 where accepted"},
			func(yield func(c08Sweep) bool) {
				for _, k := range c08Kinds {
					for _, typ := range c08Types[k] {
						for code := uint8(0); code <= maxROMCode(k); code++ {
							if !c.Thorough() && code > 1 && code != maxROMCode(k) {
								continue
							}
							for o := 0; o < 4; o++ {
								if !c.Thorough() && o%2 == 1 && code != 1 {
									continue
								}
								if !yield(c08Sweep{cartSpec{typ, code, 3}, o}) {
									return
								}
							}
						}
					}
					// the in-between size codes 52-54 (72, 80, 96 pages): where the emulator accepts such an image, "modulo the
					// ROM size" is no longer a bit mask
					for _, code := range []uint8{0x52, 0x53, 0x54} {
						for _, o := range []int{0, 2} {
							if !yield(c08Sweep{cartSpec{c08Types[k][0], code, 3}, o}) {
								return
							}
						}
					}
				}
			}, func() struct{} { return struct{}{} }, c08SweepCheck)
		explore.Product(c.R, "blind-write-sequences-odd-sizes", explore.PartOpt{Bound: "every sequence of 2 control writes without a read in between, then one observation", Domain: "ROM-size codes 52, 53, 54 (72, 80, 96 pages) on one cartridge type per controller; images the emulator rejects at construction are skipped"},
			func(yield func(c08Blind) bool) {
				for _, k := range c08Kinds {
					for _, code := range []uint8{0x52, 0x53, 0x54} {
						for _, a := range c08BlindAddrs {
							for _, v := range c08BlindVals {
								if !yield(c08Blind{Spec: cartSpec{c08Types[k][0], code, 3}, First: c08Ev{a, v}, Depth: 2}) {
									return
								}
							}
						}
					}
				}
			}, func() struct{} { return struct{}{} }, c08BlindCheck)
		c08TLCPart(c)
	})
}
