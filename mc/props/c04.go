package props

import (
	"bytes"
	"fmt"
	"sort"

	"github.com/scottyw/tetromino/gameboy/cpu"
	"verifmc/explore"
	"verifmc/ref"
)

// C04 / C05 — interrupt dispatch, EI/DI/RETI and HALT: the real CPU + Interrupts + Mapper
// run cycle by cycle with interrupt requests injected before chosen machine cycles; the
// reference CPU with the documented control rules runs boundary by boundary.

type ctlCase struct {
	Code   []uint8  `json:"code"` // placed at C000, followed by NOPs
	IME    bool     `json:"ime"`
	IE     uint8    `json:"ie"`
	IF     uint8    `json:"if"`
	Inj    [][2]int `json:"inj,omitempty"` // (before machine cycle t, source 0..4)
	Cycles int      `json:"cycles"`
	A      uint8    `json:"a,omitempty"`
	// Input: machine cycles before which the front end reports a key press to the CPU (cpu.OnInput, the
	// display's callback). A key press requests no interrupt in this emulator, so it must not end a HALT.
	Input []int `json:"input,omitempty"`
	// SP, PC: stack pointer and code address at the start (0 = DF00 / C000). With SP = 0001 the low byte of the pushed
	// return address lands on IE, with SP = FF11 on IF: the interrupt was selected and acknowledged before that byte is
	// written, so the dispatch goes to the same vector and the byte is what IE / IF hold afterwards. (A HIGH byte
	// landing on IE / IF is written before the selection on hardware and can cancel the dispatch: not enumerated.)
	SP uint16 `json:"sp,omitempty"`
	PC uint16 `json:"pc,omitempty"`
}

type ifEvent struct {
	t     int
	inj   bool
	bit   uint8 // injection: bit to set
	val   uint8 // write: new value
	order int
}

// ctlBus: IE/IF come from the reference's own bookkeeping, everything else from the real pre-state.
type ctlBus struct {
	e      *cpuEnv
	ie     *uint8
	ifNow  func() uint8
	wrIF   func(v uint8)
	wrTime *int
}

func (b ctlBus) Read(a uint16) uint8 {
	switch a {
	case 0xffff:
		return *b.ie
	case 0xff0f:
		return b.ifNow() | 0xe0
	}
	return preBus{b.e}.Read(a)
}

func (b ctlBus) Write(a uint16, v uint8) {
	switch a {
	case 0xffff:
		*b.ie = v
	case 0xff0f:
		b.wrIF(v)
	default:
		preBus{b.e}.Write(a, v)
	}
}

var srcName = [5]string{"VBlank", "STAT", "Timer", "Serial", "Joypad"}

func request(e *cpuEnv, k int) {
	switch k {
	case 0:
		e.m.I.RequestVblank()
	case 1:
		e.m.I.RequestStat()
	case 2:
		e.m.I.RequestTimer()
	case 3:
		e.m.I.RequestSerial()
	case 4:
		e.m.I.RequestJoypad()
	}
}

// runControl executes the case in lock-step. which = "C04" or "C05" (signature prefix only).
func (e *cpuEnv) runControl(l *explore.Local, c ctlCase) *explore.Fail {
	// machine setup (a preceding case may have been pruned half-way: drop its pending reference writes)
	e.log = e.log[:0]
	pc, sp := uint16(0xc000), uint16(0xdf00)
	if c.PC != 0 {
		pc = c.PC
	}
	if c.SP != 0 {
		sp = c.SP
	}
	for i := 0; i < 24; i++ {
		b := uint8(0)
		if i < len(c.Code) {
			b = c.Code[i]
		}
		e.poke(pc+uint16(i), b)
	}
	e.poke(0xdf00, 0x80) // return address C280 for RETI/RET (NOPs there)
	e.poke(0xdf01, 0xc2)
	for i := 0; i < 8; i++ {
		e.poke(0xc280+uint16(i), 0)
	}
	regs := cpu.VRegs{A: c.A, F: 0x00, B: 0x1b, C: 0x2c, D: 0x3d, E: 0x4e, H: 0xc8, L: 0x5f, SP: sp, PC: pc}
	e.m.CPU.VSet(regs)
	// a program that stores to LCDC starts with the LCD on (so that its store really switches the LCD off); the LCD
	// raises no request within the few cycles a program runs, and it is switched off again for the next case
	if bytes.Contains(c.Code, []byte{0xe0, 0x40}) {
		e.m.Map.Write(0xff40, 0x91)
		defer func() {
			e.m.Map.Write(0xff40, 0x00)
			e.m.Map.Write(0xff0f, 0x00)
		}()
	}
	e.m.Map.Write(0xffff, c.IE)
	e.m.Map.Write(0xff0f, c.IF)
	if c.IME {
		e.m.I.Enable()
	} else {
		e.m.I.Disable()
	}
	r := toRef(regs)
	r.IME = c.IME
	refIE := c.IE
	var evs []ifEvent
	now := 0
	ifAt := func(t int) uint8 { // IF after all events with time < t, plus injections at time t
		sort.SliceStable(evs, func(i, j int) bool {
			if evs[i].t != evs[j].t {
				return evs[i].t < evs[j].t
			}
			return evs[i].inj && !evs[j].inj
		})
		v := c.IF & 0x1f
		for _, ev := range evs {
			if ev.t < t || (ev.t == t && ev.inj) {
				if ev.inj {
					v |= ev.bit
				} else {
					v = ev.val & 0x1f
				}
			}
		}
		return v
	}
	for _, in := range c.Inj {
		evs = append(evs, ifEvent{t: in[0], inj: true, bit: 1 << uint(in[1])})
	}
	writeTime := 0
	bus := ctlBus{e: e, ie: &refIE, ifNow: func() uint8 { return ifAt(now) }, wrIF: func(v uint8) {
		evs = append(evs, ifEvent{t: writeTime, val: v})
	}}
	busyUntil := 0
	waking := false
	wakeStart := 0
	var lastRegs ref.CPU
	desc := func() string {
		if c.SP != 0 || c.PC != 0 {
			return fmt.Sprintf("code=% x at %04x SP=%04x IME=%v IE=%02x IF=%02x inj=%v", c.Code, pc, sp, c.IME, c.IE, c.IF, c.Inj)
		}
		if len(c.Input) > 0 {
			return fmt.Sprintf("code=% x IME=%v IE=%02x IF=%02x inj=%v key-press-before-cycle=%v", c.Code, c.IME, c.IE, c.IF, c.Inj, c.Input)
		}
		return fmt.Sprintf("code=% x IME=%v IE=%02x IF=%02x inj=%v", c.Code, c.IME, c.IE, c.IF, c.Inj)
	}
	compare := func(t int, what string) *explore.Fail {
		g := e.m.CPU.VGet()
		if g.A != r.A || g.F != r.F || g.B != r.B || g.C != r.C || g.D != r.D || g.E != r.E || g.H != r.H || g.L != r.L || g.SP != r.SP || g.PC != r.PC {
			return explore.Failf(what+": registers differ at an instruction boundary",
				"%s: before cycle %d got A=%02x F=%02x SP=%04x PC=%04x, documented A=%02x F=%02x SP=%04x PC=%04x", desc(), t, g.A, g.F, g.SP, g.PC, r.A, r.F, r.SP, r.PC)
		}
		if gi, wi := e.m.Map.Read(0xff0f)&0x1f, ifAt(t); gi != wi {
			return explore.Failf(what+": IF differs", "%s: before cycle %d IF=%02x, documented %02x", desc(), t, gi, wi)
		}
		if gi := e.m.Map.Read(0xffff); gi != refIE {
			return explore.Failf(what+": IE differs", "%s: before cycle %d IE=%02x, documented %02x", desc(), t, gi, refIE)
		}
		o := stepOutcome{}
		for _, w := range e.log {
			if plainAddr(w.Addr) {
				e.shadow[fold(w.Addr)] = w.Val
				if got := e.m.Map.Read(w.Addr); got != w.Val {
					return explore.Failf(what+": memory (stack) differs", "%s: before cycle %d address %04x holds %02x, documented %02x", desc(), t, w.Addr, got, w.Val)
				}
			}
		}
		_ = o
		e.log = e.log[:0]
		return nil
	}
	lastKind := "start"
	for t := 0; t < c.Cycles; t++ {
		now = t
		for _, in := range c.Inj {
			if in[0] == t {
				request(e, in[1])
			}
		}
		for _, it := range c.Input {
			if it == t {
				e.m.CPU.OnInput()
				r.Stopped = false // leaving STOP on a key press is the callback's documented purpose
			}
		}
		realB := e.m.CPU.VAtBoundary()
		if waking {
			// HALT left with IME=0: the wake-up latency is not fixed by the statement (0..4 cycles)
			g := e.m.CPU.VGet()
			if g.PC != lastRegs.PC && !(realB && t > wakeStart) {
				// still inside the latency the registers must not move
			}
			if realB && !g.Halted {
				waking = false
				busyUntil = t
			} else if t-wakeStart > 4 {
				return explore.Failf("halt: the CPU does not resume after an enabled request (IME=0)", "%s: still idle %d cycles after the request", desc(), t-wakeStart)
			} else {
				e.m.CPU.ExecuteMachineCycle()
				continue
			}
		}
		if t == busyUntil {
			if !realB {
				return explore.Failf(lastKind+": takes more machine cycles than documented", "%s: at cycle %d the real CPU is still busy (the reference is at a boundary)", desc(), t)
			}
			if f := compare(t, lastKind); f != nil {
				return f
			}
			writeTime = t
			pre := r
			if r.HaltBug && bus.Read(r.PC) == 0xcb {
				return nil // halt bug in front of a CB prefix: "the byte after it is executed twice" does not determine the outcome
			}
			b := r.AtBoundary(bus)
			lastRegs = pre
			switch b.Kind {
			case ref.BInstr:
				if b.Info.Undefined {
					return nil
				}
				lastKind = "after op " + opName(b.Info)
				if pre.EIDelay {
					lastKind = "instruction following EI (interrupts must stay disabled until it has executed)"
				}
				// IF writes by the instruction take effect in their documented cycle
				for i := range evs {
					if !evs[i].inj && evs[i].t == t && evs[i].order == 0 {
						evs[i].order = 1
						for _, a := range b.Info.Accesses {
							if a.Write && a.Addr == 0xff0f {
								evs[i].t = t + a.Cycle - 1
							}
						}
					}
				}
				busyUntil = t + b.Cycles
			case ref.BIdle:
				lastKind = "idle"
				busyUntil = t + 1
			case ref.BDispatch:
				lastKind = "dispatch of " + srcName[b.Source]
				for i := range evs {
					if !evs[i].inj && evs[i].t == t && evs[i].order == 0 {
						evs[i].order = 1
						evs[i].t = t + b.Cycles - 1
					}
				}
				// a request arriving while the dispatch is in progress: which source wins is unspecified — but whichever does,
				// the vector taken and the IF bit cleared must belong to the same interrupt, and it must be either the one
				// selected at the boundary or the highest-priority one pending once the late request is in
				late := uint8(0)
				for _, in := range c.Inj {
					if in[0] > t && in[0] < t+b.Cycles+1 {
						late |= 1 << uint(in[1])
					}
				}
				if late != 0 {
					ifBefore := ifAt(t)
					for k := 0; k < b.Cycles; k++ {
						if k > 0 {
							for _, in := range c.Inj {
								if in[0] == t+k {
									request(e, in[1])
								}
							}
						}
						e.m.CPU.ExecuteMachineCycle()
					}
					arrived := uint8(0)
					for _, in := range c.Inj {
						if in[0] > t && in[0] < t+b.Cycles {
							arrived |= 1 << uint(in[1])
						}
					}
					g := e.m.CPU.VGet()
					if !e.m.CPU.VAtBoundary() {
						return explore.Failf("dispatch with a late request: takes more machine cycles than documented", "%s: dispatch of %s begun at cycle %d", desc(), srcName[b.Source], t)
					}
					v := -1
					for i, a := range ref.Vectors {
						if g.PC == a {
							v = i
						}
					}
					hp := 0
					for (ifBefore|arrived)&refIE&0x1f&(1<<uint(hp)) == 0 {
						hp++
					}
					if v < 0 || (v != b.Source && v != hp) {
						return explore.Failf("dispatch with a late request: continues at the wrong address", "%s: dispatch begun at cycle %d for %s, request(s) %05b arrived during it: PC=%04x", desc(), t, srcName[b.Source], arrived, g.PC)
					}
					gotIF := e.m.Map.Read(0xff0f) & 0x1f
					if want := (ifBefore | arrived) &^ (1 << uint(v)); gotIF != want && gotIF != (ifBefore|late)&^(1<<uint(v)) {
						return explore.Failf("dispatch with a late request: the IF bit cleared does not belong to the vector taken", "%s: dispatch begun at cycle %d with IF=%02x, request(s) %05b arrived during it: continues at %04x (%s) with IF=%02x, documented %02x", desc(), t, ifBefore, arrived, g.PC, srcName[v], gotIF, want)
					}
					if g.SP != pre.SP-2 || e.m.Map.Read(g.SP) != uint8(pre.PC) || e.m.Map.Read(g.SP+1) != uint8(pre.PC>>8) {
						return explore.Failf("dispatch with a late request: return address not pushed", "%s: SP=%04x (was %04x), stack holds %02x%02x, next instruction was at %04x", desc(), g.SP, pre.SP, e.m.Map.Read(g.SP+1), e.m.Map.Read(g.SP), pre.PC)
					}
					e.log = e.log[:0]
					l.Eval(1)
					return nil
				}
				busyUntil = t + b.Cycles
			case ref.BWake:
				lastKind = "halt wake-up"
				waking = true
				wakeStart = t
				e.m.CPU.ExecuteMachineCycle()
				continue
			}
		} else if realB {
			return explore.Failf(lastKind+": takes fewer machine cycles than documented", "%s: at cycle %d the real CPU is at a boundary, the reference is busy until cycle %d", desc(), t, busyUntil)
		}
		e.m.CPU.ExecuteMachineCycle()
	}
	g := e.m.CPU.VGet()
	l.Outcome(uint64(g.PC)<<16 | uint64(g.SP) ^ uint64(e.m.Map.Read(0xff0f))<<40 ^ uint64(g.A)<<48)
	l.Eval(1)
	l.Trans(c.Cycles)
	return nil
}

// the last two are JR NZ,+0 and JR Z,+0: with the flags the programs start from one is taken and one is not (conditional
// instructions are the ones that can finish before their last micro-op; a dispatch may follow either kind)
// and LDH (40),A: a store to a register of another unit (with the values A takes here it switches the LCD off), which is
// no interrupt-control instruction: the master enable, IE and IF are none of its business
var c04Alphabet = [][]uint8{{0x00}, {0xfb}, {0xf3}, {0xd9}, {0x3c}, {0xe0, 0x0f}, {0xe0, 0xff}, {0x3e, 0x00}, {0x3e, 0x1f}, {0x20, 0x00}, {0x28, 0x00}, {0xe0, 0x40}}

type c04Block struct {
	Fam  string   `json:"fam"`
	Prog []int    `json:"prog,omitempty"` // alphabet indices
	IE   uint8    `json:"ie"`
	IME  bool     `json:"ime"`
	One  *ctlCase `json:"one,omitempty"`
	Two  bool     `json:"two,omitempty"` // also enumerate a second injection
}

func c04Check(l *explore.Local, e *cpuEnv, b c04Block) *explore.Fail {
	wrap := func(f *explore.Fail, c ctlCase) *explore.Fail {
		if f != nil {
			cc := c
			f.Case = c04Block{Fam: "one", One: &cc}
		}
		return f
	}
	switch b.Fam {
	case "one":
		return e.runControl(l, *b.One)
	case "table":
		// complete IE x IF x IME table at a boundary (IE given by the block)
		for iff := 0; iff < 32; iff++ {
			for _, hi := range []uint8{0x00, 0xe0} {
				c := ctlCase{Code: []uint8{0x3c, 0x3c}, IME: b.IME, IE: b.IE | hi, IF: uint8(iff), Cycles: 9}
				if f := e.runControl(l, c); f != nil {
					return wrap(f, c)
				}
			}
			// the stack wraps onto the interrupt registers: the low byte of the return address is pushed onto IE / IF
			for _, sp := range []uint16{0x0001, 0xff11} {
				for _, pc := range []uint16{0xc000, 0xc00c, 0xc013, 0xc01f} {
					c := ctlCase{Code: []uint8{0x3c, 0x3c}, IME: b.IME, IE: b.IE, IF: uint8(iff), Cycles: 9, SP: sp, PC: pc}
					if f := e.runControl(l, c); f != nil {
						return wrap(f, c)
					}
				}
			}
		}
	case "prog":
		var code []uint8
		for _, i := range b.Prog {
			code = append(code, c04Alphabet[i]...)
		}
		cycles := 22
		base := ctlCase{Code: code, IME: b.IME, IE: b.IE, Cycles: cycles, A: 0x04}
		if f := e.runControl(l, base); f != nil {
			return wrap(f, base)
		}
		for k := 0; k < 5; k++ {
			for j := 0; j < 14; j++ {
				c := base
				c.Inj = [][2]int{{j, k}}
				if f := e.runControl(l, c); f != nil {
					return wrap(f, c)
				}
				if b.Two {
					for k2 := 0; k2 < 5; k2++ {
						for j2 := j; j2 < 14; j2 += 2 {
							if k2 == k && j2 == j {
								continue
							}
							c2 := base
							c2.Inj = [][2]int{{j, k}, {j2, k2}}
							if f := e.runControl(l, c2); f != nil {
								return wrap(f, c2)
							}
						}
					}
				}
			}
		}
	}
	return nil
}

func progs(n int, yield func([]int) bool) {
	p := make([]int, n)
	var rec func(i int) bool
	rec = func(i int) bool {
		if i == n {
			return yield(append([]int(nil), p...))
		}
		for a := range c04Alphabet {
			p[i] = a
			if !rec(i + 1) {
				return false
			}
		}
		return true
	}
	rec(0)
}

func init() {
	register("C04", "model_checking", func(c *Ctx) {
		if c.R != nil {
			c.R.Rule = "(a) complete table IE(32) x IF(32) x IME(2) (+ unused high bits) at an instruction boundary; (b) every program of the length bound over {NOP, EI, DI, RETI, INC A, LDH (0F),A, LDH (FF),A, LD A,00, LD A,1F, JR NZ,+0, JR Z,+0} x initial IME x IE in {00,1F,01,04,10,05} x one interrupt request of every source raised before every machine cycle 0..13 (and none), and for programs of up to 2 instructions (thorough 3) every pair of requests; the real CPU runs cycle by cycle, the reference control machine boundary by boundary; compared at every boundary: boundary times (dispatch = 5 cycles), all registers, IF, IE, pushed return address"
			c.R.Assumptions = []string{"a request arriving while a dispatch is in progress: which source wins is unspecified; required: vector and cleared IF bit belong to the same interrupt, which is the one selected at the boundary or the highest-priority one pending with the late request (the case ends there)", "the IME flag itself is not observed, only its behavioural effect", "HALT directly after EI is outside this alphabet (C05 covers HALT)"}
		}
		explore.Product(c.R, "boundary-table", explore.PartOpt{Bound: "one boundary + following instruction", Domain: "IE 0-31 x IF 0-31 x IME x high bits {00,E0}; again with the stack placed so that the low byte of the return address is pushed onto IE (SP=0001) or IF (SP=FF11) x 4 code addresses"},
			func(yield func(c04Block) bool) {
				for ie := 0; ie < 32; ie++ {
					for _, ime := range []bool{false, true} {
						if !yield(c04Block{Fam: "table", IE: uint8(ie), IME: ime}) {
							return
						}
					}
				}
			}, newCPUEnv, c04Check)
		n := 3
		if c.Thorough() {
			n = 4
		}
		explore.Product(c.R, "control-programs", explore.PartOpt{Bound: fmt.Sprintf("all programs of length %d (and shorter, as prefixes followed by NOPs); 1 injected request at every cycle 0-13 x 5 sources", n), Domain: "IME x IE {00,1F,01,04,10,05}"},
			func(yield func(c04Block) bool) {
				for ln := 1; ln <= n; ln++ {
					ok := true
					progs(ln, func(p []int) bool {
						for _, ie := range []uint8{0x00, 0x1f, 0x01, 0x04, 0x10, 0x05} {
							for _, ime := range []bool{false, true} {
								if !yield(c04Block{Fam: "prog", Prog: p, IE: ie, IME: ime, Two: ln <= 2 || (c.Thorough() && ln <= 3)}) {
									ok = false
									return false
								}
							}
						}
						return true
					})
					if !ok {
						return
					}
				}
			}, newCPUEnv, c04Check)
		ihTLCPart(c)
	})
}
