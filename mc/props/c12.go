package props

import (
	"fmt"

	"github.com/scottyw/tetromino/gameboy/timer"
	"verifmc/explore"
	"verifmc/machine"
	"verifmc/ref"
)

// C12 — the timer. Real timer.Timer in lock-step with ref.Timer under every
// interleaving of ticks with DIV/TIMA/TMA/TAC writes up to a depth and deviation
// bound, from start states at every phase around each edge bit and counter wrap.

type c12Start struct {
	Counter        uint16
	TIMA, TMA, TAC uint8
}

type c12Ev struct {
	K string `json:"k"` // tick div tima tma tac | ticks (N plain ticks, history prefixes only)
	V uint8  `json:"v"`
	N int    `json:"n,omitempty"`
}

type c12Case struct {
	Start c12Start `json:"start"`
	// Pre: a fixed history executed (in lock-step, every step compared) before the enumeration starts,
	// so that the search begins in a non-initial state (e.g. after a completed overflow/reload).
	Pre    []c12Ev `json:"pre,omitempty"`
	Depth  int     `json:"depth,omitempty"`
	MaxDev int     `json:"max_dev,omitempty"`
	Path   []c12Ev `json:"path,omitempty"`
}

type c12Pair struct {
	impl *timer.Timer
	mod  ref.Timer
}

func c12New(s c12Start) *c12Pair {
	t := timer.New()
	// registers first (through the real write paths, with the power-on counter), then the counter
	t.WriteTIMA(s.TIMA)
	t.WriteTMA(s.TMA)
	t.WriteTAC(s.TAC)
	t.EndMachineCycle() // clears the write markers; no edge can fire: TAC was 0 before this cycle
	if t.ReadTIMA() != s.TIMA {
		// the first tick may legitimately see no edge (lastEdge false); TIMA must still be what was written
		t.WriteTIMA(s.TIMA)
		t.EndMachineCycle()
	}
	t.VSetCounter(s.Counter)
	p := &c12Pair{impl: t, mod: ref.NewTimer(s.Counter)}
	p.mod.Tima, p.mod.Tma, p.mod.Tac = s.TIMA, s.TMA, s.TAC&7
	// the edge signal as the implementation last sampled it
	p.mod.Prev = t.VGet().LastEdgeSet
	return p
}

var phaseName = [3]string{"idle", "overflowed(00)", "reload-cycle"}

func (p *c12Pair) apply(ev c12Ev) (f *explore.Fail, prune bool) {
	before := p.mod.Phase
	irq := false
	switch ev.K {
	case "tick":
		irq = p.impl.EndMachineCycle()
		if ok, why := p.mod.Tick(irq); !ok {
			return explore.Failf("irq: "+why, "EndMachineCycle returned %v in phase %s: %s", irq, phaseName[before], why), false
		}
	case "div":
		p.impl.WriteDIV(ev.V)
		p.mod.WriteDIV()
	case "tima":
		p.impl.WriteTIMA(ev.V)
		p.mod.WriteTIMA(ev.V)
	case "tma":
		p.impl.WriteTMA(ev.V)
		p.mod.WriteTMA(ev.V)
	case "tac":
		p.impl.WriteTAC(ev.V)
		p.mod.WriteTAC(ev.V)
	}
	if p.mod.Unspec {
		return nil, true
	}
	if g, w := p.impl.ReadDIV(), p.mod.ReadDIV(); g != w {
		return explore.Failf("div-wrong after "+ev.K, "DIV reads %02x, expected %02x", g, w), false
	}
	if g, w := p.impl.ReadTAC(), p.mod.ReadTAC(); g != w {
		return explore.Failf("tac-readback", "TAC reads %02x, expected %02x", g, w), false
	}
	if g, w := p.impl.ReadTMA(), p.mod.ReadTMA(); g != w {
		return explore.Failf("tma-readback", "TMA reads %02x, expected %02x", g, w), false
	}
	if g := p.impl.ReadTIMA(); !p.mod.TIMAOk(g) {
		return explore.Failf(fmt.Sprintf("tima-wrong after %s in phase %s", ev.K, phaseName[before]),
			"TIMA reads %02x, expected %02x (model: div=%04x tac=%x tma=%02x phase now %s)", g, p.mod.Tima, p.mod.Div, p.mod.Tac, p.mod.Tma, phaseName[p.mod.Phase]), false
	}
	return nil, false
}

func c12Events(tmaVals, timaVals []uint8) []c12Ev {
	evs := []c12Ev{{K: "tick"}, {K: "div", V: 0xa5}} // any value written to DIV clears it
	for _, v := range timaVals {
		evs = append(evs, c12Ev{K: "tima", V: v})
	}
	for _, v := range tmaVals {
		evs = append(evs, c12Ev{K: "tma", V: v})
	}
	for v := 0; v < 8; v++ {
		evs = append(evs, c12Ev{K: "tac", V: uint8(v)})
	}
	return evs
}

var c12Alphabet = c12Events([]uint8{0x00, 0x57, 0xff}, []uint8{0x00, 0x57, 0xff})

func c12Check(l *explore.Local, _ struct{}, c c12Case) *explore.Fail {
	p := c12New(c.Start)
	for _, ev := range c.Pre {
		n := 1
		if ev.K == "ticks" {
			n, ev = ev.N, c12Ev{K: "tick"}
		}
		for i := 0; i < n; i++ {
			f, prune := p.apply(ev)
			l.Trans(1)
			if f != nil {
				f.Msg += " [in the history prefix]"
				return f
			}
			if prune {
				return nil
			}
		}
	}
	if c.Path != nil {
		for _, ev := range c.Path {
			n := 1
			if ev.K == "ticks" {
				n, ev = ev.N, c12Ev{K: "tick"}
			}
			for i := 0; i < n; i++ {
				f, prune := p.apply(ev)
				l.Trans(1)
				if f != nil {
					return f
				}
				if prune {
					return nil
				}
			}
		}
		l.Eval(1)
		l.Outcome(uint64(p.impl.ReadTIMA()) | uint64(p.mod.Phase)<<8 | uint64(c.Start.TMA)<<16)
		return nil
	}
	path := make([]c12Ev, 0, c.Depth)
	var fail *explore.Fail
	var dfs func(depth, dev int)
	dfs = func(depth, dev int) {
		if depth == c.Depth {
			l.Eval(1)
			st := p.impl.VGet()
			l.Outcome(uint64(st.Counter) | uint64(st.TIMA)<<16 | uint64(st.TAC)<<24 | uint64(p.mod.Phase)<<32)
			return
		}
		savedI, savedM := *p.impl, p.mod
		for i, ev := range c12Alphabet {
			d := dev
			if i > 0 {
				if dev == c.MaxDev {
					break
				}
				d++
			}
			f, prune := p.apply(ev)
			l.Trans(1)
			l.State(1)
			if f != nil {
				if fail == nil {
					f.Case = c12Case{Start: c.Start, Pre: c.Pre, Path: append(append([]c12Ev(nil), path...), ev)}
					fail = f
				}
			} else if !prune {
				path = append(path, ev)
				dfs(depth+1, d)
				path = path[:len(path)-1]
			}
			*p.impl, p.mod = savedI, savedM
			if fail != nil {
				return
			}
		}
	}
	// iterate the deviation bound: 0, 1, ... so that the first counter-example has the fewest interventions
	maxDev := c.MaxDev
	for b := 0; b <= maxDev && fail == nil; b++ {
		c.MaxDev = b
		if b < maxDev {
			// lower bounds are subsumed by the final pass; only run them to find minimal counter-examples cheaply
			if b > 1 {
				continue
			}
		}
		dfs(0, 0)
	}
	return fail
}

func c12Starts(thorough bool) []c12Start {
	cs := map[uint16]bool{0xabcc: true}
	for _, b := range []uint{3, 5, 7, 9} {
		period := uint16(1) << (b + 1)
		for j := uint16(0); j <= 5; j++ {
			cs[period-4*j] = true        // just before the falling edge of bit b
			cs[period/2-4*j] = true      // just before the rising edge
			cs[0x8000+period-4*j] = true // same, high in the range
		}
	}
	for c := 0xffe8; c <= 0xfffc; c += 4 {
		cs[uint16(c)] = true
	}
	for c := 0; c <= 0x14; c += 4 {
		cs[uint16(c)] = true
	}
	timas := []uint8{0x00, 0xfe, 0xff}
	tmas := []uint8{0x00, 0x23, 0xff}
	if thorough {
		timas = []uint8{0x00, 0x7f, 0xfd, 0xfe, 0xff}
		tmas = []uint8{0x00, 0x23, 0xfe, 0xff}
	}
	var keys []int
	for c := range cs {
		keys = append(keys, int(c))
	}
	sortInts(keys)
	var out []c12Start
	for _, c := range keys {
		for _, ti := range timas {
			for _, tm := range tmas {
				for tac := uint8(0); tac < 8; tac++ {
					out = append(out, c12Start{uint16(c), ti, tm, tac})
				}
			}
		}
	}
	return out
}

// ---- long runs: writes placed at every position around every overflow ------------------

type c12Long struct {
	Start c12Start `json:"start"`
	Ticks int      `json:"ticks"`
	At1   int      `json:"at1"` // tick index before which event 1 is applied (-1 none)
	Ev1   c12Ev    `json:"ev1"`
	At2   int      `json:"at2"`
	Ev2   c12Ev    `json:"ev2"`
}

func c12LongCheck(l *explore.Local, _ struct{}, c c12Long) *explore.Fail {
	p := c12New(c.Start)
	for i := 0; i < c.Ticks; i++ {
		if i == c.At1 {
			if f, prune := p.apply(c.Ev1); f != nil {
				return f
			} else if prune {
				return nil
			}
		}
		if i == c.At2 {
			if f, prune := p.apply(c.Ev2); f != nil {
				return f
			} else if prune {
				return nil
			}
		}
		f, prune := p.apply(c12Ev{K: "tick"})
		l.Trans(1)
		if f != nil {
			return f
		}
		if prune {
			return nil
		}
	}
	l.Eval(1)
	l.Outcome(uint64(p.impl.ReadTIMA()) | uint64(p.impl.ReadDIV())<<8)
	return nil
}

func timerBitOf(tac uint8) uint { return [4]uint{9, 3, 5, 7}[tac&3] }

// overflowTicks runs the model alone and returns the tick indices at which TIMA overflows.
func c12OverflowTicks(s c12Start, ticks int) []int {
	m := ref.NewTimer(s.Counter)
	m.Tima, m.Tma, m.Tac = s.TIMA, s.TMA, s.TAC&7
	var out []int
	for i := 0; i < ticks; i++ {
		was := m.Phase
		m.Tick(m.Phase != ref.TOvf && false)
		m.IrqDue = false
		if m.Phase == ref.TOvf && was != ref.TOvf {
			out = append(out, i)
		}
	}
	return out
}

// c12Bus: the timer registers as the guest sees them — through Mapper.Read / Mapper.Write at FF04-FF07 — against the
// timer's own read methods and the reference, one write and 300 ticks per case: the bus wiring belongs to the
// property ("DIV/TIMA/TMA/TAC read-back") as much as the timer's state machine does.
type c12Bus struct {
	Reg uint16 `json:"reg"`
	Val uint8  `json:"val"`
}

func c12BusCheck(l *explore.Local, _ struct{}, c c12Bus) *explore.Fail {
	m := machine.New(machine.ROMOnly(), machine.Opts{})
	mod := ref.NewTimer(m.T.VGet().Counter)
	w := func(a uint16, v uint8) {
		m.Map.Write(a, v)
		switch a {
		case 0xff04:
			mod.WriteDIV()
		case 0xff05:
			mod.WriteTIMA(v)
		case 0xff06:
			mod.WriteTMA(v)
		case 0xff07:
			mod.WriteTAC(v)
		}
	}
	cmp := func(when string) *explore.Fail {
		for _, r := range []struct {
			a    uint16
			name string
			own  uint8
			want uint8
			ok   bool
		}{{0xff04, "DIV", m.T.ReadDIV(), mod.ReadDIV(), true}, {0xff05, "TIMA", m.T.ReadTIMA(), mod.Tima, mod.TIMAOk(m.T.ReadTIMA())},
			{0xff06, "TMA", m.T.ReadTMA(), mod.ReadTMA(), true}, {0xff07, "TAC", m.T.ReadTAC(), mod.ReadTAC(), true}} {
			got := m.Map.Read(r.a)
			if got != r.own {
				return explore.Failf("bus: "+r.name+" read through the Mapper differs from the timer's register", "%s: %04x reads %02x on the bus, the timer holds %02x (after %04x<-%02x)", when, r.a, got, r.own, c.Reg, c.Val)
			}
			if r.name != "TIMA" && got != r.want || r.name == "TIMA" && !r.ok {
				return explore.Failf("bus: "+r.name+" wrong", "%s: %04x reads %02x, documented %02x (after %04x<-%02x)", when, r.a, got, r.want, c.Reg, c.Val)
			}
		}
		return nil
	}
	w(0xff06, 0x23)
	w(0xff05, 0xf8)
	w(0xff07, 0x05)
	if f := cmp("after the setup writes"); f != nil {
		return f
	}
	for i := 0; i < 40; i++ {
		irq := m.T.EndMachineCycle()
		mod.Tick(irq)
		if f := cmp(fmt.Sprintf("%d cycles after the setup", i+1)); f != nil {
			return f
		}
	}
	w(c.Reg, c.Val)
	if mod.Unspec {
		return nil
	}
	if f := cmp("right after the write"); f != nil {
		return f
	}
	for i := 0; i < 300; i++ {
		irq := m.T.EndMachineCycle()
		if ok, why := mod.Tick(irq); !ok {
			return explore.Failf("bus: irq: "+why, "%d cycles after %04x<-%02x", i+1, c.Reg, c.Val)
		}
		if mod.Unspec {
			return nil
		}
		if f := cmp(fmt.Sprintf("%d cycles after the write", i+1)); f != nil {
			return f
		}
		l.Trans(1)
	}
	l.Eval(1)
	l.Outcome(uint64(c.Reg)<<8 | uint64(c.Val))
	return nil
}

func init() {
	register("C12", "model_checking", func(c *Ctx) {
		if c.R != nil {
			c.R.Rule = "depth-first enumeration of every event sequence over {tick, wDIV, wTIMA v, wTMA v, wTAC t} (16 events) up to the depth and deviation (non-tick event) bound from every start state, each step executed on the real timer.Timer and compared (DIV, TIMA, TMA, TAC read-back and the interrupt result) with the cycle-indexed reference timer; states = search-tree nodes (no de-duplication), a case = one start state; long runs place 1-2 writes at every position around every overflow; one overflow/reload for every TMA value x every value written to TIMA or TMA in and around the overflow and reload cycles"
			c.R.Assumptions = []string{
				"don't-cares (pruned, not judged): TIMA/TMA writes in the cycle after a cancelled reload; an increment in the same tick as a TMA-write load",
				"TIMA after a TMA write in the reload cycle may show the old or the new value until the end of that cycle",
				"the interrupt request may come at the overflow tick or at the reload tick",
			}
		}
		depth, dev := 9, 3
		if c.Thorough() {
			depth, dev = 14, 3
		}
		starts := c12Starts(c.Thorough())
		explore.Product(c.R, "event-sequences", explore.PartOpt{
			Bound:  fmt.Sprintf("depth %d, at most %d non-tick events", depth, dev),
			Domain: fmt.Sprintf("%d start states: counter at every phase within 5 cycles of the rising/falling edge of bits 3,5,7,9 (low and high in the range), around 0xFFFF/0x0000, power-on 0xABCC x TIMA x TMA x TAC 0-7", len(starts))},
			func(yield func(c12Case) bool) {
				for _, s := range starts {
					if !yield(c12Case{Start: s, Depth: depth, MaxDev: dev}) {
						return
					}
				}
			}, func() struct{} { return struct{}{} }, c12Check)
		if c.Thorough() {
			explore.Product(c.R, "event-sequences-dev4", explore.PartOpt{
				Bound:  "depth 9, at most 4 non-tick events",
				Domain: fmt.Sprintf("%d start states (as above)", len(starts))},
				func(yield func(c12Case) bool) {
					for _, s := range starts {
						if !yield(c12Case{Start: s, Depth: 9, MaxDev: 4}) {
							return
						}
					}
				}, func() struct{} { return struct{}{} }, c12Check)
		}
		// non-initial start states: a complete overflow/reload history (plain, cancelled, disturbed by a DIV or TMA
		// write in the overflow or reload cycle), then the timer is stopped and the divider runs once around, so that
		// the enumeration covers the counter values at which that history happened a second time
		hdepth := 9
		if c.Thorough() {
			hdepth = 12
		}
		explore.Product(c.R, "after-overflow-history", explore.PartOpt{
			Bound:  fmt.Sprintf("history, TAC<-stopped, 16,384-k ticks, then depth %d with at most 3 non-tick events", hdepth),
			Domain: "TAC 4-7 x TMA {00,23,FF} x 7 histories (plain reload; TIMA write cancelling it; DIV write in the overflow cycle / in the reload cycle; TMA write in the reload cycle; two overflows; DIV write two cycles after the reload) x wrap-around offsets k in {6, 10}"},
			func(yield func(c12Case) bool) {
				for _, tac := range []uint8{4, 5, 6, 7} {
					period := uint16(1) << (timerBitOf(tac) + 1)
					for _, tma := range []uint8{0x00, 0x23, 0xff} {
						s := c12Start{Counter: period - 8, TIMA: 0xff, TMA: tma, TAC: tac}
						ov := c12OverflowTicks(s, 64)
						if len(ov) == 0 {
							continue
						}
						toOvf := ov[0] + 1 // ticks until TIMA has overflowed (reads 00)
						hist := [][]c12Ev{
							{{K: "ticks", N: toOvf + 2}},
							{{K: "ticks", N: toOvf}, {K: "tima", V: 0x57}, {K: "ticks", N: 2}},
							{{K: "ticks", N: toOvf}, {K: "div"}, {K: "ticks", N: 2}},
							{{K: "ticks", N: toOvf + 1}, {K: "div"}, {K: "ticks", N: 1}},
							{{K: "ticks", N: toOvf + 1}, {K: "tma", V: 0x57}, {K: "ticks", N: 1}},
							{{K: "ticks", N: toOvf + 2}, {K: "tima", V: 0xff}, {K: "ticks", N: int(period/4) + 2}},
							{{K: "ticks", N: toOvf + 2}, {K: "div"}, {K: "ticks", N: 1}},
						}
						for _, h := range hist {
							for _, k := range []int{6, 10} {
								pre := append(append([]c12Ev(nil), h...), c12Ev{K: "tac", V: 0}, c12Ev{K: "ticks", N: 16384 - k})
								if !yield(c12Case{Start: s, Pre: pre, Depth: hdepth, MaxDev: 3}) {
									return
								}
							}
						}
					}
				}
			}, func() struct{} { return struct{}{} }, c12Check)
		c12TLCPart(c)
		// every data value: the enumerations above use three TIMA/TMA write values; here one overflow and reload is run
		// for every TMA value x every value written to TIMA or TMA in the overflow cycle, in the reload cycle and right after
		// TAC written with its unused bits set (what a read-modify-write stores: TAC reads F8 | value): only bits 0-2 count
		explore.Product(c.R, "registers-through-the-bus", explore.PartOpt{Bound: "setup, 40 ticks, one write, 300 ticks; all four registers read through the Mapper after every tick", Domain: "FF04-FF07 x all 256 values"},
			func(yield func(c12Bus) bool) {
				for a := uint16(0xff04); a <= 0xff07; a++ {
					for v := 0; v < 256; v++ {
						if !yield(c12Bus{Reg: a, Val: uint8(v)}) {
							return
						}
					}
				}
			}, func() struct{} { return struct{}{} }, c12BusCheck)
		explore.Product(c.R, "tac-with-unused-bits", explore.PartOpt{Bound: "two TAC writes, 80 ticks after each, every step compared", Domain: "first value v | F8, second value w | 08 or w | 80, v, w in 0-7, from two counter phases"},
			func(yield func(c12Case) bool) {
				for _, cnt := range []uint16{0x0000, 0xffb0} {
					for v := 0; v < 8; v++ {
						for w := 0; w < 8; w++ {
							for _, hi := range []uint8{0x08, 0x80} {
								path := []c12Ev{{K: "tac", V: uint8(v) | 0xf8}, {K: "ticks", N: 80}, {K: "tac", V: uint8(w) | hi}, {K: "ticks", N: 80}}
								if !yield(c12Case{Start: c12Start{Counter: cnt, TIMA: 0xfd, TMA: 0x23, TAC: 0}, Path: path}) {
									return
								}
							}
						}
					}
				}
			}, func() struct{} { return struct{}{} }, c12Check)
		explore.Product(c.R, "reload-with-every-value", explore.PartOpt{Bound: "one overflow and reload per case, every step compared", Domain: "TAC 4-7 x TMA 0-255 x {no write, TIMA<-w, TMA<-w} x w 0-255 x write placed in the overflow cycle, the reload cycle or the cycle after"},
			func(yield func(c12Case) bool) {
				for _, tac := range []uint8{4, 5, 6, 7} {
					period := uint16(1) << (timerBitOf(tac) + 1)
					for tma := 0; tma < 256; tma++ {
						s := c12Start{Counter: period - 8, TIMA: 0xff, TMA: uint8(tma), TAC: tac}
						ov := c12OverflowTicks(s, 64)
						if len(ov) == 0 {
							continue
						}
						if !yield(c12Case{Start: s, Path: []c12Ev{{K: "ticks", N: ov[0] + 6}}}) {
							return
						}
						for _, at := range []int{0, 1, 2} { // ticks after the overflow tick
							for _, k := range []string{"tima", "tma"} {
								for w := 0; w < 256; w++ {
									if tac != 5 && w%5 != 0 && w != 0xff && w != tma {
										continue // all 256 written values for TAC=5, every fifth one for the other rates
									}
									path := []c12Ev{{K: "ticks", N: ov[0] + 1 + at}, {K: k, V: uint8(w)}, {K: "ticks", N: 5}}
									if !yield(c12Case{Start: s, Path: path}) {
										return
									}
								}
							}
						}
					}
				}
			}, func() struct{} { return struct{}{} }, c12Check)
		// long runs
		explore.Product(c.R, "writes-around-overflows", explore.PartOpt{
			Bound:  "1 write at every offset -3..+4 around each of the first overflows, plus a second write 0-3 cycles later; every tick compared",
			Domain: "TAC 4-7 x TMA {FE,FF,00} x counters {ABCC, FFF8, 0}"},
			func(yield func(c12Long) bool) {
				writes := c12Alphabet[1:]
				for _, tac := range []uint8{4, 5, 6, 7} {
					for _, tma := range []uint8{0xfe, 0xff, 0x00} {
						for _, ctr := range []uint16{0xabcc, 0xfff8, 0x0000} {
							s := c12Start{ctr, 0xfe, tma, tac}
							ticks := 3 * 256 * 3
							if tac == 5 {
								ticks = 64
							} else if tac == 6 {
								ticks = 200
							} else if tac == 7 {
								ticks = 700
							}
							ovf := c12OverflowTicks(s, ticks)
							if len(ovf) > 3 {
								ovf = ovf[:3]
							}
							if !yield(c12Long{Start: s, Ticks: ticks, At1: -1, At2: -1}) {
								return
							}
							for _, o := range ovf {
								for off := -3; off <= 4; off++ {
									at := o + off
									if at < 0 {
										continue
									}
									for _, e1 := range writes {
										if !yield(c12Long{Start: s, Ticks: ticks, At1: at, Ev1: e1, At2: -1}) {
											return
										}
										if !c.Thorough() && off != 1 && off != 2 {
											continue
										}
										for d := 0; d <= 3; d++ {
											for _, e2 := range writes {
												if d == 0 && e2 == e1 {
													continue
												}
												if !yield(c12Long{Start: s, Ticks: ticks, At1: at, Ev1: e1, At2: at + d, Ev2: e2}) {
													return
												}
											}
										}
									}
								}
							}
						}
					}
				}
			}, func() struct{} { return struct{}{} }, c12LongCheck)
	})
}
