package props

import (
	"fmt"
	"os"

	"github.com/scottyw/tetromino/gameboy/cpu"
	"verifmc/explore"
	"verifmc/machine"
	"verifmc/ref"
)

// cpuEnv is one real machine (ROM-only cartridge, LCD switched off outside mode 2, so
// VRAM and OAM are plain memory) plus a shadow of every plain-memory byte. The reference
// CPU executes against the pre-state of the real memory (reads go to the real Mapper
// before the real CPU runs, writes are logged), then the real CPU executes the same
// instruction and everything is compared.
type cpuEnv struct {
	m      *machine.M
	shadow [0x10000]uint8 // expected contents of plain memory (echo folded onto C000-DDFF)
	log    []ref.Access
	dirty  []uint16 // plain addresses written by the harness/instructions since the last full check
}

func plainAddr(a uint16) bool {
	return (a >= 0x8000 && a < 0xa000) || (a >= 0xc000 && a < 0xfe00) || (a >= 0xfe00 && a < 0xfea0) || (a >= 0xff80)
}

func fold(a uint16) uint16 {
	if a >= 0xe000 && a < 0xfe00 {
		return a - 0x2000
	}
	return a
}

func newCPUEnv() *cpuEnv { return newCPUEnvOpts(machine.Opts{}) }

// newCPUEnvTrace builds the machine with Config.DebugCPU (instruction trace) on; callers silence os.Stdout.
func newCPUEnvTrace() *cpuEnv { return newCPUEnvOpts(machine.Opts{DebugCPU: true}) }

// quietStdout points os.Stdout at /dev/null while f runs (the emulator's debug options print to it).
func quietStdout(f func()) {
	old := os.Stdout
	if null, err := os.OpenFile(os.DevNull, os.O_WRONLY, 0); err == nil {
		os.Stdout = null
		defer func() { os.Stdout = old; null.Close() }()
	}
	f()
}

func newCPUEnvOpts(o machine.Opts) *cpuEnv {
	e := &cpuEnv{m: machine.New(machine.ROMOnly(), o)}
	// leave mode 2 before switching the LCD off, so that the OAM-corruption emulation is disarmed
	for i := 0; i < 30; i++ {
		e.m.Hardware()
	}
	e.m.Map.Write(0xff40, 0x00)
	e.m.Map.Write(0xff0f, 0x00)
	e.m.Map.Write(0xffff, 0x00)
	for a := 0; a < 0x10000; a++ {
		if plainAddr(uint16(a)) {
			e.shadow[fold(uint16(a))] = e.m.Map.Read(uint16(a))
		}
	}
	return e
}

// poke writes through the real Mapper and keeps the shadow in step.
func (e *cpuEnv) poke(a uint16, v uint8) {
	e.m.Map.Write(a, v)
	if plainAddr(a) {
		e.shadow[fold(a)] = v
		e.dirty = append(e.dirty, a)
	}
}

// bus for the reference CPU: reads the real pre-state, logs writes.
type preBus struct{ e *cpuEnv }

func (b preBus) Read(a uint16) uint8 {
	for i := len(b.e.log) - 1; i >= 0; i-- { // a read after a write in the same instruction sees it
		if b.e.log[i].Write && fold(b.e.log[i].Addr) == fold(a) && plainAddr(a) {
			return b.e.log[i].Val
		}
	}
	return b.e.m.Map.Read(a)
}

func (b preBus) Write(a uint16, v uint8) {
	b.e.log = append(b.e.log, ref.Access{Write: true, Addr: a, Val: v})
}

func toRef(r cpu.VRegs) ref.CPU {
	return ref.CPU{A: r.A, F: r.F, B: r.B, C: r.C, D: r.D, E: r.E, H: r.H, L: r.L, SP: r.SP, PC: r.PC, HaltBug: r.HaltBug}
}

type stepOutcome struct {
	info   ref.StepInfo
	want   ref.CPU
	got    cpu.VRegs
	cycles int
}

// runOne executes the instruction at regs.PC on the reference and on the real CPU.
// The caller has already placed code and data with poke.
func (e *cpuEnv) runOne(regs cpu.VRegs) (stepOutcome, *explore.Fail) {
	var out stepOutcome
	e.m.CPU.VSet(regs)
	if !e.m.CPU.VAtBoundary() {
		return out, explore.Failf("harness: CPU not at an instruction boundary", "VAtBoundary is false before the step")
	}
	e.log = e.log[:0]
	r := toRef(regs)
	out.info = r.Step(preBus{e})
	out.want = r
	if out.info.Undefined {
		return out, nil
	}
	n := 0
	for {
		e.m.CPU.ExecuteMachineCycle()
		n++
		if e.m.CPU.VAtBoundary() || n >= 40 {
			break
		}
	}
	out.cycles = n
	out.got = e.m.CPU.VGet()
	return out, nil
}

func opName(info ref.StepInfo) string {
	if info.CB {
		return fmt.Sprintf("CB %02x", info.CBOp)
	}
	return fmt.Sprintf("%02x", info.Op)
}

// compareRegs checks the architectural registers and flags (STOP: PC may be +1 or +2).
func compareRegs(o stepOutcome, before cpu.VRegs) *explore.Fail {
	g, w := o.got, o.want
	name := opName(o.info)
	bad := func(what string) *explore.Fail {
		return explore.Failf(fmt.Sprintf("op %s: %s", name, what),
			"from A=%02x F=%02x B=%02x C=%02x D=%02x E=%02x H=%02x L=%02x SP=%04x PC=%04x: got A=%02x F=%02x B=%02x C=%02x D=%02x E=%02x H=%02x L=%02x SP=%04x PC=%04x, documented A=%02x F=%02x B=%02x C=%02x D=%02x E=%02x H=%02x L=%02x SP=%04x PC=%04x",
			before.A, before.F, before.B, before.C, before.D, before.E, before.H, before.L, before.SP, before.PC,
			g.A, g.F, g.B, g.C, g.D, g.E, g.H, g.L, g.SP, g.PC, w.A, w.F, w.B, w.C, w.D, w.E, w.H, w.L, w.SP, w.PC)
	}
	if g.F&0x0f != 0 {
		return bad("low nibble of F not zero")
	}
	if g.F != w.F {
		d := g.F ^ w.F
		fl := ""
		for i, n := range []string{"Z", "N", "H", "C"} {
			if d&(0x80>>uint(i)) != 0 {
				fl += n
			}
		}
		return bad("flag " + fl + " wrong")
	}
	if g.A != w.A {
		return bad("A wrong")
	}
	if g.B != w.B || g.C != w.C || g.D != w.D || g.E != w.E || g.H != w.H || g.L != w.L {
		return bad("B/C/D/E/H/L wrong")
	}
	if g.SP != w.SP {
		return bad("SP wrong")
	}
	if g.PC != w.PC {
		if o.info.Op == 0x10 && !o.info.CB && g.PC == w.PC+1 {
			return nil // STOP is documented as a 2-byte instruction with irregular behaviour
		}
		return bad("PC wrong")
	}
	return nil
}

// applyWrites folds the reference write log into the shadow and checks the written locations.
func (e *cpuEnv) applyWrites(o stepOutcome) *explore.Fail {
	for _, w := range e.log {
		if plainAddr(w.Addr) {
			e.shadow[fold(w.Addr)] = w.Val
			e.dirty = append(e.dirty, w.Addr)
		}
	}
	for _, w := range e.log {
		if !plainAddr(w.Addr) {
			continue
		}
		if got := e.m.Map.Read(w.Addr); got != e.shadow[fold(w.Addr)] {
			return explore.Failf(fmt.Sprintf("op %s: addressed memory wrong after the instruction", opName(o.info)),
				"address %04x holds %02x, documented %02x", w.Addr, got, e.shadow[fold(w.Addr)])
		}
	}
	return nil
}

// fullDiff compares every plain-memory byte (and the inert regions) with the shadow.
func (e *cpuEnv) fullDiff(o stepOutcome) *explore.Fail {
	for a := 0x8000; a < 0x10000; a++ {
		ad := uint16(a)
		var want uint8
		switch {
		case plainAddr(ad):
			want = e.shadow[fold(ad)]
		case ad >= 0xa000 && ad < 0xc000:
			want = 0xff
		case ad >= 0xfea0 && ad < 0xff00:
			want = 0x00
		default:
			continue
		}
		if got := e.m.Map.Read(ad); got != want {
			return explore.Failf(fmt.Sprintf("op %s: memory changed that the instruction does not address", opName(o.info)),
				"address %04x holds %02x, expected %02x (unchanged)", ad, got, want)
		}
	}
	return nil
}
