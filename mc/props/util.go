package props

import "sort"

func sortInts(a []int) { sort.Ints(a) }

func itoa(i int) string {
	if i == 0 {
		return "0"
	}
	s := ""
	neg := i < 0
	if neg {
		i = -i
	}
	for i > 0 {
		s = string(rune('0'+i%10)) + s
		i /= 10
	}
	if neg {
		s = "-" + s
	}
	return s
}
