package props

import "sort"

func sortInts(a []int) { sort.Ints(a) }
