package props

import (
	"fmt"
	"os/exec"
	"strconv"
	"strings"

	"verifmc/explore"
	"verifmc/machine"
	"verifmc/ref"
)

// C11 — no image or guest program crashes the emulator. Oracle: no Go panic (recovered per
// case and reported), no process exit other than the documented undefined-opcode stop
// (checked in sub-processes). A panic while *constructing* the machine is accepted.

var c11Regions = []uint16{0x0000, 0x3fff, 0x4000, 0x7fff, 0x8000, 0x9fff, 0xa000, 0xbfff, 0xc000, 0xdfff, 0xe000, 0xfdff,
	0xfe00, 0xfe9f, 0xfea0, 0xfeff, 0xff00, 0xff46, 0xff7f, 0xff80, 0xfffe, 0xffff}

var undefinedOps = map[uint8]bool{0xd3: true, 0xdb: true, 0xdd: true, 0xe3: true, 0xe4: true, 0xeb: true, 0xec: true, 0xed: true, 0xf4: true, 0xfc: true, 0xfd: true}

// construct builds a machine; ok=false when the constructor itself panicked (accepted).
func construct(img []byte) (m *machine.M, ok bool) {
	defer func() {
		if recover() != nil {
			m, ok = nil, false
		}
	}()
	return machine.New(img, machine.Opts{}), true
}

// runGuarded steps the machine for n cycles but stops (returns true) before an undefined opcode would execute.
func runGuarded(m *machine.M, n int) (stoppedAtUndefined bool) {
	for i := 0; i < n; i++ {
		if m.CPU.VAtBoundary() {
			r := m.CPU.VGet()
			if !r.Halted && !r.Stopped {
				if undefinedOps[m.Map.Read(r.PC)] {
					return true
				}
			}
		}
		m.Cycle()
	}
	return false
}

// ---- (f) I/O writes at every phase of a busy machine --------------------------------------------

// c11IO: from a busy machine (LCD on with objects, all four sound channels playing at the given frequency,
// timer running fast, an OAM DMA in flight) one I/O register is written with one value after Delay machine cycles —
// every delay of a window that covers whole periods of the sound generators, a scan line and timer periods — and
// written a second time Gap cycles later; then the machine runs on. Nothing may crash, whatever the phase.
type c11IO struct {
	Reg  uint16 `json:"reg"`
	Freq int    `json:"freq"` // 11-bit frequency of channels 1-3
}

var c11IOVals = []uint8{0x00, 0xff, 0x80, 0x87, 0xc7, 0x40, 0x08, 0x7f, 0x01, 0xf0}

func c11IOSetup(freq int) *machine.M {
	m := machine.New(machine.Image(0x03, 1, 3, 4), machine.Opts{})
	w := m.Map.Write
	for i := 0; i < 40; i++ { // objects on many lines
		w(0xc100+uint16(4*i), uint8(16+i*3))
		w(0xc101+uint16(4*i), uint8(8+i*4))
		w(0xc102+uint16(4*i), uint8(i))
		w(0xc103+uint16(4*i), uint8(i<<4))
	}
	w(0xff26, 0x80)
	w(0xff25, 0xff)
	w(0xff24, 0x77)
	for i := 0; i < 16; i++ {
		w(0xff30+uint16(i), uint8(i*17+1))
	}
	lo, hi := uint8(freq), uint8(freq>>8)&7
	for _, x := range [][2]uint16{{0xff10, 0x11}, {0xff11, 0x80}, {0xff12, 0xf3}, {0xff13, uint16(lo)}, {0xff14, uint16(0x80 | hi)},
		{0xff16, 0x40}, {0xff17, 0xf3}, {0xff18, uint16(lo)}, {0xff19, uint16(0x80 | hi)},
		{0xff1a, 0x80}, {0xff1b, 0x00}, {0xff1c, 0x20}, {0xff1d, uint16(lo)}, {0xff1e, uint16(0x80 | hi)},
		{0xff20, 0x00}, {0xff21, 0xf3}, {0xff22, 0x00}, {0xff23, 0x80},
		{0xff06, 0xf0}, {0xff05, 0xf0}, {0xff07, 0x05}, {0xffff, 0x1f}, {0xff41, 0x78}, {0xff45, 0x02}, {0xff40, 0x93}} {
		w(x[0], uint8(x[1]))
	}
	// a program that keeps the CPU busy with interrupts enabled (handlers are NOPs in ROM... the image's bytes; harmless)
	for i, b := range []uint8{0xfb, 0x04, 0x18, 0xfd} { // EI; INC B; JR -3
		w(0xc000+uint16(i), b)
	}
	r := m.CPU.VGet()
	r.PC, r.SP = 0xc000, 0xdff0
	m.CPU.VSet(r)
	for i := 0; i < 300; i++ {
		m.Hardware() // let the generators run before the CPU starts
	}
	w(0xff46, 0xc1)
	return m
}

func c11IOCheck(l *explore.Local, _ struct{}, c c11IO) *explore.Fail {
	base := c11IOSetup(c.Freq)
	sp, so, si, st, sc, sm, sa := *base.P, *base.OAM, *base.I, *base.T, *base.CPU, *base.Map, base.A.VSave()
	for delay := 0; delay < 132; delay++ {
		for _, v := range c11IOVals {
			for _, gap := range []int{-1, 0, 1, 7} {
				*base.P, *base.OAM, *base.I, *base.T, *base.CPU, *base.Map = sp, so, si, st, sc, sm
				base.A.VLoad(sa)
				m := base
				for i := 0; i < delay; i++ {
					m.Cycle()
				}
				m.Map.Write(c.Reg, v)
				if gap >= 0 {
					for i := 0; i < gap; i++ {
						m.Cycle()
					}
					m.Map.Write(c.Reg, v|0x80)
				}
				if runGuarded(m, 160) {
					continue
				}
				_ = m.Map.Read(c.Reg)
				l.Trans(1)
			}
		}
	}
	l.Eval(1)
	l.Outcome(uint64(c.Reg)<<16 | uint64(c.Freq))
	return nil
}

// ---- (h) object memory and video memory written at every phase of a line -------------------------

// c11Mem: the busy machine (forty objects spread over the screen, 8x8 or 8x16) is brought to line Line; after every
// delay of two scan lines one byte of OAM (every field of every object) or of VRAM (tile data / both maps) is written
// with one of four values, and the machine runs on for 160 cycles. What the OAM scan saw and what the pixel transfer
// re-reads a few cycles later may then disagree: nothing may crash.
type c11Mem struct {
	Line  int   `json:"line"`
	LCDC  uint8 `json:"lcdc"`
	Delay int   `json:"delay"` // first delay of this block of 12
}

var c11MemVals = []uint8{0x00, 0xa0, 0xff, 0x10}

func c11MemCheck(l *explore.Local, _ struct{}, c c11Mem) *explore.Fail {
	base := c11IOSetup(0x7fe)
	for i := 0; i < 200; i++ { // the setup's DMA completes
		base.Cycle()
	}
	base.Map.Write(0xff40, c.LCDC)
	for i := 0; i < 2*17556 && int(base.Map.Read(0xff44)) != c.Line; i++ {
		base.Cycle()
	}
	for i := 0; i < c.Delay; i++ {
		base.Cycle()
	}
	var addrs []uint16
	for a := 0xfe00; a < 0xfea0; a++ {
		addrs = append(addrs, uint16(a))
	}
	addrs = append(addrs, 0x8000, 0x8001, 0x800f, 0x8010, 0x8ff0, 0x9000, 0x97ff, 0x9800, 0x9821, 0x9bff, 0x9c00, 0x9fff)
	for d := 0; d < 12; d++ {
		sp, so, si, st, sc, sm, sa := *base.P, *base.OAM, *base.I, *base.T, *base.CPU, *base.Map, base.A.VSave()
		for _, a := range addrs {
			for _, v := range c11MemVals {
				*base.P, *base.OAM, *base.I, *base.T, *base.CPU, *base.Map = sp, so, si, st, sc, sm
				base.A.VLoad(sa)
				base.Map.Write(a, v)
				if runGuarded(base, 160) {
					continue
				}
				l.Trans(1)
			}
		}
		*base.P, *base.OAM, *base.I, *base.T, *base.CPU, *base.Map = sp, so, si, st, sc, sm
		base.A.VLoad(sa)
		base.Cycle()
	}
	l.Eval(1)
	l.Outcome(uint64(c.Line)<<16 | uint64(c.Delay)<<4 | uint64(c.LCDC&4))
	return nil
}

// ---- (g) LCD switched off and on again, several rounds, with every layer showing ---------------

// c11LCD: the busy machine shows background, window and objects; Rounds times the LCD is switched off when line Line
// has been reached (inside the picture as well as in v-blank: switching off in mid-frame is what games must not do on
// hardware, but the emulator must survive it), left off for Off cycles and switched on again; then two more frames.
// Whatever the PPU keeps across lines and frames (window line, fetch positions, object lists) must stay in range.
type c11LCD struct {
	LCDC   uint8 `json:"lcdc"`
	WX     uint8 `json:"wx"`
	WY     uint8 `json:"wy"`
	Line   int   `json:"line"`
	Off    int   `json:"off"`
	Rounds int   `json:"rounds"`
}

func c11LCDCheck(l *explore.Local, _ struct{}, c c11LCD) *explore.Fail {
	m := c11IOSetup(0x7fe)
	w := m.Map.Write
	w(0xff4a, c.WY)
	w(0xff4b, c.WX)
	w(0xff42, 0x37)
	w(0xff43, 0x05)
	w(0xff40, c.LCDC|0x80)
	for r := 0; r < c.Rounds; r++ {
		for i := 0; i < 2*17556 && int(m.Map.Read(0xff44)) != c.Line; i++ {
			m.Cycle()
			l.Trans(1)
		}
		for i := 0; i < 30+r; i++ {
			m.Cycle()
		}
		w(0xff40, c.LCDC&0x7f)
		for i := 0; i < c.Off; i++ {
			m.Cycle()
		}
		w(0xff40, c.LCDC|0x80)
	}
	for i := 0; i < 2*17556+500; i++ {
		m.Cycle()
	}
	l.Trans(2 * 17556)
	l.Eval(1)
	l.Outcome(uint64(m.Map.Read(0xff44))<<8 | uint64(m.Map.Read(0xff41)))
	return nil
}

// ---- (a) image space ---------------------------------------------------------------------

type c11Image struct {
	Type, ROM, RAM uint8
	Len            int `json:"len"` // -1 declared, -2 declared-0x4000, -3 declared+0x4000, else literal
}

func c11ImageBytes(c c11Image) []byte {
	n := c.Len
	decl := 0
	if c.ROM < 16 {
		decl = 0x8000 << c.ROM
	}
	switch c.Len {
	case -1:
		n = decl
	case -2:
		n = decl - 0x4000
	case -3:
		n = decl + 0x4000
	}
	if n < 0 {
		n = 0
	}
	if n > 9<<20 {
		n = 9 << 20
	}
	img := make([]byte, n)
	if n > 0x149 {
		img[0x147], img[0x148], img[0x149] = c.Type, c.ROM, c.RAM
	} else {
		for i := range img {
			img[i] = uint8(i)
		}
		if n > 0x147 {
			img[0x147] = c.Type
		}
		if n > 0x148 {
			img[0x148] = c.ROM
		}
	}
	return img
}

var c11CtlVals = []uint8{0x00, 0x01, 0x0a, 0x0f, 0x10, 0x1f, 0x20, 0x7f, 0x80, 0xff}

func poke(m *machine.M) {
	for _, a := range []uint16{0x0000, 0x3fff, 0x4000, 0x7fff, 0xa000, 0xbfff} {
		m.Map.Read(a)
	}
	m.Map.Write(0xa000, 0x55)
	m.Map.Write(0xbfff, 0xaa)
}

func c11ImageCheck(l *explore.Local, _ struct{}, c c11Image) *explore.Fail {
	img := c11ImageBytes(c)
	m, ok := construct(img)
	if !ok {
		l.Outcome(1)
		return nil // fails during construction: accepted
	}
	l.Outcome(2 + uint64(c.Type)<<8)
	poke(m)
	runGuarded(m, 64)
	for _, a := range c08Addrs {
		for _, v := range c11CtlVals {
			m.Map.Write(a, v)
			poke(m)
			l.Trans(1)
		}
	}
	// selectors 08-0F on anything that accepted construction
	for v := uint8(0); v < 16; v++ {
		m.Map.Write(0x0000, 0x0a)
		m.Map.Write(0x4000, v)
		poke(m)
	}
	runGuarded(m, 64)
	m.Map.DumpRAM()
	l.Eval(1)
	return nil
}

// ---- (b) control writes -------------------------------------------------------------------

type c11Ctl struct {
	Cart cartSpec `json:"cart"`
	A    uint16   `json:"a"`
}

func c11CtlCheck(l *explore.Local, _ struct{}, c c11Ctl) *explore.Fail {
	m, ok := construct(machine.Image(c.Cart.Type, c.Cart.ROMCode, c.Cart.RAMCode, c.Cart.pages()))
	if !ok {
		return nil
	}
	for v := 0; v < 256; v++ {
		m.Map.Write(c.A, uint8(v))
		poke(m)
		l.Trans(1)
		// second write from the value classes to every region
		for _, a2 := range c08Addrs {
			for _, v2 := range c11CtlVals {
				m.Map.Write(a2, v2)
				poke(m)
				m.Map.Write(c.A, uint8(v))
				l.Trans(2)
			}
		}
	}
	m.Map.DumpRAM()
	l.Eval(1)
	l.Outcome(uint64(c.Cart.Type)<<16 | uint64(c.A))
	return nil
}

// ---- (c) bus sweep ------------------------------------------------------------------------

type c11Bus struct {
	Cart  cartSpec `json:"cart"`
	LCD   bool     `json:"lcd"`
	RAMEn bool     `json:"ram_en"`
}

func c11BusCheck(l *explore.Local, _ struct{}, c c11Bus) *explore.Fail {
	m, ok := construct(machine.Image(c.Cart.Type, c.Cart.ROMCode, c.Cart.RAMCode, c.Cart.pages()))
	if !ok {
		return nil
	}
	if !c.LCD {
		m.Map.Write(0xff40, 0x00)
	}
	if c.RAMEn {
		m.Map.Write(0x0000, 0x0a)
	}
	for a := 0; a < 0x10000; a++ {
		m.Map.Read(uint16(a))
	}
	for _, v := range []uint8{0x00, 0xff} {
		for a := 0; a < 0x10000; a++ {
			if a == 0xff46 {
				continue
			}
			m.Map.Write(uint16(a), v)
			m.Map.Read(uint16(a))
			if a&0xff == 0 {
				m.Hardware()
			}
		}
		l.Trans(0x10000)
	}
	for page := 0; page < 256; page++ {
		m.Map.Write(0xff46, uint8(page))
		for i := 0; i < 170; i++ {
			m.Hardware()
			if i%40 == 3 {
				m.Map.Read(0xfe00)
			}
		}
		l.Trans(1)
	}
	runGuarded(m, 256)
	l.Eval(1)
	l.Outcome(uint64(c.Cart.Type))
	return nil
}

// ---- (d) programs --------------------------------------------------------------------------

type c11Prog struct {
	Cart   cartSpec `json:"cart"`
	Op1    int      `json:"op1"` // 0-255 base, 256-511 CB-prefixed
	Op2    int      `json:"op2"` // -1: none
	Region uint16   `json:"region"`
	Cycles int      `json:"cycles"`
}

func encode(op int, a, b uint8) []byte {
	if op >= 256 {
		return []byte{0xcb, uint8(op - 256)}
	}
	return []byte{uint8(op), a, b}
}

var c11Operands = [][2]uint8{{0x00, 0x00}, {0x01, 0x00}, {0x7f, 0x80}, {0x80, 0xff}, {0xff, 0xff}, {0xfe, 0xc0}, {0x46, 0xff}, {0x00, 0xa0}}

func c11ProgCheck(l *explore.Local, _ struct{}, c c11Prog) *explore.Fail {
	m, ok := construct(machine.Image(c.Cart.Type, c.Cart.ROMCode, c.Cart.RAMCode, c.Cart.pages()))
	if !ok {
		return nil
	}
	for _, opnd := range c11Operands {
		code := encode(c.Op1, opnd[0], opnd[1])
		if c.Op1 < 256 {
			code = code[:1+opLen[uint8(c.Op1)]]
		}
		if c.Op2 >= 0 {
			c2 := encode(c.Op2, opnd[1], opnd[0])
			if c.Op2 < 256 {
				c2 = c2[:1+opLen[uint8(c.Op2)]]
			}
			code = append(code, c2...)
		}
		for i, b := range code {
			m.Map.Write(0xc000+uint16(i), b)
		}
		for i := len(code); i < len(code)+8; i++ {
			m.Map.Write(0xc000+uint16(i), 0x00)
		}
		r := m.CPU.VGet()
		r.B, r.C = uint8(c.Region>>8), uint8(c.Region)
		r.D, r.E = r.B, r.C
		r.H, r.L = r.B, r.C
		r.SP = c.Region
		r.PC = 0xc000
		r.A = opnd[0]
		r.F = opnd[1] & 0xf0
		r.Halted, r.Stopped, r.HaltBug = false, false, false
		if !m.CPU.VAtBoundary() {
			for i := 0; i < 8 && !m.CPU.VAtBoundary(); i++ {
				m.Cycle()
			}
		}
		m.CPU.VSet(r)
		runGuarded(m, c.Cycles)
		// also start executing *at* the region itself
		for i := 0; i < 8 && !m.CPU.VAtBoundary(); i++ {
			m.Cycle()
		}
		r2 := m.CPU.VGet()
		r2.PC = c.Region
		r2.Halted, r2.Stopped, r2.HaltBug = false, false, false
		m.CPU.VSet(r2)
		runGuarded(m, 16)
		l.Trans(2)
	}
	l.Eval(1)
	l.Outcome(uint64(c.Op1)<<16 | uint64(c.Region))
	return nil
}

// operand byte count of each base opcode (documented encoding lengths)
var opLen = func() [256]int {
	var t [256]int
	for op := 0; op < 256; op++ {
		switch {
		case op == 0x01 || op == 0x11 || op == 0x21 || op == 0x31 || op == 0x08 || op == 0xc3 || op == 0xcd || op == 0xea || op == 0xfa,
			op&0xe7 == 0xc2, op&0xe7 == 0xc4:
			t[op] = 2
		case op&0xc7 == 0x06, op&0xc7 == 0xc6, op == 0x18, op&0xe7 == 0x20, op == 0xe0, op == 0xf0, op == 0xe8, op == 0xf8, op == 0x10:
			t[op] = 1
		}
	}
	return t
}()

// representative opcode set for ordered pairs
var c11Reps = []int{0x00, 0x01, 0x02, 0x03, 0x08, 0x09, 0x0a, 0x10, 0x18, 0x20, 0x22, 0x27, 0x2a, 0x32, 0x33, 0x34, 0x36, 0x3a, 0x3b,
	0x46, 0x70, 0x76, 0x77, 0x86, 0xbe, 0xc0, 0xc1, 0xc3, 0xc4, 0xc5, 0xc7, 0xc9, 0xcd, 0xd9, 0xe0, 0xe2, 0xe8, 0xe9, 0xea, 0xf0,
	0xf1, 0xf2, 0xf3, 0xf5, 0xf8, 0xf9, 0xfa, 0xfb, 0xff, 256 + 0x06, 256 + 0x46, 256 + 0x86, 256 + 0xc6, 256 + 0x36, 256 + 0x00}

// ---- undefined opcodes: the one deliberate stop -------------------------------------------------

func init() {
	Workers["undef"] = func(args []string) int {
		op, _ := strconv.ParseUint(args[0], 16, 8)
		m := machine.New(machine.ROMOnly(), machine.Opts{})
		m.Map.Write(0xc000, uint8(op))
		r := m.CPU.VGet()
		r.PC = 0xc000
		m.CPU.VSet(r)
		for i := 0; i < 8; i++ {
			m.Cycle()
		}
		fmt.Println("SURVIVED")
		return 0
	}
}

type c11Undef struct {
	Op uint8 `json:"op"`
}

func init() {
	register("C11", "fault_enumeration", func(c *Ctx) {
		if c.R != nil {
			c.R.Rule = "complete products, each case run on the real code with panics recovered per case: (a) cartridge-type byte (all 256) x ROM-size code x RAM-size code x image length class -> construct, then windows/control writes/selectors/128 CPU cycles; (b) every supported cartridge x every control-region representative x all 256 values, each followed by every (region, value-class) second write and all window accesses; (c) bus sweep: read all 64 KiB, write 00/FF everywhere, DMA from every page, LCD on/off, RAM on/off; (d) every opcode (512 encodings x 8 operand pairs) and every ordered pair from a representative set, pointers/SP/PC placed in 22 region classes, on each controller type; (f) from a busy machine every I/O register written with 10 values after every delay 0-131 (and again 0, 1, 7 cycles later); (h) every OAM byte and 12 VRAM addresses written with 4 values after every delay of two scan lines from three start lines, objects 8x8 and 8x16; (g) the LCD switched off at a given line and on again, 1-9 rounds, with background, window and objects showing, then two frames; (e) the 11 undefined opcodes must exit with status 1 and the message (sub-processes)"
			c.R.Assumptions = []string{"a panic inside the constructor counts as 'fails during construction'", "programs are stopped by the harness before an undefined opcode executes (the deliberate stop is checked separately)", "crash = Go panic or process exit; memory growth and non-termination are out of scope (there is no allocation or unbounded loop on the emulation path)"}
		}
		supported := []cartSpec{}
		for _, k := range c08Kinds {
			for _, typ := range c08Types[k] {
				for _, rom := range []uint8{0, 1, maxROMCode(k)} {
					for _, ram := range []uint8{0, 1, 2, 3, 4, 5} {
						if c.Thorough() || typ == c08Types[k][0] || (rom == 0 && ram == 3) {
							supported = append(supported, cartSpec{typ, rom, ram})
						}
					}
				}
			}
		}
		// MBC1/MBC2 beyond their documented sizes (the code accepts them)
		supported = append(supported, cartSpec{0x01, 7, 0}, cartSpec{0x05, 7, 0}, cartSpec{0x05, 6, 0}, cartSpec{0x11, 7, 0}, cartSpec{0x19, 8, 4})
		explore.Product(c.R, "image-space", explore.PartOpt{Bound: "complete product", Domain: "type 0-255 x rom {0,1,9,52,FF} (supported types, 08, FC: {0,1,2,5,7,8,9,52,FF}) x ram {0-6,FF} x 15 length classes (declared-size lengths up to 8 MiB)"},
			func(yield func(c11Image) bool) {
				lens := []int{0, 1, 0x147, 0x148, 0x149, 0x14f, 0x150, 0x3fff, 0x4000, 0x7fff, 0x8000, 0x8001, -1, -2, -3}
				for typ := 0; typ < 256; typ++ {
					_, sup := ref.KindOf(uint8(typ))
					roms := []uint8{0, 1, 9, 0x52, 0xff}
					if sup || typ == 0x08 || typ == 0xfc {
						roms = []uint8{0, 1, 2, 5, 7, 8, 9, 0x52, 0xff}
					}
					for _, rom := range roms {
						for _, ram := range []uint8{0, 1, 2, 3, 4, 5, 6, 0xff} {
							if !sup && !c.Thorough() && ram != 0 && ram != 3 && ram != 0xff {
								continue
							}
							for _, ln := range lens {
								if ln < 0 && rom >= 9 && rom < 16 {
									continue // declared size above 8 MiB: only literal lengths
								}
								if !yield(c11Image{uint8(typ), rom, ram, ln}) {
									return
								}
							}
						}
					}
				}
			}, func() struct{} { return struct{}{} }, c11ImageCheck)
		explore.Product(c.R, "control-writes", explore.PartOpt{Bound: "every single write (256 values) x every second write from 14 regions x 10 value classes", Domain: fmt.Sprintf("%d cartridges x 14 regions", len(supported))},
			func(yield func(c11Ctl) bool) {
				for _, s := range supported {
					for _, a := range c08Addrs {
						if !yield(c11Ctl{s, a}) {
							return
						}
					}
				}
			}, func() struct{} { return struct{}{} }, c11CtlCheck)
		explore.Product(c.R, "bus-sweep", explore.PartOpt{Bound: "all 65,536 addresses read and written (00, FF); DMA from all 256 pages", Domain: "supported cartridges (rom code 0) x LCD on/off x RAM on/off"},
			func(yield func(c11Bus) bool) {
				for _, s := range supported {
					if s.ROMCode != 0 {
						continue
					}
					for _, lcd := range []bool{true, false} {
						for _, en := range []bool{false, true} {
							if !yield(c11Bus{s, lcd, en}) {
								return
							}
						}
					}
				}
			}, func() struct{} { return struct{}{} }, c11BusCheck)
		cycles := 64
		if c.Thorough() {
			cycles = 2048
		}
		progCarts := []cartSpec{{0x00, 0, 0}, {0x03, 1, 3}, {0x06, 1, 0}, {0x10, 1, 3}, {0x1b, 1, 3}}
		explore.Product(c.R, "programs", explore.PartOpt{Bound: fmt.Sprintf("%d cycles per program; every opcode x 8 operand pairs; ordered pairs of %d representative opcodes", cycles, len(c11Reps)), Domain: "22 pointer/SP/PC region classes x 5 cartridge kinds"},
			func(yield func(c11Prog) bool) {
				for _, cart := range progCarts {
					for _, reg := range c11Regions {
						for op := 0; op < 512; op++ {
							if op < 256 && undefinedOps[uint8(op)] || op == 0xcb {
								continue
							}
							if !yield(c11Prog{cart, op, -1, reg, cycles}) {
								return
							}
						}
						if cart.Type != 0x03 && !c.Thorough() {
							continue
						}
						for _, a := range c11Reps {
							for _, b := range c11Reps {
								if !yield(c11Prog{cart, a, b, reg, cycles}) {
									return
								}
							}
						}
					}
				}
			}, func() struct{} { return struct{}{} }, c11ProgCheck)
		c11SoundPart(c)
		explore.Product(c.R, "io-writes-at-every-phase", explore.PartOpt{Bound: "one write (and a second one 0, 1 or 7 cycles later) after every delay 0-131 from a busy machine, then 160 cycles", Domain: "every register FF00-FF7F and IE x 10 values x sound frequencies {7FF, 7FE, 7FD, 7F8, 700} (wave period 16 to 4,096 cycles)"},
			func(yield func(c11IO) bool) {
				freqs := []int{0x7ff, 0x7fe, 0x7fd, 0x7f8, 0x700}
				for _, f := range freqs {
					for reg := 0xff00; reg <= 0xff80; reg++ {
						a := uint16(reg)
						if reg == 0xff80 {
							a = 0xffff
						}
						if !c.Thorough() && f != 0x7fe && f != 0x7ff && !(a >= 0xff10 && a <= 0xff3f) {
							continue
						}
						if !yield(c11IO{Reg: a, Freq: f}) {
							return
						}
					}
				}
			}, func() struct{} { return struct{}{} }, c11IOCheck)
		explore.Product(c.R, "oam-vram-writes-at-every-phase", explore.PartOpt{Bound: "one write after every delay 0-227 (two scan lines) from the start of the line, then 160 cycles", Domain: "every OAM byte FE00-FE9F + 12 VRAM addresses x 4 values x start lines {3, 60, 118} x objects 8x8 / 8x16"},
			func(yield func(c11Mem) bool) {
				for _, line := range []int{3, 60, 118} {
					for _, lcdc := range []uint8{0x93, 0x97} {
						for d := 0; d < 228; d += 12 {
							if !yield(c11Mem{Line: line, LCDC: lcdc, Delay: d}) {
								return
							}
						}
					}
				}
			}, func() struct{} { return struct{}{} }, c11MemCheck)
		explore.Product(c.R, "lcd-off-on-rounds", explore.PartOpt{Bound: "1, 2, 5 and 9 rounds of off/on at the given line, then 2 frames", Domain: "LCDC {F3,B3,E7,FF,91,A1} x (WX,WY) {(7,0),(166,0),(0,0),(7,143),(100,30)} x line {0,1,60,113,120,143,144,150} x off for {1,300} cycles"},
			func(yield func(c11LCD) bool) {
				for _, lcdc := range []uint8{0xf3, 0xb3, 0xe7, 0xff, 0x91, 0xa1} {
					for _, wp := range [][2]uint8{{7, 0}, {166, 0}, {0, 0}, {7, 143}, {100, 30}} {
						for _, line := range []int{0, 1, 60, 113, 120, 143, 144, 150} {
							for _, off := range []int{1, 300} {
								for _, rounds := range []int{1, 2, 5, 9} {
									if !c.Thorough() && rounds == 9 && off == 1 {
										continue
									}
									if !yield(c11LCD{LCDC: lcdc, WX: wp[0], WY: wp[1], Line: line, Off: off, Rounds: rounds}) {
										return
									}
								}
							}
						}
					}
				}
			}, func() struct{} { return struct{}{} }, c11LCDCheck)
		explore.Product(c.R, "undefined-opcodes", explore.PartOpt{Workers: 4, Bound: "each of the 11 undefined opcodes, in a sub-process", Domain: "must exit with status 1 and print the message"},
			func(yield func(c11Undef) bool) {
				for op := range undefinedOps {
					_ = op
				}
				for _, op := range []uint8{0xd3, 0xdb, 0xdd, 0xe3, 0xe4, 0xeb, 0xec, 0xed, 0xf4, 0xfc, 0xfd} {
					if !yield(c11Undef{op}) {
						return
					}
				}
			}, func() struct{} { return struct{}{} },
			func(l *explore.Local, _ struct{}, u c11Undef) *explore.Fail {
				out, err := exec.Command(c.SelfExe, "worker", "undef", fmt.Sprintf("%02x", u.Op)).CombinedOutput()
				code := 0
				if ee, ok := err.(*exec.ExitError); ok {
					code = ee.ExitCode()
				} else if err != nil {
					return explore.Failf("harness: cannot run worker", "%v", err)
				}
				want := fmt.Sprintf("0x%02X is not a valid instruction", u.Op)
				if code != 1 || !strings.Contains(string(out), want) {
					return explore.Failf("undefined opcode does not stop the emulator as documented", "opcode %02x: exit status %d, output %q (expected status 1 and %q)", u.Op, code, strings.TrimSpace(string(out)), want)
				}
				l.Eval(1)
				l.Outcome(uint64(u.Op))
				return nil
			})
	})
}
