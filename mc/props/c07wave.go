package props

import (
	"fmt"

	"verifmc/explore"
	"verifmc/machine"
)

// C07, the documented wave-RAM side effect of a trigger write: re-triggering channel 3 while it plays may rewrite the
// FIRST FOUR bytes of wave RAM (byte 0 with the byte being read when that lies in the first four, otherwise bytes
// 0-3 with the aligned four-byte group being read) and nothing else. While the channel plays, the window does not
// show the memory, so the single-write diff of the other part cannot see this effect: here the channel is stopped
// through NR30 right after the re-trigger and the sixteen bytes are read back.

type c07Wave struct {
	Freq  int `json:"freq"`
	From  int `json:"from"` // machine cycles played before the re-trigger
	To    int `json:"to"`
	Cycle int `json:"cycle,omitempty"` // replay: one position
}

func c07WaveCheck(l *explore.Local, _ struct{}, c c07Wave) *explore.Fail {
	var pat [16]uint8
	for i := range pat {
		pat[i] = uint8(i<<4 | (15 - i))
	}
	m := machine.New(machine.ROMOnly(), machine.Opts{})
	m.Map.Write(0xff26, 0x80)
	m.Map.Write(0xff1a, 0x00)
	for i, b := range pat {
		m.Map.Write(0xff30+uint16(i), b)
	}
	for _, w := range [][2]uint16{{0xff1a, 0x80}, {0xff1b, 0x00}, {0xff1c, 0x20}, {0xff1d, uint16(c.Freq & 0xff)}, {0xff1e, uint16(0x80 | c.Freq>>8)}} {
		m.Map.Write(w[0], uint8(w[1]))
	}
	for k := 0; k < c.From; k++ {
		m.Hardware()
	}
	for k := c.From; k < c.To; k++ {
		if c.Cycle == 0 || c.Cycle == k {
			sa := *m.A
			m.Map.Write(0xff1e, uint8(0x80|c.Freq>>8)) // re-trigger
			m.Map.Write(0xff1a, 0x00)                  // stop: the window shows the memory again
			var got [16]uint8
			for i := range got {
				got[i] = m.Map.Read(0xff30 + uint16(i))
			}
			*m.A = sa
			l.Trans(1)
			l.Eval(1)
			for i := 4; i < 16; i++ {
				if got[i] != pat[i] {
					f := explore.Failf("a trigger write changes wave RAM beyond its first four bytes",
						"frequency %d, re-trigger after %d machine cycles of play: FF3%X changed %02x -> %02x (wave RAM now % x)", c.Freq, k, i, pat[i], got[i], got[:])
					f.Case = c07Wave{Freq: c.Freq, From: c.From, To: c.To, Cycle: k}
					return f
				}
			}
			changed := 0
			for i := 0; i < 4; i++ {
				if got[i] != pat[i] {
					changed++
				}
			}
			if changed > 0 {
				ok := false
				for g := 4; g < 16 && !ok; g += 4 {
					ok = got[0] == pat[g] && got[1] == pat[g+1] && got[2] == pat[g+2] && got[3] == pat[g+3]
				}
				if !ok && got[1] == pat[1] && got[2] == pat[2] && got[3] == pat[3] {
					ok = got[0] == pat[1] || got[0] == pat[2] || got[0] == pat[3]
				}
				if !ok {
					f := explore.Failf("a trigger write rewrites the first wave RAM bytes with something that is not the group being read",
						"frequency %d, re-trigger after %d machine cycles of play: wave RAM % x -> % x", c.Freq, k, pat[:], got[:])
					f.Case = c07Wave{Freq: c.Freq, From: c.From, To: c.To, Cycle: k}
					return f
				}
				l.OutcomeStr(fmt.Sprintf("rewritten % x", got[:4]))
			} else {
				l.OutcomeStr("untouched")
			}
		}
		m.Hardware()
	}
	return nil
}

func c07WavePart(c *Ctx) {
	freqs := []int{2047, 2046, 2045, 2044, 2040, 2032, 2016, 1984, 1792, 1024}
	span := 192
	if c.Thorough() {
		span = 1056
		freqs = nil
		for f := 1980; f < 2048; f++ {
			freqs = append(freqs, f)
		}
		freqs = append(freqs, 1792, 1024, 0)
	}
	explore.Product(c.R, "re-trigger-wave-ram", explore.PartOpt{
		Bound:  fmt.Sprintf("channel 3 re-triggered after every number of machine cycles 1-%d of play, then stopped and all sixteen bytes read back", span),
		Domain: fmt.Sprintf("%d channel-3 frequencies (periods from 2 clocks up), wave RAM holding sixteen different bytes", len(freqs))},
		func(yield func(c07Wave) bool) {
			for _, f := range freqs {
				for from := 1; from <= span; from += 32 {
					if !yield(c07Wave{Freq: f, From: from, To: from + 32}) {
						return
					}
				}
			}
		}, func() struct{} { return struct{}{} }, c07WaveCheck)
}
