package props

import (
	"fmt"

	"github.com/scottyw/tetromino/gameboy/cpu"
	"verifmc/explore"
	"verifmc/machine"
	"verifmc/ref"
)

// C17 — OAM changes only through CPU writes, DMA, or the mode-2 bug (LCD on, mode 2).

var c17Ptrs = []uint16{0xfdff, 0xfe00, 0xfe08, 0xfe50, 0xfe98, 0xfe9f, 0xfea0, 0xfeff, 0xff00}

// one-instruction building blocks (nn is patched with the pointer)
var c17Ops = [][]uint8{
	{0x03}, {0x0b}, {0x13}, {0x1b}, {0x23}, {0x2b}, {0x33}, {0x3b}, // INC/DEC BC DE HL SP
	{0xc5}, {0xd5}, {0xe5}, {0xf5}, {0xc1}, {0xd1}, {0xe1}, {0xf1}, // PUSH/POP
	{0x2a}, {0x3a}, {0x22}, {0x32}, {0x0a}, {0x12}, {0xfa, 0, 0}, // LD A,(HL+/-) LD (HL+/-),A LD A,(BC) LD (DE),A LD A,(nn)
}

type c17Case struct {
	Mode  string `json:"mode"` // off | offonoff | on
	Line  int    `json:"line"`
	From  int    `json:"from"` // first tick of the line in this block
	To    int    `json:"to"`
	Len   int    `json:"len"`            // program length
	Tick  int    `json:"tick,omitempty"` // replay: one position
	Prog  []int  `json:"prog,omitempty"`
	Ptr   uint16 `json:"ptr,omitempty"`
	OnFor int    `json:"on_for,omitempty"`
	// Pre (mode "offwrite"): index+1 of the register write made while the LCD is off, before the program runs (0: all)
	Pre int `json:"pre,omitempty"`
	// Debug: the machine is built with Config.DebugLCD set (a legal configuration; the statement holds for it too)
	Debug bool `json:"debug,omitempty"`
	// Objs: objects are enabled in LCDC and OAM holds objects that lie on the line (so the renderer reads object
	// memory during mode 3 of that line); the statement does not depend on what the picture shows
	Objs bool `json:"objs,omitempty"`
	// Off (mode "poweron"): LCDC bit 7 is cleared at power-on, before the first machine cycle
	Off bool `json:"off,omitempty"`
	// Idle: machine cycles the CPU spins in work RAM after the program; OAM may not change in any of them that begins
	// outside mode 2
	Idle int `json:"idle,omitempty"`
}

// c17Pattern is the OAM image put there by DMA: every row distinct; with objs, object k lies on the given line.
func c17Pattern(i, line int, objs bool) uint8 {
	if objs && i%4 == 0 {
		return uint8(line + 16 - (i/4)%8)
	}
	if objs && i%4 == 1 {
		return uint8(8 + i)
	}
	return uint8(i*7 + i/8*0x21 + 0x13)
}

// register writes a guest may make while the LCD is off; none of them may re-arm the OAM bug
var c17PreWrites = [][2]uint16{{0xff44, 0x00}, {0xff44, 0x90}, {0xff41, 0x20}, {0xff41, 0xff}, {0xff45, 0x00}, {0xff40, 0x13}, {0xff40, 0x7f},
	{0xff42, 0x55}, {0xff43, 0x55}, {0xff4a, 0x00}, {0xff4b, 0x07}, {0xff47, 0xe4}, {0xff48, 0xe4}, {0xff49, 0xe4}, {0xff0f, 0x02}, {0xffff, 0x02}}

// oamBus serves OAM from the expected image so that the reference never touches the real OAM.
type oamBus struct {
	m   *machine.M
	exp *[160]uint8
}

func (b oamBus) Read(a uint16) uint8 {
	switch {
	case a >= 0xfe00 && a < 0xfea0:
		return b.exp[a-0xfe00]
	case a >= 0xfea0 && a < 0xff00:
		return 0
	}
	return b.m.Map.Read(a)
}

func (b oamBus) Write(a uint16, v uint8) {
	if a >= 0xfe00 && a < 0xfea0 {
		b.exp[a-0xfe00] = v
	}
}

type c17Snap struct {
	p   interface{}
	run func()
}

// c17DMAOff: with the LCD on, at every cycle of the line, the guest starts an OAM DMA and at once (before the
// first byte is copied) moves or dereferences a pointer into FE00-FEFF; the LCD is then switched off and the
// CPU only executes NOPs until well after the transfer. The transfer rewrites all 160 bytes after the pointer
// activity, so whatever the mode-2 bug may have done while the LCD was on, OAM must end up equal to the DMA
// source and stay so: anything else altered OAM with the LCD off.
func c17DMAOff(l *explore.Local, c c17Case) *explore.Fail {
	m := machine.New(machine.ROMOnly(), machine.Opts{})
	for i := 0; i < 160; i++ {
		m.Map.Write(0xc100+uint16(i), uint8(i*7+i/8*0x21+0x13))
		m.Map.Write(0xc200+uint16(i), uint8(i*11+i/8*0x35+0x07))
	}
	m.Map.Write(0xff46, 0xc1)
	for i := 0; i < 170; i++ {
		m.Hardware()
	}
	target := 17556 + c.Line*114 - 2 + c.From
	for pos := 170; pos < target; pos++ {
		m.Hardware()
	}
	ptrs := c17Ptrs
	if c.Ptr != 0 {
		ptrs = []uint16{c.Ptr}
	}
	for tick := c.From; tick < c.To; tick++ {
		if c.Tick == 0 || c.Tick == tick {
			sp, so, si, st, sc, sm, sa := *m.P, *m.OAM, *m.I, *m.T, *m.CPU, *m.Map, *m.A
			for _, ptr := range ptrs {
				for oi := range c17Ops {
					if c.Prog != nil && c.Prog[0] != oi {
						continue
					}
					*m.P, *m.OAM, *m.I, *m.T, *m.CPU, *m.Map, *m.A = sp, so, si, st, sc, sm, sa
					op := append([]uint8(nil), c17Ops[oi]...)
					if len(op) == 3 {
						op[1], op[2] = uint8(ptr), uint8(ptr>>8)
					}
					code := append([]uint8{0x3e, 0xc2, 0xe0, 0x46}, op...)
					for i := 0; i < 420; i++ {
						b := uint8(0)
						if i < len(code) {
							b = code[i]
						}
						m.Map.Write(0xd000+uint16(i), b)
					}
					regs := cpu.VRegs{A: 0x5a, B: uint8(ptr >> 8), C: uint8(ptr), D: uint8(ptr >> 8), E: uint8(ptr), H: uint8(ptr >> 8), L: uint8(ptr), SP: ptr, PC: 0xd000}
					m.CPU.VSet(regs)
					m.I.Disable()
					// LD A,C2 (2 cycles), LDH (46),A (3), the pointer instruction
					for k := 0; k < 5; k++ {
						m.Cycle()
					}
					for k := 0; k < 12; k++ {
						m.Cycle()
						if m.CPU.VAtBoundary() {
							break
						}
					}
					// the LCD stays on for a further 0, 60 or 120 cycles (so that a line, and its mode 2, may begin while the
					// transfer runs), is then switched off, and the transfer ends with the LCD off
					s3p, s3o, s3i, s3t, s3c, s3m, s3a := *m.P, *m.OAM, *m.I, *m.T, *m.CPU, *m.Map, *m.A
					for _, stay := range []int{-1, 0, 60, 120} {
						*m.P, *m.OAM, *m.I, *m.T, *m.CPU, *m.Map, *m.A = s3p, s3o, s3i, s3t, s3c, s3m, s3a
						if stay < 0 {
							// the LCD stays on: the transfer runs to its end (its stores are DMA's), then for more than a line the CPU
							// only executes NOPs in work RAM: whatever the pointer instruction armed while the transfer ran, no byte
							// of OAM may change in a cycle that begins outside mode 2
							for k := 0; k < 170; k++ {
								m.Cycle()
							}
							ob := m.OAMBytes()
							for k := 0; k < 130; k++ {
								armed := m.Map.Read(0xff41)&3 == 2
								before := *ob
								m.Cycle()
								if !armed && *ob != before {
									for i := range before {
										if ob[i] != before[i] {
											f := explore.Failf("OAM altered in a machine cycle outside mode 2",
												"line %d tick %d, pointer %04x, program % x with the LCD on: %d cycles after the transfer ended, while the CPU executes NOPs (STAT mode before the cycle not 2), OAM[%d] changed %02x -> %02x",
												c.Line, tick, ptr, code, k+1, i, before[i], ob[i])
											f.Case = c17Case{Mode: "dmaoff", Line: c.Line, From: c.From, To: c.To, Tick: tick, Prog: []int{oi}, Ptr: ptr}
											return f
										}
									}
								}
							}
							l.Trans(1)
							l.Eval(1)
							continue
						}
						for k := 0; k < stay; k++ {
							m.Cycle()
						}
						m.Map.Write(0xff40, m.Map.Read(0xff40)&0x7f)
						for k := 0; k < 200; k++ {
							m.Cycle()
						}
						// LCD off, no transfer running: pointer reads and increments in FE00-FEFF must leave OAM alone
						for j, b := range []uint8{0x2a, 0x23, 0x0a, 0xe1, 0x00, 0x00} {
							m.Map.Write(0xc100+uint16(j), b)
						}
						regs2 := regs
						regs2.PC = 0xc100
						m.CPU.VSet(regs2)
						for k := 0; k < 12; k++ {
							m.Cycle()
						}
						l.Trans(1)
						// stores through the pointer land in OAM only while it is writable; the transfer overwrites them
						for i := 0; i < 160; i++ {
							want := uint8(i*11 + i/8*0x35 + 0x07)
							if got := m.Map.Read(0xfe00 + uint16(i)); got != want {
								f := explore.Failf("OAM altered without a CPU write or DMA: LCD off (after a DMA that was started with the LCD on)",
									"line %d tick %d, pointer %04x, program % x, LCD switched off after it: OAM[%d]=%02x after the transfer, DMA source byte %02x", c.Line, tick, ptr, code, i, got, want)
								f.Case = c17Case{Mode: "dmaoff", Line: c.Line, From: c.From, To: c.To, Tick: tick, Prog: []int{oi}, Ptr: ptr}
								f.Msg += fmt.Sprintf(" [LCD kept on for %d further cycles; after the transfer LD A,(HL+); INC HL; LD A,(BC); POP HL ran with the pointers at %04x]", stay, ptr)
								return f
							}
						}
						l.Eval(1)
					}
				}
			}
			*m.P, *m.OAM, *m.I, *m.T, *m.CPU, *m.Map, *m.A = sp, so, si, st, sc, sm, sa
			l.Outcome(uint64(sp.ReadSTAT()&3) | uint64(c.Line)<<8 | 0xd<<20)
		}
		m.Hardware()
	}
	return nil
}

func c17Check(l *explore.Local, _ struct{}, c c17Case) *explore.Fail {
	if c.Mode == "dmaoff" {
		return c17DMAOff(l, c)
	}
	if c.Mode == "haltinoam" {
		return c17HaltInOAM(l, c)
	}
	m := machine.New(machine.ROMOnly(), machine.Opts{DebugLCD: c.Debug})
	if c.Mode == "poweron" {
		// no transfer was ever requested: the program runs c.From.. machine cycles after power-on, when nothing but
		// its own stores may write object memory (a DMA source page, DF00-DF9F included, must not reach it)
		for i := 0; i < 160; i++ {
			m.Map.Write(0xdf00+uint16(i), uint8(i*5+0x31))
			m.Map.Write(0xc100+uint16(i), uint8(i*3+0x17))
		}
		if c.Off {
			m.Map.Write(0xff40, 0x11)
		}
		for i := 0; i < c.From; i++ {
			m.Hardware()
		}
	} else {
		// fill OAM through a DMA transfer (no CPU/OAM-bug interaction): every row distinct
		for i := 0; i < 160; i++ {
			m.Map.Write(0xc100+uint16(i), c17Pattern(i, c.Line, c.Objs))
			m.Map.Write(0xc200+uint16(i), uint8(i*11+i/8*0x35+0x07))
		}
		if c.Objs {
			m.Map.Write(0xff40, 0x93)
		}
		m.Map.Write(0xff46, 0xc1)
		for i := 0; i < 170; i++ {
			m.Hardware()
		}
		// go to the requested line of the next frame
		pos := 170
		target := 17556 + c.Line*114 - 2 + c.From // power-on frame: first line is 2 cycles shorter
		for ; pos < target; pos++ {
			m.Hardware()
		}
	}
	var oam0 [160]uint8
	lcdOn := func() bool { return m.Map.Read(0xff40)&0x80 != 0 }
	progs := [][]int{c.Prog}
	if c.Prog == nil {
		progs = nil
		var rec func(p []int)
		rec = func(p []int) {
			if len(p) == c.Len {
				progs = append(progs, append([]int(nil), p...))
				return
			}
			for i := range c17Ops {
				rec(append(p, i))
			}
		}
		for n := 1; n <= c.Len; n++ {
			saved := c.Len
			c.Len = n
			rec(nil)
			c.Len = saved
		}
	}
	ptrs := c17Ptrs
	if c.Mode == "on" {
		// with the LCD on, also pointers that stay clear of FE00-FEFF whatever the program does (high RAM, work RAM): the
		// DMG bug needs a pointer in FE00-FEFF, so with these OAM may not change in ANY cycle, mode 2 included
		ptrs = append(append([]uint16(nil), c17Ptrs...), 0xff80, 0xfff0, 0xc080)
	}
	if c.Ptr != 0 {
		ptrs = []uint16{c.Ptr}
	}
	pres := []int{0}
	if c.Mode == "offwrite" {
		pres = nil
		for i := range c17PreWrites {
			if c.Pre == 0 || c.Pre == i+1 {
				pres = append(pres, i+1)
			}
		}
	}
	for tick := c.From; tick < c.To; tick++ {
		for _, pre := range pres {
			if c.Tick == 0 || c.Tick == tick {
				// snapshot everything that the excursion touches
				sp, so, si, st, sc, sm, sa := *m.P, *m.OAM, *m.I, *m.T, *m.CPU, *m.Map, *m.A
				restore := func() { *m.P, *m.OAM, *m.I, *m.T, *m.CPU, *m.Map, *m.A = sp, so, si, st, sc, sm, sa }
				lcdc := m.Map.Read(0xff40)
				switch c.Mode {
				case "off":
					m.Map.Write(0xff40, lcdc&0x7f)
				case "offwrite":
					m.Map.Write(0xff40, lcdc&0x7f)
					m.Hardware()
					w := c17PreWrites[pre-1]
					m.Map.Write(w[0], uint8(w[1])&^uint8(boolTo(w[0] == 0xff40)*0x80))
				case "offonoff":
					m.Map.Write(0xff40, lcdc&0x7f)
					m.Hardware()
					m.Map.Write(0xff40, lcdc|0x80)
					for i := 0; i < c.OnFor; i++ {
						m.Hardware()
					}
					m.Map.Write(0xff40, lcdc&0x7f)
				case "offon":
					// switched off and on again: the program starts c.OnFor cycles into the first line after the switch-on
					m.Map.Write(0xff40, lcdc&0x7f)
					m.Hardware()
					m.Map.Write(0xff40, lcdc|0x80)
					for i := 0; i < c.OnFor; i++ {
						m.Hardware()
					}
				case "poweron":
				case "onlcdc":
					// LCD on with objects enabled: the guest clears LCDC bit 1 (objects off, LCD stays on) at this position
					// of the line, mode 2 included, and the program runs c.OnFor cycles later
					m.Map.Write(0xff40, lcdc&^0x02)
					for i := 0; i < c.OnFor; i++ {
						m.Hardware()
					}
				case "dmaon":
					// LCD on: a transfer from C200 is started at this position of the line (so that scans begin and end while
					// it runs); the program runs c.OnFor (> 162) cycles later, when OAM holds the second pattern
					m.Map.Write(0xff46, 0xc2)
					for i := 0; i < c.OnFor; i++ {
						m.Hardware()
					}
				case "on":
					// every position of the line, mode 2 included: what an armed cycle does to OAM is the emulated bug's
					// business (the end state is then not judged), but every cycle that begins outside mode 2 is
				}
				m.Hardware() // at least one PPU tick has always happened after the switch
				// the OAM image the reference starts from: what DMA put there (read back while no bug can be armed by the read itself matters not: reads go through PPU-side access)
				for i := range oam0 {
					oam0[i] = c17Pattern(i, c.Line, c.Objs)
				}
				if c.Mode == "poweron" {
					oam0 = *m.OAMBytes() // what power-on left there
				}
				if c.Mode == "dmaon" {
					for i := range oam0 {
						oam0[i] = uint8(i*11 + i/8*0x35 + 0x07)
					}
				}
				s2p, s2o, s2i, s2t, s2c, s2m, s2a := *m.P, *m.OAM, *m.I, *m.T, *m.CPU, *m.Map, *m.A
				for _, ptr := range ptrs {
					for _, prog := range progs {
						*m.P, *m.OAM, *m.I, *m.T, *m.CPU, *m.Map, *m.A = s2p, s2o, s2i, s2t, s2c, s2m, s2a
						exp := oam0
						var code []uint8
						for _, oi := range prog {
							op := append([]uint8(nil), c17Ops[oi]...)
							if len(op) == 3 {
								op[1], op[2] = uint8(ptr), uint8(ptr>>8)
							}
							code = append(code, op...)
						}
						for i, b := range append(append([]uint8(nil), code...), 0x18, 0xfe) { // then JR to itself
							m.Map.Write(0xc000+uint16(i), b)
						}
						far := ptr < 0xfd00 || ptr >= 0xff40
						regs := cpu.VRegs{A: 0x5a, F: 0x00, B: uint8(ptr >> 8), C: uint8(ptr), D: uint8(ptr >> 8), E: uint8(ptr), H: uint8(ptr >> 8), L: uint8(ptr), SP: ptr, PC: 0xc000}
						m.CPU.VSet(regs)
						m.I.Disable()
						r := toRef(regs)
						bus := oamBus{m, &exp}
						judged := true
						ob := m.OAMBytes()
						for range prog {
							info := r.Step(bus)
							var stored [160]bool // OAM bytes this instruction stores to
							for _, a := range info.Accesses {
								if a.Write && a.Addr >= 0xfe00 && a.Addr < 0xfea0 {
									stored[a.Addr-0xfe00] = true
								}
							}
							for k := 0; k < info.Cycles; k++ {
								armed := lcdOn() && m.Map.Read(0xff41)&3 == 2 && !far
								if armed {
									judged = false // LCD on and mode 2: the OAM bug may legitimately strike
								}
								before := *ob
								m.Cycle()
								if !armed && *ob != before {
									// a machine cycle that began outside mode 2 (or with the LCD off): a byte may change only
									// by a store of this instruction — and, as long as no armed cycle has made the contents
									// unpredictable, only to the value the reference stores there
									for i := range before {
										if ob[i] != before[i] && (!stored[i] || (judged && ob[i] != exp[i])) {
											f := explore.Failf("OAM altered in a machine cycle outside mode 2",
												"mode %s, line %d tick %d, pointer %04x, program % x: in cycle %d of an instruction (LCD on: %v; STAT mode before the cycle not 2, or no pointer of the program anywhere near FE00-FEFF) OAM[%d] changed %02x -> %02x; no store put that value there",
												c.Mode, c.Line, tick, ptr, code, k+1, lcdOn(), i, before[i], ob[i])
											f.Case = c17Case{Mode: c.Mode, Line: c.Line, From: c.From, To: c.To, Len: len(prog), Tick: tick, Prog: prog, Ptr: ptr, OnFor: c.OnFor, Pre: pre, Debug: c.Debug, Objs: c.Objs, Off: c.Off, Idle: c.Idle}
											return f
										}
									}
								}
							}
							l.Trans(1)
						}
						for k := 0; k < c.Idle; k++ {
							armed := lcdOn() && m.Map.Read(0xff41)&3 == 2
							if armed {
								judged = false
							}
							before := *ob
							m.Cycle()
							if !armed && *ob != before {
								for i := range before {
									if ob[i] != before[i] {
										f := explore.Failf("OAM altered in a machine cycle outside mode 2",
											"mode %s, line %d tick %d, pointer %04x, program % x: %d cycles after the program, while the CPU spins in work RAM (LCD on: %v, STAT mode before the cycle not 2), OAM[%d] changed %02x -> %02x",
											c.Mode, c.Line, tick, ptr, code, k+1, lcdOn(), i, before[i], ob[i])
										f.Case = c17Case{Mode: c.Mode, Line: c.Line, From: c.From, To: c.To, Len: len(prog), Tick: tick, Prog: prog, Ptr: ptr, OnFor: c.OnFor, Pre: pre, Debug: c.Debug, Objs: c.Objs, Off: c.Off, Idle: c.Idle}
										return f
									}
								}
							}
						}
						if lcdOn() && m.Map.Read(0xff41)&3 == 2 && !far {
							judged = false
						}
						if !judged {
							continue
						}
						l.Eval(1)
						// observe OAM: with the LCD on this must happen outside mode 2, so step the PPU out of it first
						for lcdOn() && m.Map.Read(0xff41)&3 == 2 {
							m.P.EndMachineCycle()
						}
						for i := 0; i < 160; i++ {
							if got := m.Map.Read(0xfe00 + uint16(i)); got != exp[i] {
								state := "LCD off (switched off in mode " + itoa(int(sp.ReadSTAT()&3)) + ")"
								if c.Mode == "on" {
									state = "LCD on outside mode 2"
								}
								if c.Mode == "offonoff" {
									state = "LCD off (off, on, off again)"
								}
								if c.Mode == "offon" {
									state = "LCD on outside mode 2 (after being switched off and on)"
								}
								if c.Mode == "onlcdc" {
									state = "LCD on outside mode 2 (after objects were switched off in LCDC)"
								}
								if c.Mode == "dmaon" {
									state = "LCD on outside mode 2 (after a DMA transfer that ran across the end of a scan)"
								}
								if c.Mode == "poweron" {
									state = fmt.Sprintf("no transfer requested since power-on (LCD off: %v)", c.Off)
								}
								if c.Mode == "offwrite" {
									state = fmt.Sprintf("LCD off, after a write to %04x", c17PreWrites[pre-1][0])
								}
								f := explore.Failf("OAM altered without a CPU write or DMA: "+state,
									"%s, line %d tick %d, pointer %04x, program % x: OAM[%d]=%02x, expected %02x", state, c.Line, tick, ptr, code, i, got, exp[i])
								f.Case = c17Case{Mode: c.Mode, Line: c.Line, From: c.From, To: c.To, Len: len(prog), Tick: tick, Prog: prog, Ptr: ptr, OnFor: c.OnFor, Pre: pre, Debug: c.Debug, Objs: c.Objs, Off: c.Off, Idle: c.Idle}
								return f
							}
						}
					}
				}
				l.Outcome(uint64(sp.ReadSTAT()&3) | uint64(c.Line)<<8 | uint64(pre)<<16)
				restore()
			}
		}
		m.Hardware()
	}
	return nil
}

// c17HaltInOAM: the guest executes HALT from object memory (FE90; the bytes after it are NOPs) with the LCD on and
// sleeps until the v-blank request wakes it (with and without the master enable). A sleeping CPU drives no bus
// cycles, so nothing it does can arm the mode-2 bug; whatever the mode-2 fetches before the HALT did is over within
// the cycle they happen in. From the first cycle on, no byte of OAM may change in a cycle that begins outside mode 2.
func c17HaltInOAM(l *explore.Local, c c17Case) *explore.Fail {
	m := machine.New(machine.ROMOnly(), machine.Opts{})
	for i := 0; i < 160; i++ {
		b := c17Pattern(i, c.Line, false)
		if i == 0x90 {
			b = 0x76
		} else if i > 0x90 {
			b = 0x00
		}
		m.Map.Write(0xc100+uint16(i), b)
	}
	m.Map.Write(0xff46, 0xc1)
	for i := 0; i < 170; i++ {
		m.Hardware()
	}
	target := 17556 + c.Line*114 - 2 + c.From
	for pos := 170; pos < target; pos++ {
		m.Hardware()
	}
	ob := m.OAMBytes()
	for tick := c.From; tick < c.To; tick++ {
		sp, so, si, st, sc, sm, sa := *m.P, *m.OAM, *m.I, *m.T, *m.CPU, *m.Map, *m.A
		for _, ime := range []bool{false, true} {
			*m.P, *m.OAM, *m.I, *m.T, *m.CPU, *m.Map, *m.A = sp, so, si, st, sc, sm, sa
			m.Map.Write(0xff0f, 0x00)
			m.Map.Write(0xffff, 0x01)
			m.CPU.VSet(cpu.VRegs{A: 0x5a, SP: 0xdff0, PC: 0xfe90})
			if ime {
				m.I.Enable()
			} else {
				m.I.Disable()
			}
			slept, woke := false, -1
			for k := 0; k < 17556+300 && (woke < 0 || k < woke+10); k++ {
				armed := m.Map.Read(0xff41)&3 == 2
				before := *ob
				m.Cycle()
				l.Trans(1)
				if h := m.CPU.VGet().Halted; h {
					slept = true
				} else if slept && woke < 0 {
					woke = k
				}
				if !armed && *ob != before {
					for i := range before {
						if ob[i] != before[i] {
							f := explore.Failf("OAM altered in a machine cycle outside mode 2",
								"HALT executed at FE90 on line %d tick %d (IME=%v, IE=01): cycle %d (slept: %v, woken in cycle %d; STAT mode before the cycle not 2): OAM[%d] changed %02x -> %02x",
								c.Line, tick, ime, k, slept, woke, i, before[i], ob[i])
							f.Case = c17Case{Mode: "haltinoam", Line: c.Line, From: tick, To: tick + 1}
							return f
						}
					}
				}
			}
			if !slept || woke < 0 {
				return explore.Failf("harness: the guest did not sleep in OAM and wake up", "line %d tick %d IME=%v: slept=%v woke=%d", c.Line, tick, ime, slept, woke)
			}
			l.Eval(1)
		}
		*m.P, *m.OAM, *m.I, *m.T, *m.CPU, *m.Map, *m.A = sp, so, si, st, sc, sm, sa
		l.Outcome(uint64(sp.ReadSTAT()&3) | uint64(c.Line)<<8 | 0xe<<20)
		m.Hardware()
	}
	return nil
}

func boolTo(b bool) int {
	if b {
		return 1
	}
	return 0
}

var _ = ref.FZ
var _ = fmt.Sprintf

func init() {
	register("C17", "model_checking", func(c *Ctx) {
		if c.R != nil {
			c.R.Rule = "OAM is filled by DMA with 20 pairwise different rows; at EVERY cycle 0-113 of lines 0, 1, 143, 144, 153 the LCD is switched off (so in each mode and at each point of mode 2), also off-on-off, or left on outside mode 2, or switched off and followed by one write to a video/interrupt register; from a snapshot at that point every program of the length bound over 23 instructions that move BC/DE/HL/SP or read/write through them (16-bit INC/DEC, PUSH/POP, LD A,(HL+/-), LD (HL+/-),A, LD A,(BC), LD (DE),A, LD A,(nn)) is run with every pointer in {FDFF,FE00,FE08,FE50,FE98,FE9F,FEA0,FEFF,FF00}; afterwards OAM must equal plain memory updated only by the reference CPU's writes into FE00-FE9F"
			c.R.Assumptions = []string{"with the LCD on, any run that touches mode 2 is not judged (the DMG bug may strike there)", "programs are straight-line"}
		}
		n := 1
		if c.Thorough() {
			n = 2
		}
		explore.Product(c.R, "oam-integrity", explore.PartOpt{Bound: fmt.Sprintf("programs of length <= %d (one extra block of length %d on line 1)", n, n+1), Domain: "switch-off at every cycle of lines 0,1,143,144,153; off-on-off; LCD on with the program started at every position of the line (a byte of OAM may change in a machine cycle that begins outside mode 2 only to a value the program stores there; OAM is observed after every cycle without a bus access); the same with objects enabled and eight objects on the line (lines 1, 77, 143); switch-off at every cycle of lines 1 and 150 followed by one of 16 register writes (LY, STAT, LYC, LCDC with bit 7 clear, scroll, window, palettes, IF, IE); the LCD switched off at every cycle of lines 1 and 144 on a machine built with DebugLCD; DMA started + pointer instruction at every cycle of line 1 with the LCD on, then LCD off and NOPs until after the transfer, or the LCD left on and no change allowed outside mode 2 after the transfer; LCD switched off and on with the program at every cycle 0-139 after the switch-on; from power-on (LCD on / switched off at once) with the program at every cycle 0-179 and 180 quiet cycles after it; HALT executed from FE90 at every cycle of lines 1 and 143 until v-blank wakes the CPU; objects switched off in LCDC at every cycle of a line and the program 0/25/60 cycles later; a DMA started at every cycle of a line and the program 165/200/240 cycles later"},
			func(yield func(c17Case) bool) {
				for _, line := range []int{0, 1, 143, 144, 153} {
					for from := 0; from < 114; from += 6 {
						for _, mode := range []string{"off", "on"} {
							if !yield(c17Case{Mode: mode, Line: line, From: from, To: from + 6, Len: n}) {
								return
							}
						}
						for _, onFor := range []int{0, 5, 25} {
							if !yield(c17Case{Mode: "offonoff", Line: line, From: from, To: from + 6, Len: 1, OnFor: onFor}) {
								return
							}
						}
					}
				}
				// objects enabled and lying on the line: LCD on outside mode 2, and switched off, at every cycle
				for _, line := range []int{1, 77, 143} {
					for from := 0; from < 114; from += 6 {
						for _, mode := range []string{"on", "off"} {
							if !yield(c17Case{Mode: mode, Line: line, From: from, To: from + 6, Len: 1, Objs: true}) {
								return
							}
						}
					}
				}
				// the same switch-off points on a machine built with DebugLCD
				for _, line := range []int{1, 144} {
					for from := 0; from < 114; from += 6 {
						if !yield(c17Case{Mode: "off", Line: line, From: from, To: from + 6, Len: 1, Debug: true}) {
							return
						}
					}
				}
				// a DMA started and a pointer moved at every cycle of a visible line with the LCD on, then the LCD switched off
				for from := 0; from < 114; from += 6 {
					if !yield(c17Case{Mode: "dmaoff", Line: 1, From: from, To: from + 6, Len: 1}) {
						return
					}
					if c.Thorough() {
						if !yield(c17Case{Mode: "dmaoff", Line: 144, From: from, To: from + 6, Len: 1}) {
							return
						}
					}
				}
				// the LCD switched off at every cycle of a visible and of a v-blank line, then one register write, then the program
				for _, line := range []int{1, 150} {
					for from := 0; from < 114; from += 3 {
						if !yield(c17Case{Mode: "offwrite", Line: line, From: from, To: from + 3, Len: 1}) {
							return
						}
					}
				}
				for from := 0; from < 114; from += 2 {
					if !yield(c17Case{Mode: "off", Line: 1, From: from, To: from + 2, Len: n + 1}) {
						return
					}
				}
				// switched off and on again: the program started at every cycle of the first line after the switch-on and
				// into the second (the first line after a switch-on has its own mode schedule)
				offAt := []int{3, 40, 100}
				if c.Thorough() {
					offAt = []int{0, 3, 10, 19, 20, 40, 62, 63, 100, 113}
				}
				for _, line := range []int{1, 144} {
					for _, t := range offAt {
						for onFor := 0; onFor < 140; onFor++ {
							if !yield(c17Case{Mode: "offon", Line: line, From: t, To: t + 1, Len: n, OnFor: onFor}) {
								return
							}
						}
					}
				}
				// objects switched off in LCDC (the LCD stays on) at every cycle of a line, the program 0, 25 or 60 cycles later
				for _, line := range []int{1, 143} {
					for from := 0; from < 114; from += 6 {
						for _, w := range []int{0, 25, 60} {
							if !yield(c17Case{Mode: "onlcdc", Line: line, From: from, To: from + 6, Len: 1, OnFor: w, Objs: true}) {
								return
							}
						}
					}
				}
				// a transfer started at every cycle of a line with the LCD on; the program after it has ended
				for _, line := range []int{1, 143} {
					for from := 0; from < 114; from += 6 {
						for _, w := range []int{165, 200, 240} {
							if !yield(c17Case{Mode: "dmaon", Line: line, From: from, To: from + 6, Len: 1, OnFor: w}) {
								return
							}
						}
					}
				}
				// from power-on, no transfer ever requested: the program at every cycle 0-179, then 180 quiet cycles
				for _, off := range []bool{true, false} {
					for from := 0; from < 180; from += 6 {
						if !yield(c17Case{Mode: "poweron", From: from, To: from + 6, Len: n, Off: off, Idle: 180}) {
							return
						}
					}
				}
				// HALT executed from object memory at every cycle of a visible line and of the last one before v-blank
				for _, line := range []int{1, 143} {
					for from := 0; from < 114; from += 6 {
						if !yield(c17Case{Mode: "haltinoam", Line: line, From: from, To: from + 6}) {
							return
						}
					}
				}
			}, func() struct{} { return struct{}{} }, c17Check)
	})
}
