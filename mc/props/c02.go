package props

import (
	"fmt"
	"os"
	"path/filepath"

	"github.com/scottyw/tetromino/gameboy/cpu"
	"verifmc/explore"
	"verifmc/machine"
	"verifmc/ref"
)

// C02 — machine cycles per instruction; C03 — machine cycle of every data access.

// ---------------------------------------------------------------------------------------
// C02 (i)+(ii): every opcode x flags, and every ordered pair of opcodes without re-seeding
// the CPU in between (so a length cannot depend on what ran before).

type c02Case struct {
	Op1   int   `json:"op1"`
	Op2   int   `json:"op2"` // -1: all second opcodes (enumeration); else a single pair (replay)
	Flags uint8 `json:"flags"`
	// Effect (C01's pair part): judge what the second instruction does to registers, flags and memory,
	// not how long either instruction takes
	Effect bool `json:"effect,omitempty"`
	// Pending: an interrupt is requested and enabled in IE but the master enable is clear while the instructions run
	// (nothing may be dispatched, every instruction keeps its length; HALT does not halt and takes its 1 cycle)
	Pending bool `json:"pending,omitempty"`
}

// operands that make every control transfer land in WRAM
func c02Code(op int) []uint8 {
	if op >= 256 {
		return []uint8{0xcb, uint8(op - 256)}
	}
	n := ref.OperandBytes(uint8(op))
	switch n {
	case 1:
		return []uint8{uint8(op), 0x10}
	case 2:
		return []uint8{uint8(op), 0x00, 0xc8}
	}
	return []uint8{uint8(op)}
}

func c02Regs(fl uint8) cpu.VRegs {
	// HL, BC, DE point into WRAM; the stack holds return address C900 (for RET/RETI/POP)
	return cpu.VRegs{A: 0x12, F: fl, B: 0xc4, C: 0x00, D: 0xc5, E: 0x00, H: 0xc9, L: 0x00, SP: 0xdf00, PC: 0xc000}
}

func cyclesFail(which string, o stepOutcome, before cpu.VRegs) *explore.Fail {
	taken := ""
	if o.info.Cond {
		taken = " (condition false)"
		if o.info.Taken {
			taken = " (condition true)"
		}
	}
	return explore.Failf(fmt.Sprintf("op %s: wrong number of machine cycles%s", opName(o.info), which),
		"op %s%s with F=%02x took %d machine cycles, documented %d", opName(o.info), taken, before.F, o.cycles, o.info.Cycles)
}

func c02Check(l *explore.Local, e *cpuEnv, c c02Case) *explore.Fail {
	seconds := []int{c.Op2}
	if c.Op2 < 0 {
		seconds = seconds[:0]
		for op := 0; op < 512; op++ {
			if op < 256 && (ref.UndefinedOpcodes[uint8(op)] || op == 0xcb) {
				continue
			}
			seconds = append(seconds, op)
		}
	}
	for _, op2 := range seconds {
		e.m.Map.Write(0xff0f, 0)
		e.m.Map.Write(0xffff, 0)
		if c.Pending {
			e.m.I.Disable()
			e.m.Map.Write(0xffff, 0x04)
			e.m.Map.Write(0xff0f, 0x04)
		}
		e.poke(0xdf00, 0x00) // return address C900 on the stack
		e.poke(0xdf01, 0xc9)
		e.placeCode(0xc000, c02Code(c.Op1))
		r := c02Regs(c.Flags)
		o1, f := e.runOne(r)
		if f != nil {
			return f
		}
		if o1.cycles != o1.info.Cycles && !c.Effect {
			f := cyclesFail("", o1, r)
			f.Case = c02Case{Op1: c.Op1, Op2: op2, Flags: c.Flags}
			return f
		}
		if f := e.applyWrites(o1); f != nil {
			return f
		}
		l.Trans(1)
		if o1.want.Halted || o1.want.Stopped || o1.want.HaltBug || !plainAddr(o1.want.PC) || o1.got.PC != o1.want.PC {
			// HALT/STOP idle; RST lands in ROM (the following NOPs are measured by the sweep below). The decision is the
			// reference's: a CPU that went idle after an instruction that is neither HALT nor STOP must still be measured
			// (its next instruction then never takes its documented length)
			continue
		}
		// second instruction: placed where the first one left PC; the CPU is NOT re-seeded
		e.placeCode(o1.want.PC, c02Code(op2))
		r2 := toRef(o1.got)
		e.log = e.log[:0]
		info := r2.Step(preBus{e})
		n := 0
		for {
			e.m.CPU.ExecuteMachineCycle()
			n++
			if e.m.CPU.VAtBoundary() || n >= 40 {
				break
			}
		}
		o2 := stepOutcome{info: info, want: r2, got: e.m.CPU.VGet(), cycles: n}
		if n != info.Cycles && !c.Effect {
			f := cyclesFail(" when it follows another instruction", o2, o1.got)
			f.Msg += fmt.Sprintf(" (preceded by op %s)", opName(o1.info))
			f.Case = c02Case{Op1: c.Op1, Op2: op2, Flags: c.Flags}
			return f
		}
		if f := compareRegs(o2, o1.got); f != nil {
			f.Msg += fmt.Sprintf(" (preceded by op %s, CPU not re-seeded in between)", opName(o1.info))
			f.Case = c02Case{Op1: c.Op1, Op2: op2, Flags: c.Flags, Effect: c.Effect}
			return f
		}
		if f := e.applyWrites(o2); f != nil {
			f.Msg += fmt.Sprintf(" (preceded by op %s, CPU not re-seeded in between)", opName(o1.info))
			f.Case = c02Case{Op1: c.Op1, Op2: op2, Flags: c.Flags, Effect: c.Effect}
			return f
		}
		l.Trans(1)
		l.Outcome(uint64(n)<<16 | uint64(op2))
		// a HALT/STOP as second instruction leaves the CPU idle: wake it for the next iteration via VSet (done by runOne)
	}
	l.Eval(len(seconds))
	return nil
}

// ---------------------------------------------------------------------------------------
// C02 (iv): whole test ROMs with a per-instruction monitor.

// c02Mode: the guest writes one value to one I/O address (through a CPU store), then executes STOP and is woken by a
// key press, or HALT and is woken by a request, or neither; after that a sample of instructions is measured again.
// No I/O address of a DMG changes how many machine cycles an instruction takes, whatever is stored there and whatever
// mode the CPU has been through.
type c02Mode struct {
	Reg uint16 `json:"reg"`
	Val uint8  `json:"val"`
	Via string `json:"via"` // stop | halt | none
}

var c02ModeOps = []int{0x00, 0x18, 0xcd, 0xc9, 0x21, 0x34, 0xc5, 0xfa, 0x100 + 0xc6, 0x20, 0xc0, 0xe0, 0x08}

func c02ModeCheck(l *explore.Local, _ struct{}, c c02Mode) *explore.Fail {
	e := newCPUEnv()
	code := []uint8{0x3e, c.Val, 0xea, uint8(c.Reg), uint8(c.Reg >> 8)}
	switch c.Via {
	case "stop":
		code = append(code, 0x10, 0x00)
	case "halt":
		code = append(code, 0x76)
	}
	code = append(code, 0, 0, 0, 0, 0, 0, 0, 0)
	e.placeCode(0xc000, code)
	e.m.CPU.VSet(cpu.VRegs{SP: 0xdff0, PC: 0xc000})
	e.m.I.Disable()
	for i := 0; i < 12; i++ {
		e.m.CPU.ExecuteMachineCycle()
	}
	switch c.Via {
	case "stop":
		e.m.CPU.OnInput() // (whether STOP stopped the CPU is C05's business; the lengths are measured either way)
	case "halt":
		e.m.Map.Write(0xffff, 0x04)
		e.m.I.RequestTimer()
	}
	for i := 0; i < 6; i++ {
		e.m.CPU.ExecuteMachineCycle()
	}
	for _, op := range c02ModeOps {
		for _, fl := range []uint8{0x00, 0xf0} {
			if f := c02Check(l, e, c02Case{Op1: op, Op2: 0x00, Flags: fl}); f != nil {
				f.Msg = fmt.Sprintf("after the guest stored %02x at %04x (then: %s): %s", c.Val, c.Reg, c.Via, f.Msg)
				f.Sig = "after an I/O store and " + c.Via + ": " + f.Sig
				f.Case = c
				return f
			}
		}
	}
	l.Eval(1)
	l.Outcome(uint64(c.Reg)<<8 | uint64(c.Val))
	return nil
}

// c02LowWindowROM: MBC1, 64 pages. The main program is present at the same addresses in pages 00 and 20; the routine
// at 0200 is NOP; RET in page 00 and INC (HL); INC (HL); RET in page 20. Main: call 0200; mode 1, upper bank bits 1
// (0000-3FFF now shows page 20); call 0200; upper bits 0; call 0200; and again; then spin.
func c02LowWindowROM() []byte {
	img := machine.Image(0x01, 5, 0, 64)
	main := []byte{
		0x21, 0x00, 0xc0, // LD HL,C000
		0xcd, 0x00, 0x02, // CALL 0200
		0x3e, 0x01, 0xea, 0x00, 0x60, // mode 1
		0x3e, 0x01, 0xea, 0x00, 0x40, // upper bits 1
		0xcd, 0x00, 0x02,
		0xaf, 0xea, 0x00, 0x40, // upper bits 0
		0xcd, 0x00, 0x02,
		0x3e, 0x01, 0xea, 0x00, 0x40,
		0xcd, 0x00, 0x02,
		0x18, 0xfe,
	}
	for _, page := range []int{0x00, 0x20} {
		base := page * 0x4000
		copy(img[base+0x100:], []byte{0xc3, 0x50, 0x01})
		copy(img[base+0x150:], main)
	}
	copy(img[0x0200:], []byte{0x00, 0xc9})
	copy(img[0x20*0x4000+0x0200:], []byte{0x34, 0x34, 0xc9})
	return img
}

type c02ROM struct {
	File   string `json:"file"`
	Frames int    `json:"frames"`
}

// fetchBus serves opcode/operand fetches from the real Mapper and returns 0 for data reads
// (cycle counts do not depend on data values; this keeps the monitor free of read side effects).
type fetchBus struct {
	m  *machine.M
	pc uint16
}

func (b fetchBus) Read(a uint16) uint8 {
	if a >= b.pc && a < b.pc+3 || (b.pc > 0xfffc && a < 3) {
		return b.m.Map.Read(a)
	}
	return 0
}
func (b fetchBus) Write(uint16, uint8) {}

func c02ROMCheck(l *explore.Local, _ struct{}, c c02ROM) *explore.Fail {
	rom, err := os.ReadFile(c.File)
	if err != nil {
		return explore.Failf("harness: cannot read ROM", "%v", err)
	}
	m := machine.New(rom, machine.Opts{})
	instr := 0
	total := c.Frames * 17556
	for cyc := 0; cyc < total; {
		if !m.CPU.VAtBoundary() {
			m.Cycle()
			cyc++
			continue
		}
		regs := m.CPU.VGet()
		pending := m.I.Pending()
		if regs.Halted || regs.Stopped || (pending && m.I.Enabled()) {
			// idle cycle, wake-up or interrupt dispatch: not an instruction (C04/C05)
			m.Cycle()
			cyc++
			for !m.CPU.VAtBoundary() && cyc < total {
				m.Cycle()
				cyc++
			}
			continue
		}
		r := toRef(regs)
		info := r.Step(fetchBus{m, regs.PC})
		if info.Undefined {
			break
		}
		n := 0
		for {
			m.Cycle()
			n++
			cyc++
			if m.CPU.VAtBoundary() || n >= 40 {
				break
			}
		}
		instr++
		if n != info.Cycles {
			return explore.Failf(fmt.Sprintf("op %s: wrong number of machine cycles inside a program", opName(info)),
				"%s: instruction %d at PC=%04x (F=%02x): op %s took %d cycles, documented %d", filepath.Base(c.File), instr, regs.PC, regs.F, opName(info), n, info.Cycles)
		}
		l.Outcome(uint64(info.Op)<<8 | uint64(n) | uint64(info.CBOp)<<16)
	}
	l.Trans(instr)
	l.Eval(1)
	return nil
}

// ---------------------------------------------------------------------------------------
// C03: data-access cycles, by the marker technique.

type c03Case struct {
	Op    int    `json:"op"`
	Ptr   uint16 `json:"ptr"` // where BC/DE/HL/SP/nn/FF00+x point
	Flags uint8  `json:"flags"`
	// Pre: 0 = the CPU is seeded right before the instruction; n > 0 = instruction n-1 (0-255 base, 256-511 CB)
	// runs first and the measured instruction follows it WITHOUT re-seeding (its registers are whatever the
	// predecessor left), so a decode or sequencer state that survives an instruction shows in the access cycles
	Pre int `json:"pre,omitempty"`
	// KeyAt: n > 0 = a key event reaches the CPU (CPU.OnInput, the display's key callback) after machine cycle n of
	// the instruction; outside STOP a key event has no effect on the CPU, so the access cycles are unchanged
	KeyAt int `json:"key_at,omitempty"`
}

// markerBus: data reads at the listed addresses return a fixed value; everything else from the real pre-state.
type markerBus struct {
	e    *cpuEnv
	vals map[uint16]uint8
}

func (b markerBus) Read(a uint16) uint8 {
	if v, ok := b.vals[a]; ok {
		return v
	}
	return preBus{b.e}.Read(a)
}
func (b markerBus) Write(a uint16, v uint8) { preBus{b.e}.Write(a, v) }

func c03Regs(op int, ptr uint16, fl uint8) (cpu.VRegs, []uint8) {
	r := cpu.VRegs{A: 0x3c, F: fl, B: uint8(ptr >> 8), C: uint8(ptr), D: uint8((ptr + 4) >> 8), E: uint8(ptr + 4),
		H: uint8((ptr + 8) >> 8), L: uint8(ptr + 8), SP: ptr + 0x10, PC: 0xc000}
	code := codeOf(op)
	if op < 256 {
		switch ref.OperandBytes(uint8(op)) {
		case 1:
			code = append(code, uint8(ptr+0x20)) // FF00+n forms: n = low byte (ptr is in HRAM for those)
		case 2:
			code = append(code, uint8(ptr+0x20), uint8((ptr+0x20)>>8))
		}
	}
	return r, code
}

func c03Check(l *explore.Local, e *cpuEnv, c c03Case) *explore.Fail {
	regs, code := c03Regs(c.Op, c.Ptr, c.Flags)
	if c.Op == 0xe0 || c.Op == 0xf0 || c.Op == 0xe2 || c.Op == 0xf2 {
		if c.Ptr < 0xff80 || c.Ptr > 0xffc0 {
			return nil // FF00+n / FF00+C forms are exercised with the pointer in HRAM only
		}
	}
	e.m.Map.Write(0xff0f, 0)
	e.m.Map.Write(0xffff, 0)
	e.placeCode(0xc000, code)
	if c.Pre > 0 {
		// predecessor at C000, the measured instruction where it leaves PC
		pre := c.Pre - 1
		e.poke(regs.SP, 0x40) // a return address in WRAM for RET-like predecessors
		e.poke(regs.SP+1, 0xc2)
		e.placeCode(0xc000, c02Code(pre))
		o1, f := e.runOne(regs)
		if f != nil {
			return f
		}
		if f := e.applyWrites(o1); f != nil {
			return nil // the predecessor itself misbehaves: C01's business
		}
		g := o1.got
		if o1.info.Undefined || g.Halted || g.Stopped || !e.m.CPU.VAtBoundary() || g.PC != o1.want.PC || g.PC < 0xc000 || g.PC >= 0xdd00 {
			return nil
		}
		regs = g
		e.placeCode(regs.PC, code)
	}
	// dry run of the reference to learn the documented accesses
	e.log = e.log[:0]
	dry := toRef(regs)
	info := dry.Step(preBus{e})
	if info.Undefined || len(info.Accesses) == 0 {
		return nil
	}
	var reads, writes []ref.Access
	for _, a := range info.Accesses {
		if !plainAddr(a.Addr) {
			return nil
		}
		if c.Pre > 0 && a.Addr+2 >= regs.PC && a.Addr < regs.PC+4 {
			return nil // the predecessor left PC inside the data area (JP (HL) ...): markers would overwrite the code
		}
		if a.Write {
			writes = append(writes, a)
		} else {
			reads = append(reads, a)
		}
	}
	// choose marker values that make a read in the wrong cycle visible
	pairs := [][2]uint8{{0x5a, 0xa5}, {0xff, 0x00}, {0x3c, 0x00}, {0x01, 0x00}, {0x80, 0x00}, {0x10, 0x00}, {0x08, 0x00}, {0x04, 0x00}, {0x02, 0x00}, {0x40, 0x00}, {0x20, 0x00}}
	var v1, v0 uint8
	var want ref.CPU
	var wantInfo ref.StepInfo
	chosen := len(reads) == 0
	if chosen {
		want = toRef(regs)
		e.log = e.log[:0]
		wantInfo = want.Step(preBus{e})
	}
	for _, p := range pairs {
		if chosen {
			break
		}
		run := func(v uint8) (ref.CPU, ref.StepInfo, []ref.Access) {
			vals := map[uint16]uint8{}
			for _, rd := range reads {
				vals[rd.Addr] = v
			}
			e.log = e.log[:0]
			r := toRef(regs)
			in := r.Step(markerBus{e, vals})
			return r, in, append([]ref.Access(nil), e.log...)
		}
		ra, ia, wa := run(p[0])
		rb, _, wb := run(p[1])
		differ := ra != rb || len(wa) != len(wb)
		for i := range wa {
			if i < len(wb) && wa[i] != wb[i] {
				differ = true
			}
		}
		// a marker must never equal a value the instruction writes to the same location (read-modify-write)
		for _, w := range wa {
			for _, rd := range reads {
				if w.Addr == rd.Addr && (w.Val == p[0] || w.Val == p[1]) {
					differ = false
				}
			}
		}
		if differ {
			v1, v0, want, wantInfo, chosen = p[0], p[1], ra, ia, true
			e.log = wa
		}
	}
	if !chosen {
		if c.Pre > 0 {
			return nil // the registers the predecessor left make the value read unobservable (e.g. AND (HL) with A=0)
		}
		return explore.Failf("harness: no marker pair distinguishes the read cycle", "op %s", opName(info))
	}
	expWrites := append([]ref.Access(nil), e.log...)
	for i := range expWrites {
		expWrites[i].Cycle = 0
	}
	for i, w := range wantInfo.Accesses {
		_ = i
		if w.Write {
			for j := range expWrites {
				if expWrites[j].Addr == w.Addr && expWrites[j].Cycle == 0 {
					expWrites[j].Cycle = w.Cycle
					expWrites[j].Val = w.Val
					break
				}
			}
		}
	}
	// pre-fill write targets with a value that differs from what will be written
	for _, w := range expWrites {
		e.poke(w.Addr, ^w.Val)
	}
	if c.Pre == 0 {
		e.m.CPU.VSet(regs)
	}
	seen := make([]int, len(expWrites))
	n := 0
	for {
		n++
		for _, rd := range reads {
			v := v0
			if rd.Cycle == n {
				v = v1
			}
			e.poke(rd.Addr, v)
		}
		e.m.CPU.ExecuteMachineCycle()
		if c.KeyAt == n {
			e.m.CPU.OnInput()
		}
		for i, w := range expWrites {
			if seen[i] == 0 && e.m.Map.Read(w.Addr) == w.Val {
				seen[i] = n
			}
		}
		if e.m.CPU.VAtBoundary() || n >= 40 {
			break
		}
	}
	got := e.m.CPU.VGet()
	o := stepOutcome{info: wantInfo, want: want, got: got, cycles: n}
	name := opName(info)
	if c.Pre > 0 {
		name += " (after another instruction)"
	}
	if f := compareRegs(o, regs); f != nil {
		// the value consumed was not the one present in the documented cycle
		cyc := []int{}
		for _, rd := range reads {
			cyc = append(cyc, rd.Cycle)
		}
		return explore.Failf(fmt.Sprintf("op %s: data read not in the documented machine cycle", name),
			"pointer %04x: the value present only during cycle(s) %v was not the one consumed (%s)", c.Ptr, cyc, f.Msg)
	}
	for i, w := range expWrites {
		if seen[i] != w.Cycle {
			return explore.Failf(fmt.Sprintf("op %s: data write not in the documented machine cycle", name),
				"pointer %04x: write of %02x to %04x observed after cycle %d, documented cycle %d", c.Ptr, w.Val, w.Addr, seen[i], w.Cycle)
		}
	}
	// keep the shadow consistent
	for _, w := range expWrites {
		e.shadow[fold(w.Addr)] = w.Val
	}
	l.Eval(1)
	l.Trans(n)
	sig := uint64(c.Op) << 32
	for _, a := range info.Accesses {
		sig = sig*31 + uint64(a.Cycle)*2
		if a.Write {
			sig++
		}
	}
	l.Outcome(sig)
	return nil
}

// c03DivCheck observes the cycle of a data write through a location whose write has an effect whatever the
// value: any write to DIV (FF04) clears it. So also writes that store the value already there (RES on a clear
// bit, SET on a set bit, LD (HL),A with equal contents) must show in their documented cycle.
type c03Div struct {
	// Effect (C01's use of this probe): judge only THAT the write reaches the addressed location (DIV is cleared
	// by the end of the instruction), not in which cycle
	Effect  bool   `json:"effect,omitempty"`
	Op      int    `json:"op"`
	Ptr     uint16 `json:"ptr"`
	Flags   uint8  `json:"flags"`
	Counter uint16 `json:"counter"` // timer divider before the instruction (DIV = high byte, non-zero)
}

func c03DivCheck(l *explore.Local, e *cpuEnv, c c03Div) *explore.Fail {
	regs, code := c03Regs(c.Op, c.Ptr, c.Flags)
	regs.A = uint8(c.Counter >> 8) // LD (..),A then stores the value DIV already shows
	e.m.Map.Write(0xff0f, 0)
	e.m.Map.Write(0xffff, 0)
	e.placeCode(0xc000, code)
	e.m.T.VSetCounter(c.Counter)
	e.log = e.log[:0]
	dry := toRef(regs)
	info := dry.Step(preBus{e})
	if info.Undefined {
		return nil
	}
	want := 0
	for _, a := range info.Accesses {
		if a.Write && a.Addr == 0xff04 {
			if want != 0 {
				return nil // two writes to the same place: the first one is the observable one; keep it simple
			}
			want = a.Cycle
		} else if a.Write && !plainAddr(a.Addr) {
			return nil // another side-effecting target: outside this probe
		}
	}
	if want == 0 {
		return nil
	}
	e.m.CPU.VSet(regs)
	seen, n := 0, 0
	for {
		n++
		e.m.CPU.ExecuteMachineCycle()
		if seen == 0 && e.m.Map.Read(0xff04) == 0 {
			seen = n
		}
		if e.m.CPU.VAtBoundary() || n >= 40 {
			break
		}
	}
	// undo the instruction's plain-memory writes in the shadow
	for _, w := range e.log {
		if plainAddr(w.Addr) {
			e.shadow[fold(w.Addr)] = e.m.Map.Read(w.Addr)
		}
	}
	if c.Effect {
		if seen == 0 {
			return explore.Failf(fmt.Sprintf("op %s: addressed memory wrong after the instruction", opName(info)),
				"pointer aimed at DIV (FF04, reads %02x before): the instruction must write there (any write clears DIV) but DIV still reads %02x", uint8(c.Counter>>8), e.m.Map.Read(0xff04))
		}
		l.Eval(1)
		l.Trans(n)
		l.Outcome(uint64(c.Op)<<8 | 0xd1)
		return nil
	}
	if seen != want {
		what := fmt.Sprintf("observed after cycle %d", seen)
		if seen == 0 {
			what = "never observed"
		}
		return explore.Failf(fmt.Sprintf("op %s: data write not in the documented machine cycle", opName(info)),
			"pointer aimed at DIV (FF04, reads %02x before): the write that must clear it is %s, documented cycle %d", uint8(c.Counter>>8), what, want)
	}
	l.Eval(1)
	l.Trans(n)
	l.Outcome(uint64(c.Op)<<8 | uint64(want))
	return nil
}

func init() {
	register("C02", "model_checking", func(c *Ctx) {
		if c.R != nil {
			c.R.Rule = "machine cycles = number of ExecuteMachineCycle calls between instruction boundaries of the real CPU, compared with the reference cycle count (taken/not-taken chosen from the flags): every opcode x all 16 flag nibbles, every ordered pair of opcodes (the second one runs right after the first without re-seeding the CPU) x flag nibbles, every opcode again with an enabled request pending while the master enable is clear (no dispatch, same lengths; HALT then takes its single cycle without halting), and every instruction executed by the timing test ROMs (per-instruction monitor); a case = one first opcode with all 500 successors; the measurement of 13 opcodes is repeated after the guest stored each of 4 values at each I/O address FF00-FF7F / FFFF and then went through STOP + key press, HALT + request, or neither (no I/O address of a DMG changes instruction lengths)"
			c.R.Assumptions = []string{"interrupt dispatch and HALT wake-up lengths are checked in C04/C05", "ROM monitor: single deterministic executions, checked in full"}
		}
		flagSets := []uint8{0x00, 0xf0}
		if c.Thorough() {
			flagSets = allFlags
		}
		explore.Product(c.R, "opcode-pairs", explore.PartOpt{Bound: "every ordered pair of the 500 executable encodings", Domain: fmt.Sprintf("flag nibbles %02x; control transfers land in WRAM", flagSets)},
			func(yield func(c02Case) bool) {
				for op := 0; op < 512; op++ {
					if op < 256 && (ref.UndefinedOpcodes[uint8(op)] || op == 0xcb) {
						continue
					}
					for _, fl := range flagSets {
						if !yield(c02Case{Op1: op, Op2: -1, Flags: fl}) {
							return
						}
					}
				}
			}, newCPUEnv, c02Check)
		explore.Product(c.R, "opcode-all-flags", explore.PartOpt{Bound: "every opcode x all 16 flag nibbles (followed by NOP and by JR)", Domain: "501 encodings"},
			func(yield func(c02Case) bool) {
				for op := 0; op < 512; op++ {
					if op < 256 && (ref.UndefinedOpcodes[uint8(op)] || op == 0xcb) {
						continue
					}
					for _, fl := range allFlags {
						if !yield(c02Case{Op1: op, Op2: 0x00, Flags: fl}) || !yield(c02Case{Op1: op, Op2: 0x20, Flags: fl}) {
							return
						}
					}
				}
			}, newCPUEnv, c02Check)
		explore.Product(c.R, "opcode-with-a-masked-request-pending", explore.PartOpt{Bound: "every opcode x all 16 flag nibbles, followed by NOP", Domain: "IME clear, timer interrupt enabled in IE and requested in IF (EI and RETI excluded: they set the master enable)"},
			func(yield func(c02Case) bool) {
				for op := 0; op < 512; op++ {
					if op < 256 && (ref.UndefinedOpcodes[uint8(op)] || op == 0xcb || op == 0xfb || op == 0xd9) {
						continue
					}
					for _, fl := range allFlags {
						if !yield(c02Case{Op1: op, Op2: 0x00, Flags: fl, Pending: true}) {
							return
						}
					}
				}
			}, newCPUEnv, c02Check)
		frames := 300
		if c.Thorough() {
			frames = 1500
		}
		explore.Product(c.R, "lengths-after-an-io-store", explore.PartOpt{Bound: "one store, then STOP + key press / HALT + request / nothing, then 13 opcodes x 2 flag sets measured", Domain: "every address FF00-FF7F and FFFF x values {01, 80, FF, 00}"},
			func(yield func(c02Mode) bool) {
				for reg := 0xff00; reg <= 0xff80; reg++ {
					a := uint16(reg)
					if reg == 0xff80 {
						a = 0xffff
					}
					for _, v := range []uint8{0x01, 0x80, 0xff, 0x00} {
						for _, via := range []string{"stop", "halt", "none"} {
							if !yield(c02Mode{Reg: a, Val: v, Via: via}) {
								return
							}
						}
					}
				}
			}, func() struct{} { return struct{}{} }, c02ModeCheck)
		explore.Product(c.R, "rom-monitor", explore.PartOpt{Bound: fmt.Sprintf("%d frames each, every executed instruction measured", frames), Domain: "blargg instr_timing, mem_timing, cpu_instrs, halt_bug; a 1 MiB MBC1 guest executing the same low-window address from two pages"},
			func(yield func(c02ROM) bool) {
				for _, f := range []string{"blargg/instr_timing/instr_timing.gb", "blargg/mem_timing/mem_timing.gb", "blargg/cpu_instrs/cpu_instrs.gb", "blargg/halt_bug.gb"} {
					if !yield(c02ROM{filepath.Join(c.Repo, "gameboy/testdata", f), frames}) {
						return
					}
				}
				// a 1 MiB MBC1 guest that executes the same address below 4000 before and after mapping bank 20 there
				// (mode 1): the instruction measured is the one the bus delivers now
				yield(c02ROM{writeOnce(filepath.Join(c.Scratch, "c02-mbc1-low-window.gb"), c02LowWindowROM()), 1})
			}, func() struct{} { return struct{}{} }, c02ROMCheck)
	})

	register("C03", "model_checking", func(c *Ctx) {
		if c.R != nil {
			c.R.Rule = "for every opcode with a data access x pointer placement x flag nibble: before each machine cycle the harness stores a marker at every address the instruction reads, the distinguishing marker only before the documented read cycle, so the registers/flags at the boundary identify the cycle of the read; every write target is read back after every cycle so the first cycle at which it holds the written value identifies the cycle of the write; the documented cycles come from the reference interpreter's access list; writes are additionally observed through DIV (any write clears it), so a write of the value already present also has to appear in its documented cycle; the same measurement with a predecessor instruction executed first and the CPU not re-seeded in between"
			c.R.Assumptions = []string{"operand-byte fetch cycles and the pushes of interrupt dispatch are outside the statement", "addressed locations are memory-like (WRAM, echo, HRAM, VRAM/OAM with the LCD off)"}
		}
		ptrs := []uint16{0xc100, 0xdfc0, 0xe100, 0xfd80, 0xff80, 0xffa0, 0x8100, 0xfe10,
			0xc0df, 0xc0f7, 0xc0ff, 0xc0fb, 0xc0ef} // nn / HL / BC / DE / SP with low byte FF: two-byte accesses cross a page
		explore.Product(c.R, "access-cycles", explore.PartOpt{Bound: "single instruction, every machine cycle observed", Domain: "every memory-accessing opcode x 13 pointer placements (5 of them putting nn, HL, BC, DE or SP on the last byte of a page) x 16 flag nibbles"},
			func(yield func(c03Case) bool) {
				for op := 0; op < 512; op++ {
					if op < 256 && (ref.UndefinedOpcodes[uint8(op)] || op == 0xcb) {
						continue
					}
					for _, p := range ptrs {
						for _, fl := range allFlags {
							if !yield(c03Case{Op: op, Ptr: p, Flags: fl}) {
								return
							}
						}
					}
				}
			}, newCPUEnv, c03Check)
		explore.Product(c.R, "access-cycles-with-a-key-event", explore.PartOpt{Bound: "single instruction, a key event delivered to the CPU after cycle 1..5 of it, every machine cycle observed", Domain: "every memory-accessing opcode x 2 pointer placements x flags {00,F0}"},
			func(yield func(c03Case) bool) {
				for op := 0; op < 512; op++ {
					if op < 256 && (ref.UndefinedOpcodes[uint8(op)] || op == 0xcb) {
						continue
					}
					for _, p := range []uint16{0xc100, 0xff80} {
						for _, fl := range []uint8{0x00, 0xf0} {
							for k := 1; k <= 5; k++ {
								if !yield(c03Case{Op: op, Ptr: p, Flags: fl, KeyAt: k}) {
									return
								}
							}
						}
					}
				}
			}, newCPUEnv, c03Check)
		explore.Product(c.R, "write-cycle-observed-through-DIV", explore.PartOpt{Bound: "single instruction, DIV read after every machine cycle", Domain: "every opcode x 4 pointer placements that aim BC / DE / HL / nn, FF00+n, FF00+C at FF04 x flags {00,F0} x DIV before = {40, FF, 01} (so read-modify-write instructions meet set and clear bits)"},
			func(yield func(c03Div) bool) {
				for op := 0; op < 512; op++ {
					if op < 256 && (ref.UndefinedOpcodes[uint8(op)] || op == 0xcb || op == 0x76 || op == 0x10) {
						continue
					}
					for _, p := range []uint16{0xff04, 0xff00, 0xfefc, 0xfee4} {
						for _, fl := range []uint8{0x00, 0xf0} {
							for _, cnt := range []uint16{0x4000, 0xff00, 0x0100} {
								if !yield(c03Div{Op: op, Ptr: p, Flags: fl, Counter: cnt}) {
									return
								}
							}
						}
					}
				}
			}, newCPUEnv, c03DivCheck)
		explore.Product(c.R, "access-cycles-after-a-predecessor", explore.PartOpt{Bound: "two instructions, the CPU is not re-seeded between them; every machine cycle of the second observed", Domain: "every memory-accessing opcode x predecessors {its CB-prefixed / unprefixed twin, NOP, JR NZ taken and not taken, RET NZ not taken, BIT 0,(HL), INC (HL), PUSH BC, LD A,(HL+), CALL, RST-free set} (thorough: all 500 predecessors) x 2 pointer placements x flags {00,F0}"},
			func(yield func(c03Case) bool) {
				for op := 0; op < 512; op++ {
					if op < 256 && (ref.UndefinedOpcodes[uint8(op)] || op == 0xcb) {
						continue
					}
					pres := []int{0x00, 0x20, 0xc0, 0x100 + 0x46, 0x34, 0xc5, 0x2a, 0xcd, 0x18, 0x100 + 0x86}
					if op < 256 {
						pres = append(pres, 0x100+op)
					} else {
						pres = append(pres, op-0x100)
					}
					if c.Thorough() {
						pres = nil
						for q := 0; q < 512; q++ {
							if q < 256 && (ref.UndefinedOpcodes[uint8(q)] || q == 0xcb || q == 0x76 || q == 0x10) {
								continue
							}
							pres = append(pres, q)
						}
					}
					for _, pre := range pres {
						for _, p := range []uint16{0xc100, 0xff90} {
							for _, fl := range []uint8{0x00, 0xf0} {
								if !yield(c03Case{Op: op, Ptr: p, Flags: fl, Pre: pre + 1}) {
									return
								}
							}
						}
					}
				}
			}, newCPUEnv, c03Check)
	})
}
