package props

import (
	"fmt"

	"verifmc/explore"
	"verifmc/ref"
)

// C09 — cartridge RAM gating, banking and retention. Depth-first enumeration of every
// sequence of {enable/disable writes, bank selects, MBC1 mode, RAM writes} up to a depth
// on the real Mapper (in-place snapshot/restore of controller + RAM), window probes
// compared with the reference after every event and DumpRAM at every leaf.

type c09Case struct {
	Cart  cartSpec `json:"cart"`
	First int      `json:"first"` // index of the first event (shards the tree); -1 = path replay
	Depth int      `json:"depth"`
	Path  []c08Ev  `json:"path,omitempty"`
	Pre   int      `json:"pre,omitempty"` // index of the history prefix run before the enumeration (non-initial start states)
}

// c09Prefixes are histories that leave the controller in a non-initial state: data in several
// banks, RAM disabled again, bank/mode registers changed while disabled.
func c09Prefix(k ref.CartKind, i int) []c08Ev {
	sel := uint16(0x4000)
	switch i {
	case 1:
		// enable, store distinct bytes in three banks (mode 1 for MBC1), then disable
		p := []c08Ev{{0x0000, 0x0a}}
		if k == ref.KMBC1 {
			p = append(p, c08Ev{0x6000, 1})
		}
		banks := []uint8{0, 1, 2}
		switch k {
		case ref.KMBC3:
			banks = append(banks, 5, 7) // the selections above 03 exist on the 64 KiB parts only; they wrap on smaller ones
		case ref.KMBC5:
			banks = append(banks, 9, 15)
		}
		for _, b := range banks {
			p = append(p, c08Ev{sel, b}, c08Ev{0xa000, 0x11 * (b + 1)}, c08Ev{0xbfff, 0x21 + b})
		}
		return append(p, c08Ev{0x0000, 0x00})
	case 2:
		// as 1, then change the bank (and for MBC1 the mode) while disabled
		p := c09Prefix(k, 1)
		p = append(p, c08Ev{sel, 1})
		if k == ref.KMBC1 {
			p = append(p, c08Ev{0x6000, 0}, c08Ev{0x6000, 1})
		}
		return p
	}
	return nil
}

// c09Neighbours: the stores next door (set once at registration: the thorough tier, one level deeper, keeps three of them)
var c09Neighbours = []c08Ev{{0x8000, 0x3c}, {0x9fff, 0x3c}, {0xc000, 0x3c}, {0xe000, 0x3c}, {0xe001, 0x3c}, {0xfdff, 0x3c}, {0xff80, 0x3c}}

func c09Alphabet(k ref.CartKind, banks int, rtc ...bool) []c08Ev {
	var evs []c08Ev
	for _, v := range []uint8{0x0a, 0x00, 0x1a, 0xfa, 0x0b, 0xa0} {
		evs = append(evs, c08Ev{0x0000, v})
	}
	evs = append(evs, c08Ev{0x1eff, 0x0a}, c08Ev{0x1eff, 0x00})
	switch k {
	case ref.KMBC1:
		for v := uint8(0); v < 4; v++ {
			evs = append(evs, c08Ev{0x4000, v})
		}
		evs = append(evs, c08Ev{0x6000, 0}, c08Ev{0x6000, 1})
	case ref.KMBC2:
		evs = append(evs, c08Ev{0x0100, 0x0a}, c08Ev{0x2100, 0x02}, c08Ev{0x4000, 0x01}) // not RAM controls: must have no RAM effect
	case ref.KMBC3:
		for v := uint8(0); v < 8; v++ { // 08-0F select the clock (C10 / C11)
			evs = append(evs, c08Ev{0x4000, v})
		}
		evs = append(evs, c08Ev{0x6000, 1}) // latch writes must not disturb RAM
		if len(rtc) > 0 && rtc[0] {
			// with a clock on board: a clock register mapped at A000-BFFF (seconds, control, an undefined selector):
			// writes then go to the clock and must leave every RAM bank alone
			evs = append(evs, c08Ev{0x4000, 0x08}, c08Ev{0x4000, 0x0c}, c08Ev{0x4000, 0x0d})
		}
	case ref.KMBC5:
		for v := uint8(0); v < 16; v++ {
			evs = append(evs, c08Ev{0x4000, v})
		}
		evs = append(evs, c08Ev{0x4000, 0x1f}, c08Ev{0x6000, 1})
	}
	for _, a := range ramProbes {
		for _, v := range []uint8{0x00, 0x5a, 0xff, 0x0f} {
			evs = append(evs, c08Ev{a, v})
		}
	}
	// stores next door that are not the cartridge's: video RAM, work RAM, echo RAM (whose image of the RAM window's
	// offsets is E000 / FDFF), high RAM: none of them may reach cartridge RAM
	evs = append(evs, c09Neighbours...)
	return evs
}

func (p *cartPair) checkDump() *explore.Fail {
	k := p.mod.Kind.String()
	d := p.m.Map.DumpRAM()
	if p.mod.Kind == ref.KNone {
		return nil
	}
	if p.mod.Kind == ref.KMBC2 {
		if len(d) != 512 {
			return explore.Failf(k+": RAM dump has the wrong size", "cart %s: dump length %d, expected 512", p.spec, len(d))
		}
		for i, b := range d {
			if v, ok := p.mod.RAM[i]; ok && b&0x0f != v {
				return explore.Failf(k+": RAM dump does not show the stored bytes", "cart %s: dump[%d]=%02x, stored nibble %x", p.spec, i, b, v)
			}
		}
		return nil
	}
	want := p.mod.RAMBanks * 0x2000
	if len(d) != want {
		return explore.Failf(k+": RAM dump has the wrong size", "cart %s: dump length %d, expected %d", p.spec, len(d), want)
	}
	sum, exp := 0, 0xff*want
	for _, b := range d {
		sum += int(b)
	}
	for i, v := range p.mod.RAM {
		exp -= 0xff - int(v)
		if d[i] != v {
			return explore.Failf(k+": RAM dump does not show the stored bytes", "cart %s: dump[%05x]=%02x, stored %02x", p.spec, i, d[i], v)
		}
	}
	if sum != exp {
		return explore.Failf(k+": RAM dump does not show the stored bytes", "cart %s: dump holds bytes that were never stored (byte sum %d, expected %d)", p.spec, sum, exp)
	}
	return nil
}

func (p *cartPair) c09Apply(ev c08Ev) *explore.Fail {
	p.m.Map.Write(ev.A, ev.V)
	p.mod.Write(ev.A, ev.V)
	ctx := "a write to " + region(ev.A)
	if ev.A >= 0xa000 {
		ctx = "a RAM write"
		if ev.A >= 0xc000 {
			ctx = "a write outside the cartridge (" + region(ev.A) + ")"
		}
		// a store into the RAM window (or beyond) is not a control write: both ROM windows keep their pages
		if f := p.checkWindows(ctx); f != nil {
			return f
		}
	}
	return p.checkRAMWindow(ctx)
}

func c09Check(l *explore.Local, _ struct{}, c c09Case) *explore.Fail {
	p := newCartPair(c.Cart)
	if f := p.checkRAMWindow("power-on"); f != nil {
		return f
	}
	for _, ev := range c09Prefix(p.mod.Kind, c.Pre) {
		if f := p.c09Apply(ev); f != nil {
			f.Msg += " [in the history prefix]"
			return f
		}
	}
	if c.First < 0 {
		for _, ev := range c.Path {
			if f := p.c09Apply(ev); f != nil {
				return f
			}
		}
		return p.checkDump()
	}
	evs := c09Alphabet(p.mod.Kind, p.mod.RAMBanks, p.mod.HasRTC)
	path := []c08Ev{}
	var fail *explore.Fail
	mk := func(f *explore.Fail) {
		f.Case = c09Case{Cart: c.Cart, First: -1, Path: append([]c08Ev(nil), path...), Pre: c.Pre}
		fail = f
	}
	var dfs func(depth int)
	dfs = func(depth int) {
		if depth == c.Depth {
			l.Eval(1)
			if f := p.checkDump(); f != nil {
				mk(f)
			}
			en := uint64(0)
			if p.mod.RamEn {
				en = 1
			}
			l.Outcome(uint64(len(p.mod.RAM))<<8 | uint64(p.mod.RamB)<<4 | uint64(p.mod.Bank2)<<2 | en | uint64(p.m.Map.Read(0xa000))<<32)
			return
		}
		si := p.m.Map.VMBCSave(true)
		sm := p.mod.Clone()
		for i, ev := range evs {
			if depth == 0 && i != c.First {
				continue
			}
			path = append(path, ev)
			l.Trans(1)
			l.State(1)
			if f := p.c09Apply(ev); f != nil {
				mk(f)
			} else {
				dfs(depth + 1)
			}
			path = path[:len(path)-1]
			p.m.Map.VMBCLoad(si, true)
			p.mod = sm.Clone()
			if fail != nil {
				return
			}
		}
	}
	dfs(0)
	return fail
}

func init() {
	register("C09", "model_checking", func(c *Ctx) {
		if c.R != nil {
			c.R.Rule = "per cartridge: depth-first enumeration of every event sequence (RAM-enable values at two addresses, every bank select, MBC1 mode, writes of 4 values to 6 window addresses) up to the depth bound, executed on the real Mapper with in-place snapshot/restore; after every event 6 window addresses are read and compared with the reference RAM model (gate, bank modulo, retention, MBC2 nibble mirror), at every leaf DumpRAM is compared with the stored bytes; states = search-tree nodes"
			c.R.Assumptions = []string{"RAM-size code 1 (2 KiB) is not claimed (mirroring unspecified by the statement)", "MBC3 clock selectors 08-0F belong to C10/C11", "MBC2 cells never written: only the upper nibble is fixed"}
		}
		depth := 3
		if c.Thorough() {
			depth = 4
			c09Neighbours = []c08Ev{{0x8000, 0x3c}, {0xe000, 0x3c}, {0xfdff, 0x3c}}
		}
		type job struct {
			spec  cartSpec
			depth int
		}
		var jobs []job
		for _, ram := range []uint8{0, 2, 3, 4, 5} {
			for _, typ := range []uint8{0x03, 0x13, 0x1b} {
				d := depth
				if ram == 4 || ram == 5 {
					d = depth - 1 // large RAM: snapshot cost; the bank arithmetic is also covered by ram=3
					if ram == 4 && typ == 0x1b && c.Thorough() {
						d = depth // MBC5 is the controller with 16 banks
					}
				}
				jobs = append(jobs, job{cartSpec{typ, 1, ram}, d})
			}
		}
		jobs = append(jobs, job{cartSpec{0x02, 5, 3}, depth}, job{cartSpec{0x10, 1, 3}, depth}, job{cartSpec{0x1e, 1, 3}, depth - 1},
			job{cartSpec{0x05, 1, 0}, depth}, job{cartSpec{0x06, 0, 0}, depth}, job{cartSpec{0x00, 0, 0}, 2}, job{cartSpec{0x00, 0, 2}, 2},
			job{cartSpec{0x00, 1, 0}, 2}, job{cartSpec{0x00, 2, 0}, 2}, // ROM-only type with more ROM declared than the 32 KiB they can address
			// the largest ROMs together with four RAM banks (on MBC1 the same register feeds the upper ROM bits and the RAM bank)
			job{cartSpec{0x03, 6, 3}, depth}, job{cartSpec{0x13, 6, 3}, depth - 1}, job{cartSpec{0x1b, 8, 3}, depth - 1})
		explore.Product(c.R, "ram-event-sequences", explore.PartOpt{
			Bound:  fmt.Sprintf("every sequence up to depth %d (%d for the 64/128 KiB configurations)", depth, depth-1),
			Domain: "MBC1/MBC3/MBC5 x RAM codes {0,2,3,4,5}, MBC1 large ROM, the largest ROM of each controller together with 32 KiB RAM, MBC3+RTC type (with clock registers 08, 0C and the undefined 0D selectable), MBC5 rumble type, MBC2 (two types), ROM-only (32, 64 and 128 KiB images); from power-on and from two non-initial histories (data in three banks then disabled; bank/mode changed while disabled)"},
			func(yield func(c09Case) bool) {
				for _, j := range jobs {
					k, _ := ref.KindOf(j.spec.Type)
					n := len(c09Alphabet(k, 0, j.spec.Type == 0x0f || j.spec.Type == 0x10))
					for pre := 0; pre < 3; pre++ {
						if pre > 0 && (k == ref.KNone || k == ref.KMBC2 || j.spec.RAMCode < 3 || (j.spec.RAMCode > 3 && !(k == ref.KMBC5 && j.spec.RAMCode == 4) && !(k == ref.KMBC3 && j.spec.RAMCode == 5))) {
							continue // the histories only matter with several banks; large configurations are covered by MBC5/128 KiB and MBC3/64 KiB (the sizes that use every selectable bank)
						}
						d := j.depth
						if pre > 0 && d > 3 {
							d = 3
						}
						if pre > 0 && j.spec.RAMCode == 4 && !c.Thorough() {
							d = 2
						}
						for i := 0; i < n; i++ {
							if !yield(c09Case{Cart: j.spec, First: i, Depth: d, Pre: pre}) {
								return
							}
						}
					}
				}
			}, func() struct{} { return struct{}{} }, c09Check)
	})
}
