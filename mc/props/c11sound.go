package props

import (
	"fmt"

	"verifmc/explore"
	"verifmc/machine"
)

// C11, sound over time: what a guest starts in the sound unit keeps running for up to a second after the last write
// (length counters run out after up to 256 steps of 1/256 s, envelopes after 15 steps of up to 7/64 s, the sweep
// after a few steps of 1/128 s). The short runs of the other parts end long before any of these do; here every
// channel is started in every combination of its optional units and the sound hardware runs for 1.2 emulated seconds.

type c11Sound struct {
	Ch    int   `json:"ch"` // 1-4; 0: all four at once
	Len   uint8 `json:"len"`
	LenEn bool  `json:"len_en"`
	Env   uint8 `json:"env"`
	NR10  uint8 `json:"nr10"`
	Freq  int   `json:"freq"`
}

func c11SoundCheck(l *explore.Local, _ struct{}, c c11Sound) *explore.Fail {
	m := machine.New(machine.ROMOnly(), machine.Opts{Audio: true, ChanCap: 256})
	w := m.Map.Write
	w(0xff26, 0x80)
	w(0xff24, 0x77)
	w(0xff25, 0xff)
	ctl := uint8(0x80 | c.Freq>>8)
	if c.LenEn {
		ctl |= 0x40
	}
	start := func(ch int) {
		switch ch {
		case 1:
			w(0xff10, c.NR10)
			w(0xff11, 0x80|c.Len&0x3f)
			w(0xff12, c.Env)
			w(0xff13, uint8(c.Freq))
			w(0xff14, ctl)
		case 2:
			w(0xff16, 0x40|c.Len&0x3f)
			w(0xff17, c.Env)
			w(0xff18, uint8(c.Freq))
			w(0xff19, ctl)
		case 3:
			w(0xff1a, 0x80)
			w(0xff1b, c.Len)
			w(0xff1c, 0x20)
			w(0xff1d, uint8(c.Freq))
			w(0xff1e, ctl)
		case 4:
			w(0xff20, c.Len&0x3f)
			w(0xff21, c.Env)
			w(0xff22, uint8(c.Freq))
			w(0xff23, ctl&0xc0)
		}
	}
	if c.Ch == 0 {
		for ch := 1; ch <= 4; ch++ {
			start(ch)
		}
	} else {
		start(c.Ch)
	}
	n := 0
	for i := 0; i < 1_260_000; i++ {
		m.A.EndMachineCycle()
		if i%64 == 0 {
			a, _ := drain(m)
			n += len(a)
		}
	}
	l.Trans(n)
	l.Eval(1)
	l.Outcome(uint64(m.Map.Read(0xff26)) | uint64(c.Ch)<<8)
	return nil
}

func c11SoundPart(c *Ctx) {
	explore.Product(c.R, "sound-over-time", explore.PartOpt{
		Bound:  "1,260,000 machine cycles (1.2 s of emulated time) of the sound hardware per configuration",
		Domain: "each channel and all four together x length data {00, 3F/FF, 20} x length counting on / off x envelope {F0, F1, 09, 00} x sweep {00, 11, 19, 7F} (channel 1) x frequency {7FF, 400, 000}"},
		func(yield func(c11Sound) bool) {
			for ch := 0; ch <= 4; ch++ {
				for _, ln := range []uint8{0x00, 0xff, 0x20} {
					for _, en := range []bool{true, false} {
						for _, env := range []uint8{0xf0, 0xf1, 0x09, 0x00} {
							if ch == 3 && env != 0xf0 {
								continue
							}
							nr10s := []uint8{0x00}
							if ch <= 1 {
								nr10s = []uint8{0x00, 0x11, 0x19, 0x7f}
							}
							for _, nr10 := range nr10s {
								for _, f := range []int{0x7ff, 0x400, 0x000} {
									if !c.Thorough() && f == 0x000 && (env != 0xf0 || nr10 != 0) {
										continue
									}
									if !yield(c11Sound{Ch: ch, Len: ln, LenEn: en, Env: env, NR10: nr10, Freq: f}) {
										return
									}
								}
							}
						}
					}
				}
			}
		}, func() struct{} { return struct{}{} }, c11SoundCheck)
}

var _ = fmt.Sprintf
