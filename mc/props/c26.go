package props

import (
	"context"
	"fmt"
	"image"
	"os"
	"path/filepath"
	"strings"
	"sync"
	"time"
	"verifmc/machine"

	"verifmc/explore"
)

// C26 — the frame loop steps every component once per machine cycle, and Run stops on request.

type c26Twin struct {
	ROM    string `json:"rom"`
	Before int    `json:"frames_before"`
	Audio  bool   `json:"audio"`
	Video  bool   `json:"video"`
	Frames int    `json:"frames"`
}

// synthetic guest programs that put the machine into states no bundled ROM reaches: the frame loop must keep
// stepping every component 17,556 times per frame whatever the CPU is doing
var c26Synthetic = map[string][]byte{
	// timer running, then STOP: the CPU sits in STOP mode for the rest of the run
	"synthetic:stop": machine.Program(map[uint16][]byte{0x100: {0x3e, 0x05, 0xe0, 0x07, 0x3e, 0x04, 0xe0, 0xff, 0x06, 0x00, 0x04, 0x20, 0xfd, 0x10, 0x00, 0x04, 0x18, 0xfd}}),
	// HALT with interrupts disabled and nothing enabled: idles forever
	"synthetic:halt-forever": machine.Program(map[uint16][]byte{0x100: {0xf3, 0x3e, 0x05, 0xe0, 0x07, 0xaf, 0xe0, 0xff, 0x76, 0x00, 0x18, 0xfc}}),
	// LCD and sound switched off, timer fast, busy loop writing to work RAM
	"synthetic:lcd-and-sound-off": machine.Program(map[uint16][]byte{0x100: {0xaf, 0xe0, 0x40, 0xe0, 0x26, 0x3e, 0x05, 0xe0, 0x07, 0x21, 0x00, 0xc0, 0x34, 0x2c, 0x18, 0xfc}}),
	// MBC3 with the cartridge clock halted, then an OAM DMA every loop
	"synthetic:rtc-halted-dma": machine.ProgramCart(0x10, 0x03, map[uint16][]byte{0x100: {0x3e, 0x0a, 0xea, 0x00, 0x00, 0x3e, 0x0c, 0xea, 0x00, 0x40, 0x3e, 0x40, 0xea, 0x00, 0xa0,
		0x3e, 0xc0, 0xe0, 0x46, 0x06, 0x40, 0x05, 0x20, 0xfd, 0x18, 0xf6}}),
}

// noiseWidthPhases: channel 4 is triggered with the long (15-bit) shift register at the fastest clock, switched to the
// short register d machine cycles later (d = 0..95, so the switch meets every content of the low bits the register has
// in its first 40 steps, including all-zero low bits: the short register then locks up), left there long enough for the
// high bits to drain, and switched back. The samples of the rest of the run depend on what the generator does then.
func noiseWidthPhases() []byte {
	code := []byte{0x3e, 0x80, 0xe0, 0x26, 0x3e, 0x77, 0xe0, 0x24, 0x3e, 0xff, 0xe0, 0x25} // NR52=80 NR50=77 NR51=FF
	ldh := func(reg, v byte) { code = append(code, 0x3e, v, 0xe0, reg) }
	nops := func(n int) {
		for i := 0; i < n; i++ {
			code = append(code, 0x00)
		}
	}
	for d := 0; d < 96; d++ {
		ldh(0x21, 0xf0) // NR42: DAC on
		ldh(0x22, 0x00) // NR43: 15-bit, fastest clock
		ldh(0x23, 0x80) // NR44: trigger
		nops(d)
		ldh(0x22, 0x08) // NR43: 7-bit
		nops(24)
		ldh(0x22, 0x00) // NR43: 15-bit again
		nops(40)
	}
	code = append(code, 0xc3, 0x50, 0x01) // JP 0150
	return machine.Program(map[uint16][]byte{0x100: {0xc3, 0x50, 0x01}, 0x150: code})
}

func init() { c26Synthetic["synthetic:noise-width-phases"] = noiseWidthPhases() }

var writeOnceMu sync.Mutex

// writeOnce creates the file if it is not there yet; workers call this concurrently, so the file appears atomically.
func writeOnce(p string, img []byte) string {
	writeOnceMu.Lock()
	defer writeOnceMu.Unlock()
	if _, err := os.Stat(p); err != nil {
		tmp := p + ".tmp"
		os.WriteFile(tmp, img, 0o644)
		os.Rename(tmp, p)
	}
	return p
}

func c26ROMPath(c *Ctx, name string) string {
	if name == "synthetic:mbc3-clock" {
		return c24ROMPath(c, name)
	}
	if img, ok := c26Synthetic[name]; ok {
		return writeOnce(filepath.Join(c.Scratch, strings.ReplaceAll(name, ":", "-")+".gb"), img)
	}
	return filepath.Join(c.Repo, "gameboy/testdata", name)
}

func c26TwinCheck(c *Ctx) func(l *explore.Local, _ struct{}, cs c26Twin) *explore.Fail {
	return func(l *explore.Local, _ struct{}, cs c26Twin) *explore.Fail {
		rom := c26ROMPath(c, cs.ROM)
		a := newGB(rom, cs.Video, cs.Audio, true)
		b := newGB(rom, cs.Video, cs.Audio, true)
		ctx := context.Background()
		for i := 0; i < cs.Before; i++ {
			a.frame(ctx)
			b.frame(ctx)
			a.drainHash()
			b.drainHash()
		}
		if a.stateHash(true) != b.stateHash(true) {
			return explore.Failf("harness: twins differ before the experiment (see C24)", "%s", cs.ROM)
		}
		for f := 0; f < cs.Frames; f++ {
			r0, au0 := a.parts.Mapper.VRTCGet().Ticks, a.parts.Audio.VGet().Ticks
			a.frame(ctx) // the real runFrame
			b.refFrame() // the documented loop
			r1, au1 := a.parts.Mapper.VRTCGet().Ticks, a.parts.Audio.VGet().Ticks
			if d := ((r1-r0)%1048576 + 1048576) % 1048576; d != 17556 && !a.parts.Mapper.VRTCGet().Halt {
				return explore.Failf("a frame does not advance the memory hardware by 17,556 machine cycles", "%s frame %d: clock sub-second count advanced by %d", cs.ROM, cs.Before+f, d)
			}
			if d := (int64(au1) - int64(au0) + 2*4194304) % 4194304; d != 70224 {
				return explore.Failf("a frame does not advance the audio hardware by 70,224 clock cycles", "%s frame %d: advanced by %d", cs.ROM, cs.Before+f, d)
			}
			na, ha := a.drainHash()
			nb, hb := b.drainHash()
			if na != nb || ha != hb {
				return explore.Failf("runFrame differs from the documented loop: audio samples", "%s frame %d: %d vs %d samples", cs.ROM, cs.Before+f, na, nb)
			}
			if a.stateHash(false) != b.stateHash(false) {
				return explore.Failf("runFrame differs from the documented loop (CPU first, then video, memory, audio, timer->IF, 17,556 times)", "%s frame %d: registers / memory / frame differ (A: PC=%04x DIV=%02x LY=%d; B: PC=%04x DIV=%02x LY=%d)",
					cs.ROM, cs.Before+f, a.parts.CPU.VGet().PC, a.parts.Mapper.Read(0xff04), a.parts.Mapper.Read(0xff44), b.parts.CPU.VGet().PC, b.parts.Mapper.Read(0xff04), b.parts.Mapper.Read(0xff44))
			}
			if a.serial.String() != b.serial.String() {
				return explore.Failf("runFrame differs from the documented loop: serial output", "%s frame %d", cs.ROM, cs.Before+f)
			}
			l.Trans(1)
		}
		if a.stateHash(true) != b.stateHash(true) {
			return explore.Failf("runFrame differs from the documented loop (full state)", "%s after %d frames", cs.ROM, cs.Before+cs.Frames)
		}
		// the stub display must have been handed every frame
		if cs.Video && a.disp.Frames != cs.Before+cs.Frames {
			return explore.Failf("the display is not handed exactly one frame per runFrame", "%s: %d frames rendered after %d runFrame calls", cs.ROM, a.disp.Frames, cs.Before+cs.Frames)
		}
		l.Eval(1)
		l.Outcome(a.stateHash(false))
		return nil
	}
}

// c26IRQ: a timer overflow landing on every machine cycle of a frame must leave the timer request in IF.
type c26IRQ struct {
	From int `json:"from"`
	To   int `json:"to"`
	Step int `json:"step"`
}

func c26IRQCheck(c *Ctx) func(l *explore.Local, _ struct{}, cs c26IRQ) *explore.Fail {
	return func(l *explore.Local, _ struct{}, cs c26IRQ) *explore.Fail {
		// a guest that never touches IE/IF/timer: JR -2 at the entry point
		img := make([]byte, 0x8000)
		img[0x100], img[0x101] = 0x18, 0xfe
		rom := filepath.Join(c.Scratch, fmt.Sprintf("loop-%d.gb", cs.From))
		if err := os.WriteFile(rom, img, 0o644); err != nil {
			return explore.Failf("harness: cannot write ROM", "%v", err)
		}
		g := newGB(rom, false, false, false)
		os.Remove(rom)
		ctx := context.Background()
		g.frame(ctx)
		for k := cs.From; k < cs.To; k += cs.Step {
			// program the timer so that TIMA overflows exactly in machine cycle k (1-based) of the next frame:
			// TAC=04 (bit 9: one increment per 256 cycles), first falling edge after `first` cycles, n increments in total
			first := (k-1)%256 + 1
			n := (k-first)/256 + 1
			if first < 2 {
				continue
			}
			// let a reload that is still in flight from the previous position finish first
			g.parts.Mapper.Write(0xff07, 0x00)
			for i := 0; i < 4; i++ {
				g.parts.Timer.EndMachineCycle()
			}
			g.parts.Mapper.Write(0xff07, 0x04)
			g.parts.Mapper.Write(0xff06, 0x00)
			g.parts.Mapper.Write(0xff05, uint8(0x100-n))
			g.parts.Timer.VSetCounter(uint16((1024 - 4*first) % 1024))
			// the request is latched in IF whatever the master enable says (it alternates from position to position) and
			// whatever else is waiting: every third position another source (serial, then joypad) is enabled in IE and
			// already requested in IF, with the master enable clear so that nothing is dispatched
			ie, ifv := uint8(0x00), uint8(0x00)
			switch (k / cs.Step) % 6 {
			case 2:
				ie, ifv = 0x08, 0x08
			case 4:
				ie, ifv = 0x1b, 0x10
			}
			g.parts.Mapper.Write(0xffff, ie)
			g.parts.Mapper.Write(0xff0f, ifv)
			if (k/cs.Step)%2 == 0 {
				g.parts.Interrupts.Disable()
			} else {
				g.parts.Interrupts.Enable()
			}
			g.frame(ctx)
			l.Trans(1)
			if g.parts.Mapper.Read(0xff0f)&0x04 == 0 {
				return explore.Failf("a timer overflow during a frame does not raise the timer interrupt request", "overflow in machine cycle %d of the frame (master enable %v, IE=%02x, IF=%02x before the frame): IF=%02x TIMA=%02x afterwards", k, (k/cs.Step)%2 != 0, ie, ifv, g.parts.Mapper.Read(0xff0f), g.parts.Mapper.Read(0xff05))
			}
		}
		// an overflow that is not caused by a counting step: the timer is stopped (TAC bit 2 cleared) while the selected
		// divider bit is high and TIMA holds FF; the falling edge is one more increment, TIMA overflows, and the frame
		// that follows must deliver the request (and the reload) like any other overflow
		for _, tac := range []uint8{0x04, 0x05, 0x06, 0x07} {
			g.parts.Mapper.Write(0xff07, 0x00)
			for i := 0; i < 4; i++ {
				g.parts.Timer.EndMachineCycle()
			}
			bit := map[uint8]uint16{0x04: 0x200, 0x05: 0x008, 0x06: 0x020, 0x07: 0x080}[tac]
			g.parts.Timer.VSetCounter(bit)
			g.parts.Mapper.Write(0xff07, tac)
			g.parts.Mapper.Write(0xff06, 0x42)
			g.parts.Mapper.Write(0xff05, 0xff)
			g.parts.Mapper.Write(0xffff, 0x00)
			g.parts.Mapper.Write(0xff0f, 0x00)
			g.parts.Interrupts.Disable()
			g.parts.Timer.EndMachineCycle()        // one cycle of running with the selected bit high (it stays high: +4)
			g.parts.Mapper.Write(0xff07, tac&0x03) // stop
			g.frame(ctx)
			l.Trans(1)
			if g.parts.Mapper.Read(0xff0f)&0x04 == 0 || g.parts.Mapper.Read(0xff05) != 0x42 {
				return explore.Failf("a timer overflow during a frame does not raise the timer interrupt request", "TIMA=FF, TAC=%02x, selected divider bit high, then TAC=%02x (timer stopped: the falling edge overflows TIMA) just before the frame: IF=%02x TIMA=%02x afterwards (TMA=42)", tac, tac&3, g.parts.Mapper.Read(0xff0f), g.parts.Mapper.Read(0xff05))
			}
		}
		l.Eval(1)
		l.Outcome(uint64(cs.From))
		return nil
	}
}

// manualCtx is a context whose end the harness decides: expire() closes Done and makes Err report the given error
// (context.DeadlineExceeded for a context that ends by its deadline: also a cancelled context). No wall clock is
// involved. After it has ended it counts how often Run consults it and panics past 5 consultations (one per frame), so that a
// Run that never stops ends the case deterministically instead of hanging.
type manualCtx struct {
	mu        sync.Mutex
	done      chan struct{}
	err       error
	consulted int
}

func newManualCtx() *manualCtx { return &manualCtx{done: make(chan struct{})} }

func (m *manualCtx) expire(err error) {
	m.mu.Lock()
	defer m.mu.Unlock()
	if m.err == nil {
		m.err = err
		close(m.done)
	}
}

func (m *manualCtx) tick() {
	m.mu.Lock()
	defer m.mu.Unlock()
	if m.err != nil {
		m.consulted++
		if m.consulted > 5 {
			panic("c26: Run keeps consulting a context that has ended and does not stop")
		}
	}
}

func (m *manualCtx) Deadline() (time.Time, bool) { return time.Time{}, false }
func (m *manualCtx) Done() <-chan struct{}       { m.tick(); return m.done }
func (m *manualCtx) Err() error {
	m.tick()
	m.mu.Lock()
	defer m.mu.Unlock()
	return m.err
}
func (m *manualCtx) Value(any) any { return nil }

type c26Run struct {
	// Ctx: how the context ends. "" = context.WithCancel + cancel(); "deadline" = Err() reports DeadlineExceeded;
	// "child" = a context derived (WithValue) from one that is cancelled; "cause" = WithCancelCause
	Ctx   string `json:"ctx,omitempty"`
	ROM   string `json:"rom"`
	Mode  string `json:"mode"` // close | cancel | precancel
	N     int    `json:"n"`
	Audio bool   `json:"audio"`
	Video bool   `json:"video"`
}

func c26RunCheck(c *Ctx) func(l *explore.Local, _ struct{}, cs c26Run) *explore.Fail {
	return func(l *explore.Local, _ struct{}, cs c26Run) (fail *explore.Fail) {
		rom := filepath.Join(c.Repo, "gameboy/testdata", cs.ROM)
		g := newGB(rom, cs.Video, cs.Audio, true)
		ctx, cancel := context.WithCancel(context.Background())
		defer cancel()
		switch cs.Ctx {
		case "deadline":
			mc := newManualCtx()
			ctx, cancel = mc, func() { mc.expire(context.DeadlineExceeded) }
		case "child":
			ctx = context.WithValue(ctx, struct{}{}, 1)
		case "cause":
			c2, cc := context.WithCancelCause(context.Background())
			ctx, cancel = c2, func() { cc(fmt.Errorf("the front end is going away")) }
		}
		after := 0
		requested := false
		g.onFrame(func(n int, _ *image.RGBA) bool {
			if requested {
				after++
			}
			if after > 3 {
				panic("c26: Run keeps going after the stop request")
			}
			if n == cs.N && !requested {
				requested = true
				switch cs.Mode {
				case "close":
					return true
				case "cancel":
					cancel()
				}
			}
			return cs.Mode == "close" && requested
		})
		if cs.Mode == "precancel" {
			cancel()
			requested = true
		}
		desc := fmt.Sprintf("%s%s video=%v audio=%v n=%d", cs.Mode, map[bool]string{true: " ctx=" + cs.Ctx}[cs.Ctx != ""], cs.Video, cs.Audio, cs.N)
		defer func() {
			if p := recover(); p != nil {
				fail = explore.Failf("Run does not stop / panics on a stop request", "%s: %v", desc, p)
			}
		}()
		if !cs.Video && cs.Mode != "precancel" {
			return nil
		}
		g.gb.Run(ctx)
		if after > 1 {
			return explore.Failf("Run executes more than one further frame after a stop request", "%s: %d further frames", desc, after)
		}
		if cs.Mode == "precancel" && cs.Video && g.disp.Frames > 1 {
			return explore.Failf("Run executes more than one further frame after a stop request", "%s: %d frames although the context was cancelled before Run", desc, g.disp.Frames)
		}
		if cs.Video && g.disp.Cleanups != 1 {
			return explore.Failf("the display is not released exactly once when Run stops", "%s: Cleanup called %d times", desc, g.disp.Cleanups)
		}
		if cs.Audio && g.spk.Cleanups != 1 {
			return explore.Failf("the speakers are not released exactly once when Run stops", "%s: Cleanup called %d times", desc, g.spk.Cleanups)
		}
		l.Eval(1)
		l.OutcomeStr(desc)
		return nil
	}
}

// c26Long: the real runFrame, frame after frame, for longer than any 32-bit count of clock cycles lasts (2^32 clock
// cycles = 61,167 frames, 17 minutes of emulated time): every frame must advance the cartridge clock's sub-second count,
// the sound hardware's clock and the timer's divider by exactly what the first frame advanced them.
type c26Long struct {
	ROM    string `json:"rom"`
	Frames int    `json:"frames"`
}

func c26LongCheck(c *Ctx) func(l *explore.Local, _ struct{}, cs c26Long) *explore.Fail {
	return func(l *explore.Local, _ struct{}, cs c26Long) *explore.Fail {
		g := newGB(c26ROMPath(c, cs.ROM), false, false, true)
		ctx := context.Background()
		obs := func() [3]int64 {
			return [3]int64{int64(g.parts.Mapper.VRTCGet().Ticks), int64(g.parts.Audio.VGet().Ticks), int64(g.parts.Timer.VGet().Counter)}
		}
		mods := [3]int64{1048576, 4194304, 65536}
		var first [3]int64
		for f := 0; f < cs.Frames; f++ {
			a := obs()
			g.frame(ctx)
			b := obs()
			var d [3]int64
			for i := range d {
				d[i] = ((b[i]-a[i])%mods[i] + mods[i]) % mods[i]
			}
			if f == 0 {
				first = d
				if d[0] != 17556 || d[1] != 70224 || d[2] != 70224%65536 {
					return explore.Failf("a frame does not advance the hardware by 17,556 machine cycles", "%s frame 0: cartridge clock +%d, sound clock +%d, divider +%d", cs.ROM, d[0], d[1], d[2])
				}
			} else if d != first {
				return explore.Failf("a later frame advances the hardware differently from the first", "%s frame %d (%.1f minutes of emulated time): cartridge clock +%d, sound clock +%d, divider +%d; frame 0: %v", cs.ROM, f, float64(f)*17556/1048576/60, d[0], d[1], d[2], first)
			}
			l.Trans(1)
		}
		if strings.HasPrefix(cs.ROM, "synthetic:mbc3-clock") {
			// what the GUEST saw of the cartridge clock (it sends every new value of the latched seconds register to the
			// serial port): one value per 1,048,576 machine cycles, counting up from 00 — the hook above reads the clock
			// the frame loop steps, the guest reads the clock the cartridge answers with; they must be the same clock
			total := int64(cs.Frames) * 17556
			n := int(total / 1048576)
			got := g.serial.Bytes()
			okLen := len(got) == n+1 || (len(got) == n && total%1048576 < 300)
			for i, b := range got {
				if int(b) != i%60 {
					okLen = false
				}
			}
			if !okLen {
				return explore.Failf("the cartridge clock the guest reads does not advance with the frames", "%s: after %d frames (%d machine cycles = %.2f s) the guest has seen the seconds values % x, expected 00..%02x", cs.ROM, cs.Frames, total, float64(total)/1048576, tail(string(got), 12), n%60)
			}
		}
		l.Eval(1)
		l.Outcome(uint64(cs.Frames))
		return nil
	}
}

func init() {
	c26Synthetic["synthetic:mbc3-clock-0f"] = append([]byte(nil), c24ClockROM...)
	c26Synthetic["synthetic:mbc3-clock-0f"][0x147] = 0x0f
	c26Synthetic["synthetic:mbc3-clock-0f"][0x149] = 0x00
}

func init() {
	register("C26", "model_checking", func(c *Ctx) {
		if c.R != nil {
			c.R.Rule = "(a) twin emulators built by the real gameboy.New from the same ROM are brought to the same state; one runs the real runFrame, the other the documented loop (17,556 x CPU; video; memory; audio; timer -> IF) on its own components; after every frame registers, all writable memory, ROM-window probes, frame pixels, drained samples (count and values), serial bytes, RTC and APU generator state must be identical, the RTC sub-second count must have advanced by exactly 17,556 and the APU clock by 70,224, and the stub display must have received exactly one frame; (b) Run: the display asks to close at frame n / the context is cancelled inside frame n / before Run (by its cancel function, by its deadline, through its parent, with a cause), n in 0..4, with video and audio attached or not: at most one further frame, Run returns, display and speakers are each released exactly once, no panic (send on a closed channel); (c) a timer overflow placed in every machine cycle of a frame must leave the timer request in IF after runFrame"
			c.R.Assumptions = []string{"the stub display / speakers replace the GL / PortAudio front end (same exported API)", "with no display attached Run can only be stopped through its context; that case is exercised with a context cancelled beforehand"}
		}
		roms := []string{"blargg/instr_timing/instr_timing.gb", "blargg/cpu_instrs/individual/02-interrupts.gb", "blargg/dmg_sound/rom_singles/03-trigger.gb",
			"blargg/oam_bug/rom_singles/2-causes.gb", "mts-20221022-1430-8d742b9/acceptance/oam_dma_timing.gb", "rtc3test/rtc3test.gb",
			"mts-20221022-1430-8d742b9/acceptance/timer/rapid_toggle.gb", "blargg/mem_timing/mem_timing.gb", "blargg/halt_bug.gb",
			"synthetic:stop", "synthetic:halt-forever", "synthetic:lcd-and-sound-off", "synthetic:rtc-halted-dma"}
		befores := []int{0, 1, 2, 7}
		if c.Thorough() {
			befores = []int{0, 1, 2, 7, 30, 120}
		}
		explore.Product(c.R, "runframe-vs-documented-loop", explore.PartOpt{Bound: "3 frames compared after each start point", Domain: fmt.Sprintf("%d ROMs x start after %v frames x audio/video attached or not", len(roms), befores)},
			func(yield func(c26Twin) bool) {
				for _, r := range roms {
					for _, b := range befores {
						for _, av := range [][2]bool{{true, true}, {false, false}, {true, false}} {
							if !yield(c26Twin{ROM: r, Before: b, Audio: av[0], Video: av[1], Frames: 3}) {
								return
							}
						}
					}
				}
			}, func() struct{} { return struct{}{} }, c26TwinCheck(c))
		step := 5
		if c.Thorough() {
			step = 1
		}
		explore.Product(c.R, "timer-overflow-at-every-cycle-of-a-frame", explore.PartOpt{Bound: "one frame per position", Domain: fmt.Sprintf("overflow placed in machine cycle k of the frame, k = 2..17556 step %d plus the last 300 cycles completely", step)},
			func(yield func(c26IRQ) bool) {
				for from := 2; from <= 17556; from += 585 {
					to := from + 585
					if to > 17557 {
						to = 17557
					}
					if !yield(c26IRQ{from, to, step}) {
						return
					}
				}
				yield(c26IRQ{17556 - 300, 17557, 1})
			}, func() struct{} { return struct{}{} }, c26IRQCheck(c))
		long := 300
		if c.Thorough() {
			long = 62_000
		}
		explore.Product(c.R, "long-run", explore.PartOpt{Bound: fmt.Sprintf("%d frames of the real runFrame, every frame measured (thorough: past 2^32 clock cycles)", long), Domain: "synthetic guest with LCD and sound off (ROM only), and the MBC3 guests (cartridge types 10 and 0F) that poll the cartridge clock and report every new second they see"},
			func(yield func(c26Long) bool) {
				for _, r := range []string{"synthetic:lcd-and-sound-off", "synthetic:mbc3-clock", "synthetic:mbc3-clock-0f"} {
					if !yield(c26Long{ROM: r, Frames: long}) {
						return
					}
				}
			}, func() struct{} { return struct{}{} }, c26LongCheck(c))
		explore.Product(c.R, "run-stops-on-request", explore.PartOpt{Workers: 4, Bound: "n in 0..4", Domain: "close / cancel inside a frame / cancelled before Run x video x audio x 4 kinds of context (cancel function; ended by its deadline, Err = DeadlineExceeded; derived from a cancelled context; cancelled with a cause)"},
			func(yield func(c26Run) bool) {
				for _, kind := range []string{"", "deadline", "child", "cause"} {
					for _, mode := range []string{"close", "cancel", "precancel"} {
						for n := 0; n <= 4; n++ {
							for _, video := range []bool{true, false} {
								for _, audio := range []bool{true, false} {
									if mode == "precancel" && n > 0 || mode == "close" && kind != "" {
										continue
									}
									if !yield(c26Run{Ctx: kind, ROM: "blargg/halt_bug.gb", Mode: mode, N: n, Audio: audio, Video: video}) {
										return
									}
								}
							}
						}
					}
				}
			}, func() struct{} { return struct{}{} }, c26RunCheck(c))
	})
}
