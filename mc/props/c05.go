package props

import (
	"verifmc/explore"
	"verifmc/ref"
)

// C05 — HALT and the halt bug, in the same lock-step runner as C04.

type c05Block struct {
	Follower int      `json:"follower"` // 0-255 base opcode, 256-511 CB-prefixed
	IME      bool     `json:"ime"`
	One      *ctlCase `json:"one,omitempty"`
	MaxIdle  int      `json:"max_idle"`
}

var c05IEIF = [][2]uint8{{0x00, 0x00}, {0x1f, 0x00}, {0x04, 0x00}, {0x04, 0x04}, {0x1f, 0x05}, {0x01, 0x1e}, {0x10, 0x10}, {0x1f, 0x1f},
	{0xe0, 0x00}, {0xe4, 0x00}, {0xff, 0x00}, {0x24, 0x1b}, {0xe4, 0x04}} // the unused IE bits 5-7 are plain storage: they enable nothing

func c05Check(l *explore.Local, e *cpuEnv, b c05Block) *explore.Fail {
	if b.One != nil {
		return e.runControl(l, *b.One)
	}
	code := []uint8{0x76}
	if b.Follower >= 256 {
		code = append(code, 0xcb, uint8(b.Follower-256))
	} else {
		code = append(code, uint8(b.Follower))
		switch ref.OperandBytes(uint8(b.Follower)) {
		case 1:
			code = append(code, 0x10)
		case 2:
			code = append(code, 0x80, 0xc2)
		}
	}
	for _, ii := range c05IEIF {
		pendingAtHalt := ii[0]&ii[1]&0x1f != 0
		if !b.IME && pendingAtHalt && b.Follower >= 256 {
			continue // halt bug with a CB-prefixed follower: "executed twice" does not determine the outcome
		}
		base := ctlCase{Code: code, IME: b.IME, IE: ii[0], IF: ii[1], Cycles: 14 + b.MaxIdle, A: 0x04}
		try := func(c ctlCase) *explore.Fail {
			if f := e.runControl(l, c); f != nil {
				cc := c
				f.Case = c05Block{Follower: b.Follower, One: &cc}
				return f
			}
			return nil
		}
		if f := try(base); f != nil {
			return f
		}
		for k := 0; k < 5; k++ {
			for j := 0; j <= b.MaxIdle+1; j++ {
				c := base
				c.Inj = [][2]int{{j, k}}
				if f := try(c); f != nil {
					return f
				}
			}
		}
		// a key press reported by the front end (cpu.OnInput) before every cycle: alone, and followed by a request
		for j := 0; j <= b.MaxIdle+1; j++ {
			c := base
			c.Input = []int{j}
			if f := try(c); f != nil {
				return f
			}
			c.Inj = [][2]int{{b.MaxIdle + 2, 2}}
			if f := try(c); f != nil {
				return f
			}
		}
	}
	return nil
}

func init() {
	register("C05", "model_checking", func(c *Ctx) {
		if c.R != nil {
			c.R.Rule = "HALT followed by every opcode (245 base with operand bytes + 256 CB-prefixed) x IME x 13 (IE, IF) combinations (nothing pending, pending-enabled, pending-not-enabled, several, IE with its unused bits 5-7 set) x one interrupt request of every source raised before every machine cycle up to the idle bound (and none), and a key press reported by the front end (cpu.OnInput) before every such cycle, alone and followed by a request; lock-step with the reference control machine: while idle nothing may change (checked every cycle), IME=1 wake-up dispatches in 6 cycles, IME=0 wake-up resumes at the following instruction without touching IF, pending-at-HALT with IME=0 executes the following byte twice"
			c.R.Assumptions = []string{"wake-up latency with IME=0 is not fixed by the statement (0-4 cycles accepted)", "halt bug with a CB-prefixed follower is unspecified (skipped)", "a request arriving during a dispatch is unspecified (pruned)"}
		}
		idle := 8
		if c.Thorough() {
			idle = 32
		}
		c05CBPart(c)
		explore.Product(c.R, "halt-followers", explore.PartOpt{Bound: "idle lengths 0.." + itoa(idle) + " cycles", Domain: "every follower opcode x IME x 13 IE/IF combinations x 5 sources"},
			func(yield func(c05Block) bool) {
				for op := 0; op < 512; op++ {
					if op < 256 && (ref.UndefinedOpcodes[uint8(op)] || op == 0xcb) {
						continue
					}
					for _, ime := range []bool{false, true} {
						if !yield(c05Block{Follower: op, IME: ime, MaxIdle: idle}) {
							return
						}
					}
				}
			}, newCPUEnv, c05Check)
		// the same machine built with the CPU's instruction trace on (Config.DebugCPU): a legal configuration
		quietStdout(func() {
			explore.Product(c.R, "halt-followers-with-cpu-trace", explore.PartOpt{Bound: "idle lengths 0..4 cycles", Domain: "16 follower opcodes x IME x 13 IE/IF combinations x 5 sources, CPU built with DebugCPU"},
				func(yield func(c05Block) bool) {
					for _, op := range []int{0x00, 0x3c, 0x04, 0x76, 0xfb, 0xf3, 0x18, 0xc3, 0xcd, 0xc9, 0x34, 0xe0, 0x256 + 0x40 - 0x56, 0x100 + 0xc6, 0x100 + 0x37, 0x3e} {
						for _, ime := range []bool{false, true} {
							if !yield(c05Block{Follower: op, IME: ime, MaxIdle: 4}) {
								return
							}
						}
					}
				}, newCPUEnvTrace, c05Check)
		})
	})
}
