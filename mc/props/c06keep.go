package props

import (
	"fmt"

	"verifmc/explore"
	"verifmc/machine"
)

// C06, "reads back the bits last written" with time passing in between: the registers that only the guest writes
// (scroll, window position, LYC, the three palettes, TMA, IE, the sound unit's volume and routing registers, LCDC with
// the LCD left on) must still read what was written after the hardware has run — with the LCD on, the window and
// objects enabled and objects on screen, so that the renderer, the OAM scan, the comparator and the timer all do their
// work in between. (LY, STAT's mode bits, DIV, TIMA and IF are the hardware's to change and are not part of this.)

type c06Keep struct {
	Reg  uint16 `json:"reg"`
	LCDC uint8  `json:"lcdc"`
	V    int    `json:"v"` // -1: all 256 values
	// Frame: a whole frame passes instead of two scan lines (a few values only)
	Frame bool `json:"frame,omitempty"`
}

var c06KeepRegs = []uint16{0xff42, 0xff43, 0xff45, 0xff47, 0xff48, 0xff49, 0xff4a, 0xff4b, 0xff06, 0xffff, 0xff24, 0xff25}

func c06KeepCheck(l *explore.Local, _ struct{}, c c06Keep) *explore.Fail {
	m := machine.New(machine.ROMOnly(), machine.Opts{})
	// tiles, a window map and ten objects on lines 0-15, LCD off while they are written
	m.Map.Write(0xff40, 0x11)
	for i := 0; i < 0x400; i++ {
		m.Map.Write(0x8000+uint16(i), uint8(i*7+3))
	}
	for i := 0; i < 40; i++ {
		m.Map.Write(0xfe00+uint16(i), [4]uint8{uint8(16 + i/4), uint8(8 + 2*i), uint8(i / 4), 0x10}[i%4])
	}
	m.Map.Write(0xff45, 0x02)
	m.Map.Write(0xff4a, 0x00)
	m.Map.Write(0xff4b, 0x07)
	m.Map.Write(0xff07, 0x05)
	m.Map.Write(0xff40, c.LCDC)
	for i := 0; i < 130; i++ {
		m.Hardware()
	}
	vals := []int{c.V}
	if c.V < 0 {
		vals = vals[:0]
		for v := 0; v < 256; v++ {
			vals = append(vals, v)
		}
	}
	wait := 2 * 114
	if c.Frame {
		wait = 17556 + 57
	}
	ones := uint8(0)
	for _, v := range vals {
		others := map[uint16]uint8{}
		for _, r := range c06KeepRegs {
			if r != c.Reg {
				others[r] = m.Map.Read(r)
			}
		}
		m.Map.Write(c.Reg, uint8(v))
		for i := 0; i < wait; i++ {
			m.Hardware()
		}
		l.Trans(1)
		if got := m.Map.Read(c.Reg); got != uint8(v)|ones {
			return explore.Failf("a register does not read back the bits last written after time has passed",
				"LCDC=%02x (window at 7,0, ten objects on lines 0-15, LY=LYC on line 2, timer running): %04x written with %02x reads %02x after %d machine cycles", c.LCDC, c.Reg, v, got, wait)
		}
		for r, before := range others {
			if got := m.Map.Read(r); got != before {
				return explore.Failf("a register does not read back the bits last written after time has passed",
					"LCDC=%02x: %04x read %02x, and reads %02x after %d machine cycles in which only %04x was written (with %02x)", c.LCDC, r, before, got, wait, c.Reg, v)
			}
		}
	}
	l.Eval(len(vals))
	l.Outcome(uint64(c.Reg)<<8 | uint64(c.LCDC))
	return nil
}

func c06KeepPart(c *Ctx) {
	explore.Product(c.R, "read-back-after-time", explore.PartOpt{
		Bound:  "two scan lines (228 machine cycles) of the whole hardware between write and read, a whole frame for 4 values",
		Domain: fmt.Sprintf("%d guest-only registers x all 256 values x LCDC {91, B3, F3, E7} (background only; window and objects; both maps high; 8x16 objects)", len(c06KeepRegs))},
		func(yield func(c06Keep) bool) {
			for _, lcdc := range []uint8{0x91, 0xb3, 0xf3, 0xe7} {
				for _, r := range c06KeepRegs {
					if !yield(c06Keep{Reg: r, LCDC: lcdc, V: -1}) {
						return
					}
					for _, v := range []int{0x00, 0x03, 0xa5, 0xff} {
						if !yield(c06Keep{Reg: r, LCDC: lcdc, V: v, Frame: true}) {
							return
						}
					}
				}
			}
		}, func() struct{} { return struct{}{} }, c06KeepCheck)
}
