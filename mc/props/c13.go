package props

import (
	"fmt"

	"verifmc/explore"
	"verifmc/machine"
)

// C13 — LCD line/mode timing; C14 — VBlank/STAT requests. Observation through the Mapper
// (LY, STAT, IF) after every machine cycle of the real PPU; a phase-agnostic reference
// monitor (DESIGN.md A.3) follows the line structure from the observed LY changes.

type lineMon struct {
	on       bool
	ly       int
	o        int  // cycles since the line started
	first    bool // first line after switching on
	firstLag int  // calibrated: the first line's boundaries may sit one cycle later (the instant of switching on counts as o=0)
	total    int
}

func (lm *lineMon) switchOn() { *lm = lineMon{on: true, first: true} }

// expectMode returns the permitted STAT modes at offset o of the current line.
func (lm *lineMon) modes() []uint8 {
	if lm.ly >= 144 {
		return []uint8{1}
	}
	b2, b3 := 20, 61
	o := lm.o
	if lm.first {
		// relative to the instant of switching on, each boundary may be observed one cycle later
		switch {
		case o < b2:
			return []uint8{2}
		case o == b2:
			return []uint8{2, 3}
		case o < b3:
			return []uint8{3}
		case o == b3:
			return []uint8{3, 0}
		}
		return []uint8{0}
	}
	switch {
	case o < b2:
		return []uint8{2}
	case o < b3:
		return []uint8{3}
	}
	return []uint8{0}
}

// step consumes the observation after one machine cycle. It returns a failure text or "".
func (lm *lineMon) step(ly, mode uint8) (newLine bool, msg string) {
	lm.total++
	lm.o++
	if int(ly) != lm.ly {
		want := (lm.ly + 1) % 154
		if int(ly) != want {
			return false, fmt.Sprintf("LY jumps from %d to %d", lm.ly, ly)
		}
		okLen := lm.o == 114
		if lm.first {
			okLen = lm.o == 112 || lm.o == 113
		}
		if !okLen {
			return false, fmt.Sprintf("line %d lasted %d machine cycles (first line after switching on: %v)", lm.ly, lm.o, lm.first)
		}
		lm.ly, lm.o, lm.first = int(ly), 0, false
		newLine = true
	} else if (!lm.first && lm.o >= 114) || (lm.first && lm.o > 113) {
		return false, fmt.Sprintf("line %d lasts longer than %d machine cycles", lm.ly, lm.o)
	}
	for _, m := range lm.modes() {
		if m == mode {
			return newLine, ""
		}
	}
	return newLine, fmt.Sprintf("line %d, %d cycles into the line: STAT mode %d, documented %v", lm.ly, lm.o, mode, lm.modes())
}

type ppuSnap struct {
	m *machine.M
}

func obs(m *machine.M) (ly, mode uint8) {
	return m.Map.Read(0xff44), m.Map.Read(0xff41) & 3
}

// ---- C13 ---------------------------------------------------------------------------------

type c13Case struct {
	Kind  string `json:"kind"` // free | offon
	From  int    `json:"from"` // first position (cycles since switching on) of the block
	To    int    `json:"to"`
	OffK  []int  `json:"off_k,omitempty"`
	After int    `json:"after,omitempty"`
	Pos   int    `json:"pos,omitempty"` // replay: single position / off length
	K     int    `json:"k,omitempty"`
	OAM   int    `json:"oam,omitempty"` // object configuration (see c13Fresh)
	Debug bool   `json:"debug_lcd,omitempty"`
}

// register writes that must leave the line/mode schedule alone (LCDC values get bit 7 forced on)
var c13Writes = [][2]uint16{{0xff44, 0x00}, {0xff44, 0x5a}, {0xff44, 0x90}, {0xff41, 0x00}, {0xff41, 0x78}, {0xff41, 0xff}, {0xff45, 0x00}, {0xff45, 0x05},
	{0xff40, 0x00}, {0xff40, 0x7f}, {0xff40, 0x11}, {0xff42, 0xff}, {0xff43, 0xff}, {0xff4a, 0x00}, {0xff4b, 0x07}, {0xff47, 0x00}, {0xff48, 0x00}, {0xff0f, 0x00}, {0xff46, 0xc0}}

// c13Fresh returns a machine whose LCD has just been switched on. oam = 0: the power-on state itself (empty OAM);
// 1: ten objects on lines 50-57 and objects enabled; 2: all forty objects on lines 50-57 (more than the hardware
// can show; the line/mode schedule and the requests must not care); 3: forty objects on lines 0-7 (the first line
// after switching on included).
func c13Fresh(oam ...int) (*machine.M, *lineMon) {
	o := 0
	if len(oam) > 0 {
		o = oam[0]
	}
	return c13FreshOpt(o, false)
}

// c13FreshOpt: debug = the PPU is built with the LCD debugging option (Config.DebugLCD: a 256x256 picture of the
// whole background map); line timing, modes and requests are those of the hardware whatever picture is produced.
func c13FreshOpt(o int, debug bool) (*machine.M, *lineMon) {
	oam := []int{o}
	m := machine.New(machine.ROMOnly(), machine.Opts{DebugLCD: debug})
	// power-on state: LCD already on at position 0 of its first frame
	lm := &lineMon{}
	lm.switchOn()
	if len(oam) > 0 && oam[0] > 0 {
		for m.Map.Read(0xff41)&3 == 2 {
			m.P.EndMachineCycle()
		}
		m.Map.Write(0xff40, 0x11)
		n, y := 10, uint8(66)
		if oam[0] >= 2 {
			n = 40
		}
		if oam[0] == 3 {
			y = 16
		}
		for i := 0; i < n; i++ {
			for k, v := range [4]uint8{y, uint8(8 + 4*i), uint8(i), 0} {
				m.Map.Write(0xfe00+uint16(4*i+k), v)
			}
		}
		m.Map.Write(0xff0f, 0)
		m.Map.Write(0xff40, 0x93)
		lm.switchOn()
	}
	return m, lm
}

func c13Check(l *explore.Local, _ struct{}, c c13Case) *explore.Fail {
	m, lm := c13FreshOpt(c.OAM, c.Debug)
	if ly, mode := obs(m); ly != 0 || mode != 2 {
		return explore.Failf("after switching on the sequence does not restart at line 0 in mode 2", "power-on: LY=%d mode=%d", ly, mode)
	}
	tick := func(lm *lineMon, ctx string) *explore.Fail {
		m.P.EndMachineCycle()
		ly, mode := obs(m)
		l.Trans(1)
		if _, msg := lm.step(ly, mode); msg != "" {
			return explore.Failf("LCD line/mode schedule violated ("+ctx+")", "%s [after %d cycles since the LCD was switched on]", msg, lm.total)
		}
		return nil
	}
	for p := 0; p < c.To; p++ {
		if c.Kind == "write" && p >= c.From && (c.Pos == 0 || p == c.Pos) {
			// a register write lands after p cycles: the line/mode schedule must not notice
			for wi, w := range c13Writes {
				if c.Pos > 0 && wi != c.K {
					continue
				}
				sp, so, si, st := *m.P, *m.OAM, *m.I, *m.T
				slm := *lm
				fail := func(f *explore.Fail) *explore.Fail {
					f.Case = c13Case{Kind: "write", From: p, To: p + 1, Pos: p, K: wi, After: c.After, OAM: c.OAM, Debug: c.Debug}
					f.Msg += fmt.Sprintf(" [%04x<-%02x written %d cycles after power-on]", w[0], w[1], p)
					return f
				}
				v := uint8(w[1])
				if w[0] == 0xff40 {
					v |= 0x80 // the LCD stays on
				}
				// LY and STAT are observed after each machine cycle (as the statement says), not between the
				// write and the end of its cycle: a guest cannot read in the same cycle it writes
				m.Map.Write(w[0], v)
				lm2 := *lm
				for i := 0; i < c.After; i++ {
					if f := tick(&lm2, "after a register write"); f != nil {
						return fail(f)
					}
				}
				*m.P, *m.OAM, *m.I, *m.T = sp, so, si, st
				*lm = slm
				l.Eval(1)
			}
		}
		if c.Kind == "offon" && p >= c.From {
			ks := c.OffK
			if c.Pos > 0 || c.K > 0 {
				ks = []int{c.K}
			}
			if c.Pos > 0 && p != c.Pos {
				goto next
			}
			for _, k := range ks {
				sp, so, si, st := *m.P, *m.OAM, *m.I, *m.T
				slm := *lm
				fail := func(f *explore.Fail) *explore.Fail {
					f.Case = c13Case{Kind: "offon", From: p, To: p + 1, Pos: p, K: k, After: c.After, OAM: c.OAM, Debug: c.Debug}
					f.Msg += fmt.Sprintf(" [LCD switched off %d cycles after power-on for %d cycles]", p, k)
					return f
				}
				lcdc := m.Map.Read(0xff40)
				// any value with bit 7 clear switches the LCD off: the other seven bits take turns
				offVal := []uint8{lcdc & 0x7f, 0x7f, 0x40, 0x01, 0x00, 0x53}[(p+k)%6]
				m.Map.Write(0xff40, offVal)
				for i := 0; i <= k; i++ {
					if ly, mode := obs(m); ly != 0 || mode != 0 {
						return fail(explore.Failf("LCD off: LY/mode not 0", "%d cycles after switching off: LY=%d mode=%d", i, ly, mode))
					}
					if i == k/2 && k > 0 {
						// the guest writes video registers while the LCD is off (LY is read-only; STAT's low bits too): LY and
						// the mode keep reading 0
						for _, w := range [][2]uint16{{0xff44, 0x90}, {0xff41, 0xff}, {0xff45, 0x00}, {0xff44, 0x05}} {
							m.Map.Write(w[0], uint8(w[1]))
							if ly, mode := obs(m); ly != 0 || mode != 0 {
								return fail(explore.Failf("LCD off: LY/mode not 0", "%d cycles after switching off, after %04x<-%02x: LY=%d mode=%d", i, w[0], w[1], ly, mode))
							}
						}
					}
					if i < k {
						m.P.EndMachineCycle()
					}
				}
				m.Map.Write(0xff40, lcdc|0x80)
				if ly, mode := obs(m); ly != 0 || mode != 2 {
					return fail(explore.Failf("after switching on the sequence does not restart at line 0 in mode 2", "LY=%d mode=%d right after LCDC bit 7 was set", ly, mode))
				}
				lm2 := &lineMon{}
				lm2.switchOn()
				for i := 0; i < c.After; i++ {
					if f := tick(lm2, "after off/on"); f != nil {
						return fail(f)
					}
				}
				*m.P, *m.OAM, *m.I, *m.T = sp, so, si, st
				*lm = slm
				l.Eval(1)
			}
		}
	next:
		if f := tick(lm, "free running"); f != nil {
			return f
		}
	}
	l.Outcome(uint64(lm.ly)<<16 | uint64(lm.o) | uint64(c.From)<<32)
	l.Eval(1)
	return nil
}

// ---- C14 ---------------------------------------------------------------------------------

type c14Case struct {
	Source string `json:"source"` // none hblank vblank oam lyc
	LYC    int    `json:"lyc"`
	Frames int    `json:"frames"`
	// off/on schedule: switch off at OffAt (cycles since start; -1 none) for OffLen cycles
	OffAt  int `json:"off_at"`
	OffLen int `json:"off_len"`
	// enumeration form: every position in [OffFrom, OffTo) with step OffStep is tried from a snapshot (OffAt = -2)
	OffFrom int `json:"off_from,omitempty"`
	OffTo   int `json:"off_to,omitempty"`
	OffStep int `json:"off_step,omitempty"`
	// Write > 0: instead of switching the LCD off, register write number Write-1 of c14Writes is made at OffAt
	// (enumeration form: every write at every position); requests must stay exactly where they belong
	Write int  `json:"write,omitempty"`
	OAM   int  `json:"oam,omitempty"` // object configuration (see c13Fresh)
	Debug bool `json:"debug_lcd,omitempty"`
	// Junk: STAT is written with bit 7 and the read-only bits 0-2 set as well (what a read-modify-write of STAT stores);
	// only bits 3-6 select sources
	Junk bool `json:"junk_bits,omitempty"`
	// Timer: the whole hardware is stepped (not only the PPU) with the timer running fast (TAC=05, TMA=F0): timer
	// overflows request the timer interrupt only; VBlank and STAT requests stay exactly where they belong
	Timer bool `json:"timer,omitempty"`
	// Irq: 0 = master enable set, IE = 00 (the state after start-up); 1 = master enable clear, IE = 1F; 2 = master
	// enable set, IE = 1F. Requests are latched in IF whatever IME and IE say (only the PPU is stepped: nothing dispatches)
	Irq int `json:"irq,omitempty"`
}

func (c c14Case) irqSetup(m *machine.M) {
	if c.Timer {
		m.Map.Write(0xff06, 0xf0)
		m.Map.Write(0xff05, 0xf0)
		m.Map.Write(0xff07, 0x05)
	}
	if c.Irq == 1 {
		m.I.Disable()
	}
	if c.Irq > 0 {
		m.Map.Write(0xffff, 0x1f)
	}
}

func (c c14Case) statValue() uint8 {
	if c.Junk {
		return statBit[c.Source] | 0x87
	}
	return statBit[c.Source]
}

// register writes that must not move, add or remove a VBlank/STAT request (LCDC values keep bit 7)
var c14Writes = [][2]uint16{{0xff44, 0x00}, {0xff44, 0x90}, {0xff40, 0x80}, {0xff40, 0xff}, {0xff42, 0x55}, {0xff43, 0x55}, {0xff4a, 0x00}, {0xff4b, 0x07},
	{0xff47, 0x1b}, {0xff48, 0x1b}, {0xff46, 0xc0},
	{0xff45, 0x100}, // LYC rewritten with the value it already holds (LYC stays constant)
	{0xff41, 0x100}} // STAT rewritten with the source selection it already holds

var statBit = map[string]uint8{"none": 0, "hblank": 0x08, "vblank": 0x10, "oam": 0x20, "lyc": 0x40}

func c14Check(l *explore.Local, _ struct{}, c c14Case) *explore.Fail {
	if c.OffAt == -2 {
		// run once to OffFrom, then try every position from a snapshot of (PPU, OAM, interrupts)
		m, lm := c13FreshOpt(c.OAM, c.Debug)
		c.irqSetup(m)
		m.Map.Write(0xff45, uint8(c.LYC))
		m.Map.Write(0xff41, c.statValue())
		m.Map.Write(0xff0f, 0)
		t := 0
		for ; t < c.OffFrom; t++ {
			m.P.EndMachineCycle()
			ly, mode := obs(m)
			lm.step(ly, mode)
		}
		m.Map.Write(0xff0f, 0)
		for ; t < c.OffTo; t += c.OffStep {
			if c.Write != 0 {
				for wi := range c14Writes {
					sp, so, si := *m.P, *m.OAM, *m.I
					slm := *lm
					one := c
					one.OffAt, one.Write = t, wi+1
					f := c14Run(l, m, lm, one, t)
					*m.P, *m.OAM, *m.I = sp, so, si
					*lm = slm
					if f != nil {
						one.OffFrom, one.OffTo, one.OffStep = 0, 0, 0
						f.Case = one
						return f
					}
				}
			}
			for _, ln := range []int{1, 300} {
				if c.Write != 0 {
					break
				}
				sp, so, si := *m.P, *m.OAM, *m.I
				slm := *lm
				one := c
				one.OffAt, one.OffLen = t, ln
				f := c14Run(l, m, lm, one, t)
				*m.P, *m.OAM, *m.I = sp, so, si
				*lm = slm
				if f != nil {
					one.OffFrom, one.OffTo, one.OffStep = 0, 0, 0
					f.Case = one
					return f
				}
			}
			for i := 0; i < c.OffStep; i++ {
				m.P.EndMachineCycle()
				ly, mode := obs(m)
				lm.step(ly, mode)
				m.Map.Write(0xff0f, 0)
			}
		}
		return nil
	}
	m, lm := c13FreshOpt(c.OAM, c.Debug)
	c.irqSetup(m)
	m.Map.Write(0xff45, uint8(c.LYC))
	m.Map.Write(0xff41, c.statValue())
	m.Map.Write(0xff0f, 0)
	return c14Run(l, m, lm, c, 0)
}

// c14Run monitors from cycle t0 (the machine and monitor are already there).
func c14Run(l *explore.Local, m *machine.M, lm *lineMon, c c14Case, t0 int) *explore.Fail {
	prevMode := m.Map.Read(0xff41) & 3
	justOn := t0 == 0 // the cycle right after switching on is not a line *transition*: requests there are not judged
	total := c.Frames * 17556
	if c.OffAt >= 0 {
		total = c.OffAt + 17556 + 600
		if c.OffLen == 1 || (c.Frames < 3 && c.OffAt%8 != 0) {
			total = c.OffAt + c.OffLen + 400 // quick tier: the full frame after switching on is followed from every 8th position
		}
	}
	if c.Write != 0 {
		total = c.OffAt + 240 // the rest of the line and the next two line starts
		if c.Frames >= 3 {
			total = c.OffAt + 17556 + 300
		}
	}
	vbl, st := 0, 0
	broken := false
	// extended: the schedule broke after an unrelated register write (C13 reports that); the run is then extended by
	// exactly two frame lengths, which must contain exactly two VBlank requests whatever the phase
	extended, vblExt := false, 0
	for t := t0; t < total; t++ {
		if t == c.OffAt && c.Write != 0 {
			w := c14Writes[c.Write-1]
			if w[1] == 0x100 {
				w[1] = uint16(c.LYC)
				if w[0] == 0xff41 {
					w[1] = uint16(statBit[c.Source])
				}
			}
			m.Map.Write(w[0], uint8(w[1]))
			if f := m.Map.Read(0xff0f) & 3; f != 0 {
				return explore.Failf("interrupt requested by an unrelated register write", "source %s LYC=%d: IF=%02x right after %04x<-%02x at cycle %d", c.Source, c.LYC, f, w[0], w[1], c.OffAt)
			}
		} else if t == c.OffAt {
			lcdc := m.Map.Read(0xff40)
			m.Map.Write(0xff0f, 0)
			// any value with bit 7 clear switches the LCD off
			m.Map.Write(0xff40, []uint8{lcdc & 0x7f, 0x7f, 0x40, 0x01, 0x00, 0x53}[(c.OffAt+c.OffLen)%6])
			if f := m.Map.Read(0xff0f) & 3; f != 0 {
				return explore.Failf("interrupt requested by switching the LCD off", "source %s LYC=%d: IF=%02x right after LCDC bit 7 was cleared at cycle %d", c.Source, c.LYC, f, c.OffAt)
			}
			for i := 0; i < c.OffLen; i++ {
				m.Hardware()
				if f := m.Map.Read(0xff0f) & 3; f != 0 {
					return explore.Failf("interrupt requested while the LCD is off", "source %s LYC=%d: IF=%02x %d cycles after switching off (off at %d)", c.Source, c.LYC, f, i+1, c.OffAt)
				}
			}
			m.Map.Write(0xff40, lcdc|0x80)
			if f := m.Map.Read(0xff0f) & 3; f != 0 && c.Source != "lyc" && c.Source != "oam" {
				return explore.Failf("interrupt requested by switching the LCD on", "source %s: IF=%02x", c.Source, f)
			}
			m.Map.Write(0xff0f, 0)
			lm.switchOn()
			prevMode, justOn = 2, true
		}
		if c.Timer {
			m.Hardware() // PPU, DMA / cartridge clock, sound, timer -> IF: only IF bits 0 and 1 are looked at below
		} else {
			m.P.EndMachineCycle() // only the PPU is stepped: VBlank/STAT requests come from nowhere else
		}
		ly, mode := obs(m)
		iff := m.Map.Read(0xff0f) & 3
		m.Map.Write(0xff0f, 0)
		l.Trans(1)
		newLine, msg := lm.step(ly, mode)
		if msg != "" || broken {
			// the line/mode schedule itself is C13's business; without it only the count per frame can be judged
			if !broken && c.Write != 0 && t >= c.OffAt {
				extended = true
				total = t + 1 + 2*17556
			} else if extended && iff&1 != 0 {
				vblExt++
			}
			broken = true
			if iff&1 != 0 {
				vbl++
			}
			continue
		}
		wantV := newLine && ly == 144
		wantS, dontCare := false, false
		switch c.Source {
		case "hblank":
			wantS = mode == 0 && prevMode != 0 && ly < 144
		case "vblank":
			wantS = wantV
		case "oam":
			wantS = newLine && ly < 144
			dontCare = newLine && ly == 144
		case "lyc":
			wantS = newLine && int(ly) == c.LYC
		}
		if justOn {
			dontCare = true
			wantV = iff&1 != 0 && false
		}
		gotV, gotS := iff&1 != 0, iff&2 != 0
		if gotV {
			vbl++
		}
		if gotS {
			st++
		}
		ctx := fmt.Sprintf("source %s LYC=%d off_at=%d: cycle %d, LY=%d (%d cycles into the line), mode %d->%d", c.Source, c.LYC, c.OffAt, t, ly, lm.o, prevMode, mode)
		if c.Write != 0 {
			ctx = fmt.Sprintf("source %s LYC=%d, %04x<-%02x written at cycle %d: cycle %d, LY=%d (%d cycles into the line), mode %d->%d", c.Source, c.LYC, c14Writes[c.Write-1][0], c14Writes[c.Write-1][1], c.OffAt, t, ly, lm.o, prevMode, mode)
		}
		if gotV != wantV && !justOn {
			if wantV {
				return explore.Failf("VBlank not requested when line 144 begins", "%s", ctx)
			}
			return explore.Failf("VBlank requested outside the start of line 144", "%s", ctx)
		}
		if gotS != wantS && !dontCare {
			if wantS {
				what := "the start of line " + itoa(int(ly))
				if c.Source == "hblank" {
					what = "entry to mode 0"
				}
				cls := "a line 1-143"
				if ly == 0 {
					cls = "line 0"
				}
				if c.Source == "oam" {
					return explore.Failf("STAT ("+c.Source+" source) not requested at the start of "+cls, "%s (%s)", ctx, what)
				}
				return explore.Failf("STAT ("+c.Source+" source) not requested at its condition", "%s (%s)", ctx, what)
			}
			return explore.Failf("STAT requested without a rising edge of the enabled source ("+c.Source+")", "%s", ctx)
		}
		prevMode = mode
		justOn = false
	}
	if extended && vblExt != 2 {
		w := c14Writes[c.Write-1]
		return explore.Failf("VBlank is not requested exactly once per frame", "source %s LYC=%d: after %04x<-%02x written at cycle %d (LCD on throughout) the following 35,112 machine cycles contain %d VBlank requests", c.Source, c.LYC, w[0], w[1], c.OffAt, vblExt)
	}
	if broken && c.OffAt < 0 && t0 == 0 && vbl != c.Frames {
		return explore.Failf("VBlank is not requested exactly once per frame", "source %s LYC=%d objects=%d: %d VBlank requests in %d frames (%d machine cycles) with the LCD on throughout", c.Source, c.LYC, c.OAM, vbl, c.Frames, total)
	}
	l.Eval(1)
	l.Outcome(uint64(vbl)<<32 | uint64(st)<<8 | uint64(statBit[c.Source]))
	return nil
}

func init() {
	register("C13", "model_checking", func(c *Ctx) {
		if c.R != nil {
			c.R.Rule = "LY and the STAT mode are read through the Mapper after every machine cycle of the real PPU and fed to a reference line monitor (LY 0..153 cyclic, 114 cycles per line, mode 2 for the first 20 cycles, 3 until 61, then 0; mode 1 on lines 144-153; first line after switching on 2 cycles shorter): 3 free-running frames, and from EVERY cycle position of the first and of a steady frame: LCDC off -> LY=0/mode 0 at once and for as long as it is off (0, 1, 5, 200 cycles) -> LCDC on -> line 0 mode 2 -> monitored for a further 260 cycles (thorough: a full frame); the PPU state is restored from a snapshot after each excursion; and at every enumerated position one write to each video register (LY, STAT, LYC, LCDC keeping bit 7, scroll, window, palettes), IF and DMA: the schedule observed after every following cycle must continue undisturbed"
			c.R.Assumptions = []string{"which cycle of a line LY changes on is an implementation convention: the first line after switching on is accepted with 112 or 113 observed cycles and its mode boundaries one cycle later, every other line must be exactly 114 with boundaries at 20 and 61"}
		}
		after := 260
		if c.Thorough() {
			after = 17556 + 300
		}
		long := 300 // frames: past any 8-bit count of frames or lines
		if c.Thorough() {
			long = 66_000 // past any 16-bit count of frames (18 minutes of emulated time)
		}
		explore.Product(c.R, "free-run", explore.PartOpt{Bound: fmt.Sprintf("4 frames; one run of %d frames", long), Domain: "power-on (empty OAM); ten objects on a line; forty objects on a line; forty objects on lines 0-7; each also with the LCD debugging option"},
			func(yield func(c13Case) bool) {
				for _, dbg := range []bool{false, true} {
					for oam := 0; oam <= 3; oam++ {
						if !yield(c13Case{Kind: "free", To: 4 * 17556, OAM: oam, Debug: dbg}) {
							return
						}
					}
				}
				yield(c13Case{Kind: "free", To: long * 17556, OAM: 1})
			}, func() struct{} { return struct{}{} }, c13Check)
		explore.Product(c.R, "off-on-at-every-position", explore.PartOpt{Bound: fmt.Sprintf("off for {0,1,5,200} cycles, then on and %d monitored cycles", after), Domain: "every cycle position of the first frame and of the second (steady) frame"},
			func(yield func(c13Case) bool) {
				step := 114 * 2
				if c.Thorough() {
					step = 57
				}
				for from := 0; from < 2*17556; from += step {
					to := from + step
					if to > 2*17556 {
						to = 2 * 17556
					}
					if !yield(c13Case{Kind: "offon", From: from, To: to, OffK: []int{0, 1, 5, 200}, After: after}) {
						return
					}
					if from < 17556 && (c.Thorough() || from%(114*8) == 0) {
						// the same with forty objects on lines 0-7: the first line after switching on again scans them
						if !yield(c13Case{Kind: "offon", From: from, To: to, OffK: []int{1}, After: after, OAM: 3}) {
							return
						}
					}
				}
			}, func() struct{} { return struct{}{} }, c13Check)
		explore.Product(c.R, "register-writes-at-every-position", explore.PartOpt{Bound: fmt.Sprintf("one write, then %d monitored cycles", 260), Domain: fmt.Sprintf("%d writes (LY x 3 values, STAT x 3, LYC, LCDC with bit 7 kept x 3, SCY, SCX, WY, WX, BGP, OBP0, IF, DMA) at every cycle position of lines 0, 1, 77, 143, 144, 153 of the steady frame and 0, 1 of the first (thorough: every position of both frames)", len(c13Writes))},
			func(yield func(c13Case) bool) {
				var lines []int
				for _, ln := range []int{0, 1, 154, 155, 154 + 77, 154 + 143, 154 + 144, 154 + 153} {
					lines = append(lines, ln)
				}
				if c.Thorough() {
					lines = nil
					for ln := 0; ln < 308; ln++ {
						lines = append(lines, ln)
					}
				}
				for _, ln := range lines {
					from := ln * 114
					if ln >= 1 {
						from -= 2 // the first line after power-on is two cycles shorter
					}
					if from < 1 {
						from = 1
					}
					if !yield(c13Case{Kind: "write", From: from, To: from + 114, After: 260}) {
						return
					}
				}
			}, func() struct{} { return struct{}{} }, c13Check)
	})
	register("C14", "model_checking", func(c *Ctx) {
		if c.R != nil {
			c.R.Rule = "IF is read and cleared through the Mapper after every machine cycle, so the exact cycle of every VBlank/STAT request of the real PPU is observed and compared with the reference: VBlank exactly in the cycle LY becomes 144; STAT exactly at the rising edge of the single enabled source (mode 0 entry / LY becomes 144 / LY becomes n for n in 0..143 / LY becomes LYC); nothing while the LCD is off; each STAT source x LYC values x 3 frames, plus LCD off (1 and 300 cycles) and on again at every cycle of lines 0, 1, 143, 144, 153 (thorough: every cycle of a frame), each tried from a snapshot; and at every such cycle one write to each of 13 registers that must not move a request (LY, LCDC keeping bit 7, scroll, window, palettes, DMA, LYC and STAT rewritten with the values they already hold): nothing may be requested by the write and every following request must stay in place"
			c.R.Assumptions = []string{"OAM source at line 144, and whatever is requested in the cycle the LCD is switched on, are not judged", "several STAT sources at once (STAT blocking) are outside the statement"}
		}
		explore.Product(c.R, "requests", explore.PartOpt{Bound: "3 frames per configuration", Domain: "sources {none,hblank,vblank,oam,lyc} x LYC 0-153, 154, 200, 255 (lyc) / {0,1,77,142-145,152,153,255} (others; thorough: 0-3, 77, 140-145, 152-155, 255), with empty OAM, with 10 / 40 objects on one line, and with the LCD debugging option; off/on schedules; unrelated register writes"},
			func(yield func(c14Case) bool) {
				for _, src := range []string{"none", "hblank", "vblank", "oam", "lyc"} {
					// LYC is none of the other sources' business: they see every value next to the lines where something of
					// theirs happens (0, 1, 142-145, 152, 153) and a few others; the coincidence source sees them all
					lycs := []int{0, 1, 77, 142, 143, 144, 145, 152, 153, 255}
					if src == "lyc" {
						lycs = nil
						for i := 0; i <= 153; i++ {
							lycs = append(lycs, i)
						}
						lycs = append(lycs, 154, 200, 255)
					}
					if c.Thorough() && src != "lyc" {
						lycs = nil
						for i := 0; i <= 155; i++ {
							if i < 4 || (i >= 140 && i <= 145) || i >= 152 || i == 77 {
								lycs = append(lycs, i)
							}
						}
						lycs = append(lycs, 255)
					}
					for _, y := range lycs {
						if !yield(c14Case{Source: src, LYC: y, Frames: 3, OffAt: -1}) {
							return
						}
						if y == 0 || y == 51 || y == 144 {
							for oam := 1; oam <= 3; oam++ {
								if !yield(c14Case{Source: src, LYC: y, Frames: 3, OffAt: -1, OAM: oam}) {
									return
								}
							}
							// with the timer overflowing every 64 cycles next to the PPU
							if !yield(c14Case{Source: src, LYC: y, Frames: 3, OffAt: -1, OAM: 1, Timer: true}) {
								return
							}
							// with the master enable clear / set and every interrupt enabled in IE
							for irq := 1; irq <= 2; irq++ {
								if !yield(c14Case{Source: src, LYC: y, Frames: 3, OffAt: -1, OAM: 1, Irq: irq}) {
									return
								}
							}
							// the source selected by a value that also has bit 7 and bits 0-2 set
							if !yield(c14Case{Source: src, LYC: y, Frames: 3, OffAt: -1, OAM: 1, Junk: true}) {
								return
							}
							// the same machine built with the LCD debugging option
							if !yield(c14Case{Source: src, LYC: y, Frames: 3, OffAt: -1, OAM: 1, Debug: true}) {
								return
							}
						}
					}
					// off/on schedules
					var ats []int
					for _, line := range []int{0, 1, 143, 144, 153} {
						for o := 0; o < 114; o++ {
							ats = append(ats, 17556+line*114+o)
						}
					}
					if c.Thorough() {
						ats = nil
						for p := 17556; p < 2*17556; p += 3 {
							ats = append(ats, p)
						}
					}
					_ = ats
					for _, y := range lycs {
						if src == "lyc" && y != 0 && y != 1 && y != 144 && y != 153 {
							continue
						}
						if c.Thorough() {
							for from := 17556; from < 2*17556; from += 114 * 6 {
								if !yield(c14Case{Source: src, LYC: y, Frames: 3, OffAt: -2, OffFrom: from, OffTo: from + 114*6, OffStep: 1}) {
									return
								}
								if !yield(c14Case{Source: src, LYC: y, Frames: 2, OffAt: -2, OffFrom: from, OffTo: from + 114*6, OffStep: 1, Write: -1}) {
									return
								}
							}
							continue
						}
						for _, line := range []int{0, 1, 143, 144, 153} {
							from := 17556 + line*114
							if !yield(c14Case{Source: src, LYC: y, Frames: 2, OffAt: -2, OffFrom: from, OffTo: from + 114, OffStep: 1}) {
								return
							}
							// one unrelated register write at every cycle of the line
							if !yield(c14Case{Source: src, LYC: y, Frames: 2, OffAt: -2, OffFrom: from, OffTo: from + 114, OffStep: 1, Write: -1}) {
								return
							}
						}
					}
				}
			}, func() struct{} { return struct{}{} }, c14Check)
	})
}
