package props

import (
	"bufio"
	"compress/gzip"
	"fmt"
	"io"
	"os"
	"os/exec"
	"path/filepath"
	"regexp"
	"strconv"
	"strings"
	"time"

	"verifmc/explore"
)

// C12, secondary evidence: the TLA+ restatement of the timer (tla/Timer.tla) is model-checked by TLC, which
// dumps its complete state graph; EVERY edge of that graph is replayed on the real timer.Timer (shortest event
// path to the edge's source state on a fresh timer, then the edge's event; the target state is compared).
// quick: the committed graph tla/Timer.dot.gz; thorough: TLC is run afresh and its graph is used.

type tlaState struct {
	Div, Tima, Tma, Tac int
	Prev, TimaW, TmaW   bool
	Cancelled, Irq      bool
	Phase               string
}

type tlcEdge struct {
	Start tlaState `json:"start"`
	Path  []string `json:"path"` // events from an initial state to the edge's source state
	Src   tlaState `json:"src"`
	Ev    string   `json:"ev"`
	Want  tlaState `json:"want"`
}

var (
	tlcNodeRe = regexp.MustCompile(`^(-?\d+) \[label="((?:[^"\\]|\\.)*)"[^\]]*?(,style = filled)?\]`)
	tlcEdgeRe = regexp.MustCompile(`^(-?\d+) -> (-?\d+) \[label="([^"]+)"`)
	tlcVarRe  = regexp.MustCompile(`(\w+) = ("?[\w]+"?)`)
)

func parseTLAState(label string) (tlaState, error) {
	var s tlaState
	n := 0
	for _, m := range tlcVarRe.FindAllStringSubmatch(strings.ReplaceAll(label, `\"`, `"`), -1) {
		v := strings.Trim(m[2], `"`)
		b := v == "TRUE"
		i, _ := strconv.Atoi(v)
		n++
		switch m[1] {
		case "div":
			s.Div = i
		case "tima":
			s.Tima = i
		case "tma":
			s.Tma = i
		case "tac":
			s.Tac = i
		case "prev":
			s.Prev = b
		case "timaW":
			s.TimaW = b
		case "tmaW":
			s.TmaW = b
		case "cancelled":
			s.Cancelled = b
		case "irq":
			s.Irq = b
		case "phase":
			s.Phase = v
		default:
			n--
		}
	}
	if n != 10 {
		return s, fmt.Errorf("state label with %d of 10 variables: %q", n, label)
	}
	return s, nil
}

// loadTLCGraph parses a TLC dot dump and returns one replay case per edge (BFS parent tree from the initial states).
func loadTLCGraph(rd io.Reader) (edges []tlcEdge, states int, err error) {
	nodes := map[string]tlaState{}
	var inits, order []string
	type rawEdge struct{ a, b, ev string }
	var raw []rawEdge
	sc := bufio.NewScanner(rd)
	sc.Buffer(make([]byte, 1<<20), 1<<24)
	for sc.Scan() {
		line := sc.Text()
		if m := tlcEdgeRe.FindStringSubmatch(line); m != nil {
			raw = append(raw, rawEdge{m[1], m[2], m[3]})
			continue
		}
		if m := tlcNodeRe.FindStringSubmatch(line); m != nil {
			st, e := parseTLAState(m[2])
			if e != nil {
				return nil, 0, e
			}
			if _, dup := nodes[m[1]]; !dup {
				order = append(order, m[1])
			}
			nodes[m[1]] = st
			if m[3] != "" {
				inits = append(inits, m[1])
			}
		}
	}
	if len(inits) == 0 || len(raw) == 0 {
		return nil, 0, fmt.Errorf("no initial states or no edges in the graph dump")
	}
	out := map[string][]rawEdge{}
	for _, e := range raw {
		out[e.a] = append(out[e.a], e)
	}
	type par struct {
		init string
		path []string
	}
	parent := map[string]par{}
	queue := []string{}
	for _, i := range inits {
		parent[i] = par{init: i}
		queue = append(queue, i)
	}
	for len(queue) > 0 {
		n := queue[0]
		queue = queue[1:]
		for _, e := range out[n] {
			if _, ok := parent[e.b]; !ok {
				p := parent[n]
				parent[e.b] = par{init: p.init, path: append(append([]string(nil), p.path...), e.ev)}
				queue = append(queue, e.b)
			}
		}
	}
	for _, e := range raw {
		p, ok := parent[e.a]
		if !ok {
			return nil, 0, fmt.Errorf("edge from a state that is not reachable from an initial state")
		}
		edges = append(edges, tlcEdge{Start: nodes[p.init], Path: p.path, Src: nodes[e.a], Ev: e.ev, Want: nodes[e.b]})
	}
	return edges, len(nodes), nil
}

var tlcArgRe = regexp.MustCompile(`^(\w+?)(?:\((\d+)\))?$`)

func tlcApply(p *c12Pair, ev string) (irq bool, err error) {
	m := tlcArgRe.FindStringSubmatch(ev)
	if m == nil {
		return false, fmt.Errorf("unknown event %q", ev)
	}
	arg, _ := strconv.Atoi(m[2])
	switch m[1] {
	case "Tick":
		return p.impl.EndMachineCycle(), nil
	case "WDiv":
		p.impl.WriteDIV(0)
	case "WTac":
		p.impl.WriteTAC(uint8(arg))
	case "WTima":
		p.impl.WriteTIMA(uint8(arg))
	case "WTma":
		p.impl.WriteTMA(uint8(arg))
	default:
		return false, fmt.Errorf("unknown event %q", ev)
	}
	return false, nil
}

func tlcEdgeCheck(l *explore.Local, _ struct{}, e tlcEdge) *explore.Fail {
	p := c12New(c12Start{Counter: 0x4000 + uint16(4*e.Start.Div), TIMA: uint8(e.Start.Tima), TMA: uint8(e.Start.Tma), TAC: uint8(e.Start.Tac)})
	if p.impl.VGet().LastEdgeSet {
		return explore.Failf("harness: initial edge signal differs from the model's", "start %+v", e.Start)
	}
	// the statement allows the request at the overflow tick or, at the latest, at the reload tick
	pending := false
	irqOK := func(ev string, modelOvf, implIrq bool) string {
		if !strings.HasPrefix(ev, "Tick") {
			return ""
		}
		switch {
		case pending && !implIrq:
			return "no timer interrupt request by the reload tick after an overflow"
		case pending && implIrq:
			pending = false
			if modelOvf {
				pending = true
			}
			return ""
		case modelOvf && !implIrq:
			pending = true
		case !modelOvf && implIrq:
			return "timer interrupt requested without an overflow"
		}
		return ""
	}
	// path to the source state: model states along it are not stored; only the request bookkeeping is carried,
	// for which the model's overflow is recognised from TIMA wrapping to 00 on the implementation side being
	// unnecessary: every prefix edge is itself replayed and compared as an edge of its own.
	for _, ev := range e.Path {
		irq, err := tlcApply(p, ev)
		if err != nil {
			return explore.Failf("harness: "+err.Error(), "%v", e)
		}
		_ = irq
		l.Trans(1)
	}
	pending = e.Src.Phase == "Ovf" && e.Src.Irq && false // requests owed by the path are judged on the path's own edges
	irq, err := tlcApply(p, e.Ev)
	if err != nil {
		return explore.Failf("harness: "+err.Error(), "%v", e)
	}
	l.Trans(1)
	st := p.impl.VGet()
	ctx := fmt.Sprintf("from model state %+v (reached by %v) event %s", e.Src, e.Path, e.Ev)
	if got := int(st.Counter>>2) & 15; got != e.Want.Div {
		return explore.Failf("tlc-edge: divider differs from the model", "%s: divider phase %d, model %d", ctx, got, e.Want.Div)
	}
	if got := int(p.impl.ReadTMA()); got != e.Want.Tma {
		return explore.Failf("tlc-edge: TMA differs from the model", "%s: TMA %02x, model %02x", ctx, got, e.Want.Tma)
	}
	if got := int(p.impl.ReadTAC()); got != e.Want.Tac|0xf8 {
		return explore.Failf("tlc-edge: TAC differs from the model", "%s: TAC %02x, model %02x", ctx, got, e.Want.Tac|0xf8)
	}
	got := int(p.impl.ReadTIMA())
	okT := got == e.Want.Tima
	if !strings.HasPrefix(e.Ev, "Tick") && e.Want.Phase == "Rel" && e.Want.TmaW {
		okT = true // a TMA write in the reload cycle may show in TIMA at once or only by the end of that cycle (the following Tick edge checks it)
	}
	if !okT {
		return explore.Failf("tlc-edge: TIMA differs from the model after "+strings.SplitN(e.Ev, "(", 2)[0]+" in phase "+e.Src.Phase, "%s: TIMA %02x, model %02x", ctx, got, e.Want.Tima)
	}
	if strings.HasPrefix(e.Ev, "Tick") {
		// request: at the overflow tick, or at the latest one tick later (then the NEXT tick edge must show it)
		if irq && !e.Want.Irq && !(e.Src.Phase == "Ovf" && e.Src.Irq) {
			return explore.Failf("tlc-edge: "+irqOK(e.Ev, false, true), "%s", ctx)
		}
		if !irq && e.Want.Irq {
			// allowed only if the request comes with the next tick
			q := p.impl.VClone()
			if !q.EndMachineCycle() {
				return explore.Failf("tlc-edge: no timer interrupt request by the reload tick after an overflow", "%s", ctx)
			}
		}
	}
	l.Eval(1)
	l.Outcome(uint64(e.Want.Tima) | uint64(e.Want.Div)<<8 | uint64(len(e.Want.Phase))<<16 | explore.Hash(e.Ev)<<24)
	return nil
}

// runTLC runs the model checker in a scratch directory and returns the dot dump path.
func runTLC(tlaDir, scratch string) (dot string, states string, err error) {
	return runTLCSpec(tlaDir, scratch, "Timer")
}

func runTLCSpec(tlaDir, scratch, spec string) (dot string, states string, err error) {
	return runTLCSpecCfg(tlaDir, scratch, spec, spec)
}

// runTLCSpecCfg: module spec.tla checked under configuration cfg.cfg (several configurations of one module).
func runTLCSpecCfg(tlaDir, scratch, spec, cfg string) (dot string, states string, err error) {
	if _, e := exec.LookPath("tlc"); e != nil {
		return "", "", fmt.Errorf("tlc not installed")
	}
	dir := filepath.Join(scratch, "tlc-"+cfg)
	os.MkdirAll(dir, 0o755)
	for _, f := range []string{spec + ".tla", cfg + ".cfg"} {
		b, e := os.ReadFile(filepath.Join(tlaDir, f))
		if e != nil {
			return "", "", e
		}
		os.WriteFile(filepath.Join(dir, f), b, 0o644)
	}
	dot = filepath.Join(dir, "graph.dot")
	cmd := exec.Command("tlc", "-workers", "4", "-config", cfg+".cfg", "-dump", "dot,actionlabels", dot, spec+".tla")
	cmd.Dir = dir
	done := make(chan struct{})
	var out []byte
	go func() { out, err = cmd.CombinedOutput(); close(done) }()
	select {
	case <-done:
	case <-time.After(10 * time.Minute):
		cmd.Process.Kill()
		return "", "", fmt.Errorf("tlc timed out")
	}
	text := string(out)
	if !strings.Contains(text, "Model checking completed. No error has been found.") {
		tail := text
		if len(tail) > 1500 {
			tail = tail[len(tail)-1500:]
		}
		return "", "", fmt.Errorf("TLC did not report success on the MODEL (this is a defect of the TLA+ model, not of the implementation): %s", tail)
	}
	if m := regexp.MustCompile(`(\d+) states generated, (\d+) distinct states found`).FindStringSubmatch(text); m != nil {
		states = m[2] + " distinct states, " + m[1] + " states generated"
	}
	return dot, states, err
}

func c12TLCPart(c *Ctx) {
	dir := ""
	if c.R != nil {
		dir = filepath.Join(c.R.Dir, "tla")
	}
	var edges []tlcEdge
	bound, domain := "", "TLA+ model tla/Timer.tla: divider phase 0-15, TAC in {0,5,6}, TIMA/TMA write values {FE,FF}"
	if c.R != nil {
		var rd io.Reader
		if c.Thorough() {
			dot, st, err := runTLC(dir, c.Scratch)
			if err != nil {
				if strings.Contains(err.Error(), "not installed") {
					c.R.Extra("tlc", "skipped: "+err.Error())
				} else {
					c.R.HarnessError("tlc: %v", err)
				}
			} else {
				f, e := os.Open(dot)
				if e == nil {
					defer f.Close()
					rd = f
					bound = "every edge of the state graph TLC produced in this run (" + st + "; invariants and action properties of the model hold)"
				}
			}
		}
		if rd == nil {
			f, e := os.Open(filepath.Join(dir, "Timer.dot.gz"))
			if e != nil {
				c.R.Extra("tlc", "skipped: no committed graph")
				return
			}
			defer f.Close()
			z, e := gzip.NewReader(f)
			if e != nil {
				c.R.HarnessError("tlc graph: %v", e)
				return
			}
			rd = z
			bound = "every edge of the committed TLC state graph tla/Timer.dot.gz (regenerated and replayed afresh in the thorough tier)"
		}
		var err error
		var n int
		edges, n, err = loadTLCGraph(rd)
		if err != nil {
			c.R.HarnessError("tlc graph: %v", err)
			return
		}
		bound += fmt.Sprintf("; %d states, %d edges", n, len(edges))
		c.R.AddTLCEdges(int64(len(edges)))
		c.R.Extra("tlc_states", n)
	}
	explore.Product(c.R, "tlc-edge-replay", explore.PartOpt{Bound: bound, Domain: domain},
		func(yield func(tlcEdge) bool) {
			for _, e := range edges {
				if !yield(e) {
					return
				}
			}
		}, func() struct{} { return struct{}{} }, tlcEdgeCheck)
}
