// Package props holds one driver per property: alphabet, start states, bound and
// oracle binding. Each driver only calls explore.Product / explore.BFS (which also
// register replayers) so that `--replay` can re-run a stored case without the explorer.
package props

import (
	"verifmc/explore"
)

// Ctx is handed to each driver. R is nil in replay (registration-only) mode.
type Ctx struct {
	R       *explore.Report
	Tier    string
	Seed    int
	Repo    string // path of the repository being checked (testdata lives there)
	Scratch string // scratch directory (removed by the caller)
	SelfExe string // path of the vmc binary (worker subprocesses)
}

func (c *Ctx) Thorough() bool { return c.Tier == "thorough" }

type Driver struct {
	ID    string
	Level string
	Run   func(c *Ctx)
}

var Registry = map[string]*Driver{}

func register(id, level string, run func(c *Ctx)) {
	Registry[id] = &Driver{ID: id, Level: level, Run: run}
}

// Workers are sub-commands executed in separate processes (crash containment).
var Workers = map[string]func(args []string) int{}
