package props

import (
	"context"
	"fmt"
	"image"
	"os"
	"os/exec"
	"path/filepath"
	"sort"
	"strconv"
	"strings"
	"time"
	"verifmc/machine"

	"verifmc/explore"
)

// C24 — determinism: same ROM, configuration and input schedule => identical frames, samples,
// serial output, cartridge RAM and registers; twice in this process and once in another process.

type c24Case struct {
	ROM    string `json:"rom"` // path relative to the repository's testdata
	Sched  int    `json:"sched"`
	Frames int    `json:"frames"`
	// Stall: the second in-process run is held up by the host for 2.3 s of wall-clock time in the middle (between two
	// frames): emulated time is counted in machine cycles, so a slow or stalled host must not change anything
	Stall bool `json:"stall,omitempty"`
	// Twin: a different ROM whose complete header (title, type, sizes, both checksums) is byte-identical to ROM's; it
	// is run in this process BEFORE the first run and between the two runs, while the separate process runs ROM alone:
	// nothing the emulator remembers about one cartridge may be taken for another's
	Twin string `json:"twin,omitempty"`
	// Cfg: outputs left out of the machine (gameboy.Config): bit 0 = DisableVideoOutput, bit 1 = DisableAudioOutput;
	// a machine without a display or speakers is still the same machine and must replay just the same
	Cfg int `json:"cfg,omitempty"`
}

// twinROM: MBC1+RAM images with identical headers (non-zero checksums) whose programs differ only in immediate
// operands: each sends its letter to the serial port and stores it in cartridge RAM and work RAM, then counts.
func twinROM(letter byte) []byte {
	img := machine.ProgramCart(0x03, 0x02, map[uint16][]byte{0x100: {0xc3, 0x50, 0x01}, 0x150: {
		0x3e, 0x0a, 0xea, 0x00, 0x00, // RAM enable
		0x3e, letter, 0xe0, 0x01, 0xea, 0x00, 0xa0, 0xea, 0x00, 0xc0, // LD A,letter; LDH (01),A; LD (A000),A; LD (C000),A
		0x3e, 0x81, 0xe0, 0x02, // SC
		0x21, 0x01, 0xc0, 0x34, 0x18, 0xfd, // LD HL,C001; INC (HL); JR -3
	}})
	copy(img[0x134:], "TWINCART")
	img[0x14d], img[0x14e], img[0x14f] = 0x5a, 0xbe, 0xef
	return img
}

// an MBC3 cartridge WITHOUT the timer feature whose guest nevertheless selects clock register 08, reads it (before ever
// writing it), sends what it read to the serial port and stores it in work RAM, writes it back incremented and latches
func init() {
	c26Synthetic["synthetic:mbc3-no-timer-clock-registers"] = machine.ProgramCart(0x13, 0x03, map[uint16][]byte{0x100: {0xc3, 0x50, 0x01}, 0x150: {
		0x3e, 0x0a, 0xea, 0x00, 0x00, // RAM enable
		0x21, 0x00, 0xc0, // LD HL,C000
		0x3e, 0x08, 0xea, 0x00, 0x40, // select 08
		0xfa, 0x00, 0xa0, // LD A,(A000)
		0xe0, 0x01, 0x22, // LDH (01),A; LD (HL+),A
		0xc6, 0x07, 0xea, 0x00, 0xa0, // ADD A,07; LD (A000),A
		0xaf, 0xea, 0x00, 0x60, 0x3c, 0xea, 0x00, 0x60, // latch 00, 01
		0xfa, 0x00, 0xa0, 0x22, // LD A,(A000); LD (HL+),A
		0x7d, 0xe6, 0x3f, 0x6f, // L &= 3F
		0x18, 0xde, // JR back to "select 08"
	}})
}

func init() {
	c26Synthetic["synthetic:twin-a"] = twinROM('A')
	c26Synthetic["synthetic:twin-b"] = twinROM('B')
}

// guest program for an MBC3+TIMER cartridge: latches and reads the seconds register in a loop and sends every new
// value to the serial port (so the cartridge clock's view of time is part of the observable output)
var c24ClockROM = machine.ProgramCart(0x10, 0x03, map[uint16][]byte{0x100: {
	0x3e, 0x0a, 0xea, 0x00, 0x00, 0x06, 0xff,
	0xaf, 0xea, 0x00, 0x60, 0x3c, 0xea, 0x00, 0x60, 0x3e, 0x08, 0xea, 0x00, 0x40, 0xfa, 0x00, 0xa0, 0xb8, 0x28, 0xed, 0x47, 0xe0, 0x01, 0x18, 0xe8}})

func c24ROMPath(c *Ctx, name string) string {
	if name == "synthetic:mbc3-clock" {
		return writeOnce(filepath.Join(c.Scratch, "synthetic-mbc3-clock.gb"), c24ClockROM)
	}
	if _, ok := c26Synthetic[name]; ok {
		return c26ROMPath(c, name)
	}
	return filepath.Join(c.Repo, "gameboy/testdata", name)
}

// c24Run returns one hash per frame plus a final full-state hash.
func c24Run(rom string, sched, frames int, stallAt ...int) (hs []uint64, err error) {
	return c24RunCfg(rom, sched, frames, 0, stallAt...)
}

func c24RunCfg(rom string, sched, frames, cfg int, stallAt ...int) (hs []uint64, err error) {
	defer func() {
		if p := recover(); p != nil {
			err = fmt.Errorf("crash: %v", p)
		}
	}()
	g := newGB(rom, cfg&1 == 0, cfg&2 == 0, true)
	if cfg&1 == 0 {
		g.onFrame(func(n int, _ *image.RGBA) bool { return false })
	}
	ctx := context.Background()
	for f := 0; f < frames; f++ {
		if len(stallAt) > 0 && f == stallAt[0] {
			time.Sleep(2300 * time.Millisecond)
		}
		g.applyButtons(btnSchedules[sched], f)
		g.frame(ctx)
		n, sh := g.drainHash()
		h := g.stateHash(false) ^ sh*7 ^ uint64(n)<<40
		if g.serial != nil {
			h ^= hashBytes(g.serial.Bytes()) * 13
		}
		hs = append(hs, h)
	}
	hs = append(hs, g.stateHash(true))
	return hs, nil
}

func init() {
	Workers["c24"] = func(args []string) int {
		sched, _ := strconv.Atoi(args[1])
		frames, _ := strconv.Atoi(args[2])
		cfg := 0
		if len(args) > 3 {
			cfg, _ = strconv.Atoi(args[3])
		}
		hs, err := c24RunCfg(args[0], sched, frames, cfg)
		if err != nil {
			fmt.Println("ERR", err)
			return 3
		}
		for _, h := range hs {
			fmt.Printf("%016x\n", h)
		}
		return 0
	}
}

func c24Check(c *Ctx) func(l *explore.Local, _ struct{}, cs c24Case) *explore.Fail {
	return func(l *explore.Local, _ struct{}, cs c24Case) *explore.Fail {
		rom := c24ROMPath(c, cs.ROM)
		if cs.Twin != "" {
			c24RunCfg(c24ROMPath(c, cs.Twin), cs.Sched, 3, cs.Cfg)
		}
		a, err := c24RunCfg(rom, cs.Sched, cs.Frames, cs.Cfg)
		if err != nil {
			// a ROM the emulator cannot load or that executes an undefined opcode is not a determinism question
			l.OutcomeStr("unloadable")
			return nil
		}
		// something else runs in between
		other := filepath.Join(c.Repo, "gameboy/testdata/blargg/halt_bug.gb")
		if cs.Twin != "" {
			other = c24ROMPath(c, cs.Twin)
		}
		c24RunCfg(other, (cs.Sched+1)%len(btnSchedules), 3, cs.Cfg)
		var stall []int
		if cs.Stall {
			stall = []int{cs.Frames / 3}
		}
		b, err := c24RunCfg(rom, cs.Sched, cs.Frames, cs.Cfg, stall...)
		if err != nil {
			return explore.Failf("a run crashes although the same run completed before", "%s: %v", cs.ROM, err)
		}
		diff := func(x, y []uint64, what string) *explore.Fail {
			for i := range x {
				if i >= len(y) || x[i] != y[i] {
					where := fmt.Sprintf("frame %d", i)
					if i == len(x)-1 {
						where = "the final full state (64 KiB, cartridge RAM, registers)"
					}
					return explore.Failf("two runs of the same ROM and inputs differ", "%s schedule %d (%s; video output %v, audio output %v): first difference at %s", cs.ROM, cs.Sched, what, cs.Cfg&1 == 0, cs.Cfg&2 == 0, where)
				}
			}
			return nil
		}
		what := "same process"
		if cs.Stall {
			what = "same process, the second run stalled by the host for 2.3 s in the middle"
		}
		if f := diff(a, b, what); f != nil {
			return f
		}
		out, err := exec.Command(c.SelfExe, "worker", "c24", rom, strconv.Itoa(cs.Sched), strconv.Itoa(cs.Frames), strconv.Itoa(cs.Cfg)).Output()
		if err != nil {
			return explore.Failf("the run in a separate process fails although it completed in this process", "%s: %v", cs.ROM, err)
		}
		var p []uint64
		for _, ln := range strings.Fields(string(out)) {
			v, err := strconv.ParseUint(ln, 16, 64)
			if err == nil {
				p = append(p, v)
			}
		}
		if f := diff(a, p, "different processes"); f != nil {
			return f
		}
		l.Eval(3)
		l.Trans(3 * cs.Frames)
		l.Outcome(a[len(a)-1])
		return nil
	}
}

func c24ROMs(repo string) []string {
	var out []string
	root := filepath.Join(repo, "gameboy/testdata")
	if r, err := filepath.EvalSymlinks(root); err == nil {
		root = r
	}
	filepath.Walk(root, func(p string, info os.FileInfo, err error) error {
		if err == nil && !info.IsDir() && strings.HasSuffix(p, ".gb") && info.Size() > 0 {
			rel, _ := filepath.Rel(root, p)
			out = append(out, rel)
		}
		return nil
	})
	sort.Strings(out)
	return out
}

func init() {
	register("C24", "exploration", func(c *Ctx) {
		if c.R != nil {
			c.R.Rule = "every non-empty ROM under testdata x fixed button schedules: the ROM is run through the real gameboy.New / runFrame with display, speakers and serial writer attached, twice in this process (with another ROM run in between) and once in a separate process; after every frame a hash of (registers, every writable memory region, ROM-window probes, frame pixels, drained samples, serial bytes, RTC and APU generator state) and at the end a hash of the full 64 KiB space and the cartridge RAM dump must agree between all three runs; plus two cartridges with byte-identical headers and different programs, each run after and between runs of the other in this process and alone in the separate process; plus six ROMs on machines built without video and / or audio output; plus seven synthetic guest programs (one of them switches the noise generator between its long and short register at 96 phases after a trigger), and three runs in which the host stalls the second run for 2.3 s of wall-clock time between two frames (emulated time is counted in machine cycles, so nothing may change); a case = one (ROM, schedule); non-trivial = distinct final state hashes"
			c.R.Assumptions = []string{"differential replay: there is no nondeterministic choice inside the emulator to enumerate; the check demonstrates that rather than assuming it", "ROMs that the constructor rejects or that run into an undefined opcode are skipped"}
		}
		frames, scheds := 60, []int{0, 2}
		if c.Thorough() {
			frames, scheds = 600, []int{0, 1, 2, 3}
		}
		roms := c24ROMs(c.Repo)
		explore.Product(c.R, "replay", explore.PartOpt{Workers: 8, Unstable: true, Bound: fmt.Sprintf("%d frames per run, 3 runs per case", frames), Domain: fmt.Sprintf("%d ROMs x %d button schedules", len(roms), len(scheds))},
			func(yield func(c24Case) bool) {
				for _, r := range roms {
					for _, s := range scheds {
						if !yield(c24Case{ROM: r, Sched: s, Frames: frames}) {
							return
						}
					}
				}
				// synthetic guest programs (cartridge clock reader; STOP; HALT forever; LCD and sound off; clock halted + DMA)
				for _, r := range []string{"synthetic:mbc3-clock", "synthetic:stop", "synthetic:halt-forever", "synthetic:lcd-and-sound-off", "synthetic:rtc-halted-dma", "synthetic:noise-width-phases", "synthetic:mbc3-no-timer-clock-registers"} {
					if !yield(c24Case{ROM: r, Sched: 0, Frames: frames}) {
						return
					}
				}
				// look-alike cartridges: identical headers, different programs
				for _, pr := range [][2]string{{"synthetic:twin-a", "synthetic:twin-b"}, {"synthetic:twin-b", "synthetic:twin-a"}} {
					if !yield(c24Case{ROM: pr[0], Twin: pr[1], Sched: 0, Frames: 5}) {
						return
					}
				}
				// machines built without a display and / or without speakers
				for _, r := range []string{"blargg/dmg_sound/rom_singles/03-trigger.gb", "blargg/dmg_sound/rom_singles/09-wave read while on.gb", "blargg/cpu_instrs/cpu_instrs.gb", "synthetic:noise-width-phases", "synthetic:lcd-and-sound-off", "synthetic:twin-a"} {
					for cfg := 1; cfg <= 3; cfg++ {
						if !yield(c24Case{ROM: r, Sched: 0, Frames: frames, Cfg: cfg}) {
							return
						}
					}
				}
				// a stalled host: at least 70 frames, so that more than one emulated second passes
				sf := frames
				if sf < 70 {
					sf = 70
				}
				for _, r := range []string{"synthetic:mbc3-clock", "rtc3test/rtc3test.gb", "blargg/instr_timing/instr_timing.gb"} {
					if !yield(c24Case{ROM: r, Sched: 0, Frames: sf, Stall: true}) {
						return
					}
				}
			}, func() struct{} { return struct{}{} }, c24Check(c))
	})
}
