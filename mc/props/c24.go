package props

import (
	"context"
	"fmt"
	"image"
	"os"
	"os/exec"
	"path/filepath"
	"sort"
	"strconv"
	"strings"

	"verifmc/explore"
)

// C24 — determinism: same ROM, configuration and input schedule => identical frames, samples,
// serial output, cartridge RAM and registers; twice in this process and once in another process.

type c24Case struct {
	ROM    string `json:"rom"` // path relative to the repository's testdata
	Sched  int    `json:"sched"`
	Frames int    `json:"frames"`
}

// c24Run returns one hash per frame plus a final full-state hash.
func c24Run(rom string, sched, frames int) (hs []uint64, err error) {
	defer func() {
		if p := recover(); p != nil {
			err = fmt.Errorf("crash: %v", p)
		}
	}()
	g := newGB(rom, true, true, true)
	g.onFrame(func(n int, _ *image.RGBA) bool { return false })
	ctx := context.Background()
	for f := 0; f < frames; f++ {
		g.applyButtons(btnSchedules[sched], f)
		g.frame(ctx)
		n, sh := g.drainHash()
		h := g.stateHash(false) ^ sh*7 ^ uint64(n)<<40
		if g.serial != nil {
			h ^= hashBytes(g.serial.Bytes()) * 13
		}
		hs = append(hs, h)
	}
	hs = append(hs, g.stateHash(true))
	return hs, nil
}

func init() {
	Workers["c24"] = func(args []string) int {
		sched, _ := strconv.Atoi(args[1])
		frames, _ := strconv.Atoi(args[2])
		hs, err := c24Run(args[0], sched, frames)
		if err != nil {
			fmt.Println("ERR", err)
			return 3
		}
		for _, h := range hs {
			fmt.Printf("%016x\n", h)
		}
		return 0
	}
}

func c24Check(c *Ctx) func(l *explore.Local, _ struct{}, cs c24Case) *explore.Fail {
	return func(l *explore.Local, _ struct{}, cs c24Case) *explore.Fail {
		rom := filepath.Join(c.Repo, "gameboy/testdata", cs.ROM)
		a, err := c24Run(rom, cs.Sched, cs.Frames)
		if err != nil {
			// a ROM the emulator cannot load or that executes an undefined opcode is not a determinism question
			l.OutcomeStr("unloadable")
			return nil
		}
		// something else runs in between
		other := filepath.Join(c.Repo, "gameboy/testdata/blargg/halt_bug.gb")
		c24Run(other, (cs.Sched+1)%len(btnSchedules), 3)
		b, err := c24Run(rom, cs.Sched, cs.Frames)
		if err != nil {
			return explore.Failf("a run crashes although the same run completed before", "%s: %v", cs.ROM, err)
		}
		diff := func(x, y []uint64, what string) *explore.Fail {
			for i := range x {
				if i >= len(y) || x[i] != y[i] {
					where := fmt.Sprintf("frame %d", i)
					if i == len(x)-1 {
						where = "the final full state (64 KiB, cartridge RAM, registers)"
					}
					return explore.Failf("two runs of the same ROM and inputs differ", "%s schedule %d (%s): first difference at %s", cs.ROM, cs.Sched, what, where)
				}
			}
			return nil
		}
		if f := diff(a, b, "same process"); f != nil {
			return f
		}
		out, err := exec.Command(c.SelfExe, "worker", "c24", rom, strconv.Itoa(cs.Sched), strconv.Itoa(cs.Frames)).Output()
		if err != nil {
			return explore.Failf("the run in a separate process fails although it completed in this process", "%s: %v", cs.ROM, err)
		}
		var p []uint64
		for _, ln := range strings.Fields(string(out)) {
			v, err := strconv.ParseUint(ln, 16, 64)
			if err == nil {
				p = append(p, v)
			}
		}
		if f := diff(a, p, "different processes"); f != nil {
			return f
		}
		l.Eval(3)
		l.Trans(3 * cs.Frames)
		l.Outcome(a[len(a)-1])
		return nil
	}
}

func c24ROMs(repo string) []string {
	var out []string
	root := filepath.Join(repo, "gameboy/testdata")
	if r, err := filepath.EvalSymlinks(root); err == nil {
		root = r
	}
	filepath.Walk(root, func(p string, info os.FileInfo, err error) error {
		if err == nil && !info.IsDir() && strings.HasSuffix(p, ".gb") && info.Size() > 0 {
			rel, _ := filepath.Rel(root, p)
			out = append(out, rel)
		}
		return nil
	})
	sort.Strings(out)
	return out
}

func init() {
	register("C24", "exploration", func(c *Ctx) {
		if c.R != nil {
			c.R.Rule = "every non-empty ROM under testdata x fixed button schedules: the ROM is run through the real gameboy.New / runFrame with display, speakers and serial writer attached, twice in this process (with another ROM run in between) and once in a separate process; after every frame a hash of (registers, every writable memory region, ROM-window probes, frame pixels, drained samples, serial bytes, RTC and APU generator state) and at the end a hash of the full 64 KiB space and the cartridge RAM dump must agree between all three runs; a case = one (ROM, schedule); non-trivial = distinct final state hashes"
			c.R.Assumptions = []string{"differential replay: there is no nondeterministic choice inside the emulator to enumerate; the check demonstrates that rather than assuming it", "ROMs that the constructor rejects or that run into an undefined opcode are skipped"}
		}
		frames, scheds := 60, []int{0, 2}
		if c.Thorough() {
			frames, scheds = 600, []int{0, 1, 2, 3}
		}
		roms := c24ROMs(c.Repo)
		explore.Product(c.R, "replay", explore.PartOpt{Workers: 8, Unstable: true, Bound: fmt.Sprintf("%d frames per run, 3 runs per case", frames), Domain: fmt.Sprintf("%d ROMs x %d button schedules", len(roms), len(scheds))},
			func(yield func(c24Case) bool) {
				for _, r := range roms {
					for _, s := range scheds {
						if !yield(c24Case{r, s, frames}) {
							return
						}
					}
				}
			}, func() struct{} { return struct{}{} }, c24Check(c))
	})
}
