package props

import (
	"context"
	"fmt"
	"math"
	"path/filepath"

	"verifmc/explore"
	"verifmc/machine"
)

// C20 — the sample stream: pacing (one stereo sample per 95 clock cycles), routing, range.

func drain(m *machine.M) (l, r []float32) {
	for {
		select {
		case v := <-m.L:
			l = append(l, v)
			continue
		default:
		}
		break
	}
	for {
		select {
		case v := <-m.R:
			r = append(r, v)
			continue
		default:
		}
		break
	}
	return
}

type c20Pace struct {
	Phase  int  `json:"phase"` // machine cycles run (sound off->on toggled at that point) before counting
	Cycles int  `json:"cycles"`
	Off    bool `json:"sound_off"`
	NoOut  bool `json:"no_outputs"`
	// Trig > 0: in machine cycle TrigAt of the counted run a channel is (re)started (1-4: NRx2 = F0 / NR30 = 80, then
	// NRx4 = 80), or a mixer register is rewritten (5: NR50, 6: NR51, 7: NR12 envelope): none of the guest's register
	// writes may move, drop or double a sample
	Trig   int `json:"trig,omitempty"`
	TrigAt int `json:"trig_at,omitempty"`
}

func c20PaceCheck(lc *explore.Local, _ struct{}, c c20Pace) *explore.Fail {
	m := machine.New(machine.ROMOnly(), machine.Opts{Audio: !c.NoOut, ChanCap: 64})
	step := func() (int, int) {
		m.A.EndMachineCycle()
		if c.NoOut {
			return 0, 0
		}
		l, r := drain(m)
		return len(l), len(r)
	}
	for i := 0; i < c.Phase; i++ {
		step()
	}
	if c.Off {
		m.Map.Write(0xff26, 0x00)
	} else if c.Phase > 0 {
		// a power cycle at this phase must not disturb the pacing
		m.Map.Write(0xff26, 0x00)
		m.Map.Write(0xff26, 0x80)
	}
	ctx := fmt.Sprintf("phase %d sound_off=%v no_outputs=%v", c.Phase, c.Off, c.NoOut)
	// sample k must fall in cycle floor((phi + 95k)/4) for one phi: keep the window of consistent phi
	lo, hi := -1<<40, 1<<40
	k := 0
	if c.Trig > 0 {
		ctx += fmt.Sprintf(" register event %d in cycle %d", c.Trig, c.TrigAt)
		m.Map.Write(0xff25, 0xff)
		m.Map.Write(0xff24, 0x77)
	}
	for n := 0; n < c.Cycles; n++ {
		if c.Trig > 0 && n == c.TrigAt {
			w := m.Map.Write
			switch c.Trig {
			case 1:
				w(0xff12, 0xf0)
				w(0xff14, 0x87)
			case 2:
				w(0xff17, 0xf0)
				w(0xff19, 0x87)
			case 3:
				w(0xff1a, 0x80)
				w(0xff1c, 0x20)
				w(0xff1e, 0x87)
			case 4:
				w(0xff21, 0xf0)
				w(0xff23, 0x80)
			case 5:
				w(0xff24, 0x35)
			case 6:
				w(0xff25, 0x5a)
			case 7:
				w(0xff12, 0x08)
			}
		}
		nl, nr := step()
		lc.Trans(1)
		if nl != nr {
			return explore.Failf("left and right samples are not emitted together", "%s: cycle %d: %d left, %d right", ctx, n, nl, nr)
		}
		if nl > 1 {
			return explore.Failf("more than one stereo sample in a machine cycle", "%s: cycle %d: %d samples", ctx, n, nl)
		}
		if (c.Off || c.NoOut) && nl > 0 {
			return explore.Failf("samples emitted although sound is off or no outputs are attached", "%s: cycle %d", ctx, n)
		}
		if nl == 1 {
			// 4n <= phi + 95k < 4n+4
			if a := 4*n - 95*k; a > lo {
				lo = a
			}
			if b := 4*n + 4 - 95*k; b < hi {
				hi = b
			}
			if lo >= hi {
				return explore.Failf("samples are not emitted exactly once per 95 clock cycles", "%s: sample %d falls in machine cycle %d: no phase is consistent with one sample every 95 clock cycles since counting began", ctx, k, n)
			}
			k++
		}
	}
	if !c.Off && !c.NoOut {
		// the number of samples must match the rate as well (no sample may be missing at the end)
		exp := (4*c.Cycles - lo) / 95
		if k < exp-1 || k > exp+1 {
			return explore.Failf("samples are not emitted exactly once per 95 clock cycles", "%s: %d samples in %d machine cycles", ctx, k, c.Cycles)
		}
	}
	lc.Eval(1)
	lc.Outcome(uint64(k))
	return nil
}

// ---- pacing across power cycles ---------------------------------------------------------------

// c20Toggle: sound is switched off before machine cycle At and on again Off cycles later (Off = 0: both writes
// land between the same two machine cycles, so sound is on during every cycle).
type c20Toggle struct {
	At  int `json:"at"`
	Off int `json:"off"`
}

type c20Power struct {
	Toggles []c20Toggle `json:"toggles"`
	Cycles  int         `json:"cycles"`
}

// c20PowerCheck: with sound on, samples come on a 95-clock grid. Across power cycles the statement leaves
// two readings open — the grid keeps running in emulated time, or it counts powered-on time only — and both
// are accepted; what is not accepted is any sample sequence that fits neither (a grid that restarts or slips
// at a power-on swallows part of a period: fewer than one sample per 95 clock cycles of sound-on time).
func c20PowerCheck(lc *explore.Local, _ struct{}, c c20Power) *explore.Fail {
	m := machine.New(machine.ROMOnly(), machine.Opts{Audio: true, ChanCap: 64})
	on := make([]bool, c.Cycles)
	got := make([]bool, c.Cycles)
	edge := make([]bool, c.Cycles) // cycles next to a power write: what happens in them is not judged
	power := true
	for n := 0; n < c.Cycles; n++ {
		for _, t := range c.Toggles {
			if t.At == n {
				m.Map.Write(0xff26, 0x00)
				power = false
				edge[n] = true
			}
			if t.At+t.Off == n {
				m.Map.Write(0xff26, 0x80)
				power = true
				edge[n] = true
			}
		}
		m.A.EndMachineCycle()
		lc.Trans(1)
		l, r := drain(m)
		if len(l) != len(r) || len(l) > 1 {
			return explore.Failf("left and right samples are not emitted together", "toggles %v: cycle %d: %d left, %d right", c.Toggles, n, len(l), len(r))
		}
		on[n], got[n] = power, len(l) == 1
		if !power && got[n] {
			return explore.Failf("samples emitted although sound is off or no outputs are attached", "toggles %v: cycle %d", c.Toggles, n)
		}
	}
	fits := func(onTime bool) bool {
	phase:
		for phi := 0; phi < 95; phi++ {
			clk := 0 // clock cycles elapsed on the grid's time base before cycle n
			for n := 0; n < c.Cycles; n++ {
				if onTime && !on[n] {
					continue
				}
				// a grid point falls in this machine cycle iff some phi+95j lies in [clk, clk+4)
				r := ((clk-phi)%95 + 95) % 95
				point := r == 0 || r > 91
				clk += 4
				if edge[n] || !on[n] {
					continue
				}
				if point != got[n] {
					continue phase
				}
			}
			return true
		}
		return false
	}
	if !fits(false) && !fits(true) {
		var times []int
		for n, g := range got {
			if g && len(times) < 12 {
				times = append(times, n)
			}
		}
		return explore.Failf("samples are not emitted exactly once per 95 clock cycles", "sound switched off/on at %v (machine cycle, cycles off): the samples (machine cycles %v ...) fit no 95-clock grid, neither in emulated time nor in sound-on time", c.Toggles, times)
	}
	lc.Eval(1)
	k := 0
	for _, g := range got {
		if g {
			k++
		}
	}
	lc.Outcome(uint64(k))
	return nil
}

// ---- routing and range --------------------------------------------------------------------

type c20Route struct {
	NR51    int `json:"nr51"`
	Enabled int `json:"enabled"` // bit i: channel i+1 playing
	NR50    int `json:"nr50"`
	// Stale: bit i: channel i+1 has played (volume 15, non-mute) and was stopped by its length counter, DAC left
	// on, before the measurement: it is NOT enabled any more, so a side it alone is routed to must be silent
	Stale int `json:"stale,omitempty"`
}

// setup starts the enabled channels with the given parameter variant (0/1) per channel.
func c20Setup(c c20Route, variant [4]int) *machine.M {
	m := machine.New(machine.ROMOnly(), machine.Opts{Audio: true, ChanCap: 4096})
	w := m.Map.Write
	w(0xff26, 0x00)
	w(0xff26, 0x80)
	w(0xff24, uint8(c.NR50))
	w(0xff25, uint8(c.NR51))
	for i := 0; i < 16; i++ {
		v := uint8(i*17 + 3)
		if variant[2] == 1 {
			v = uint8(255 - i*9)
		}
		w(0xff30+uint16(i), v)
	}
	if c.Stale != 0 {
		w(0xff25, 0xff)
		if c.Stale&1 != 0 {
			w(0xff10, 0x00)
			w(0xff11, 0xbf)
			w(0xff12, 0xf0)
			w(0xff13, 0x9b)
			w(0xff14, 0xc7)
		}
		if c.Stale&2 != 0 {
			w(0xff16, 0xbf)
			w(0xff17, 0xf0)
			w(0xff18, 0x9b)
			w(0xff19, 0xc6)
		}
		if c.Stale&4 != 0 {
			w(0xff1a, 0x80)
			w(0xff1b, 0xff)
			w(0xff1c, 0x20)
			w(0xff1d, 0x9b)
			w(0xff1e, 0xc7)
		}
		if c.Stale&8 != 0 {
			w(0xff20, 0x3f)
			w(0xff21, 0xf0)
			w(0xff22, 0x01)
			w(0xff23, 0xc0)
		}
		for i := 0; i < 3*4096 && m.Map.Read(0xff26)&uint8(c.Stale) != 0; i++ {
			m.A.EndMachineCycle()
			drain(m)
		}
		w(0xff25, uint8(c.NR51))
	}
	vol := func(ch int) uint8 {
		if variant[ch] == 1 {
			return 0x70
		}
		return 0xf0
	}
	fr := func(ch int) uint8 {
		if variant[ch] == 1 {
			return 0xd3
		}
		return 0x9b
	}
	if c.Enabled&1 != 0 {
		w(0xff10, 0x00)
		w(0xff11, uint8(variant[0])<<7)
		w(0xff12, vol(0))
		w(0xff13, fr(0))
		w(0xff14, 0x87)
	}
	if c.Enabled&2 != 0 {
		w(0xff16, 0x40+uint8(variant[1])<<7)
		w(0xff17, vol(1))
		w(0xff18, fr(1))
		w(0xff19, 0x86)
	}
	if c.Enabled&4 != 0 {
		w(0xff1a, 0x80)
		w(0xff1c, 0x20+uint8(variant[2])<<5)
		w(0xff1d, fr(2))
		w(0xff1e, 0x87)
	}
	if c.Enabled&8 != 0 {
		w(0xff21, vol(3))
		w(0xff22, 0x01+uint8(variant[3])<<4)
		w(0xff23, 0x80)
	}
	return m
}

func c20Samples(m *machine.M, cycles int) (l, r []float32) {
	for i := 0; i < cycles; i++ {
		m.A.EndMachineCycle()
		a, b := drain(m)
		l, r = append(l, a...), append(r, b...)
	}
	return
}

func c20RouteCheck(lc *explore.Local, _ struct{}, c c20Route) *explore.Fail {
	const cycles = 1400
	base := c20Setup(c, [4]int{})
	bl, br := c20Samples(base, cycles)
	ctx := fmt.Sprintf("NR51=%02x enabled=%x NR50=%02x", c.NR51, c.Enabled, c.NR50)
	if c.Stale != 0 {
		ctx += fmt.Sprintf(" (channels %x played earlier and were stopped by their length counters)", c.Stale)
		if got := int(base.Map.Read(0xff26) & 0x0f); got != c.Enabled {
			return explore.Failf("harness: channel status after the set-up is not the requested one", "%s: NR52 low nibble %x", ctx, got)
		}
	}
	if len(bl) < 40 || len(bl) != len(br) {
		return explore.Failf("harness: too few samples", "%s: %d/%d", ctx, len(bl), len(br))
	}
	for side, s := range [][]float32{br, bl} { // side 0 = right (NR51 low nibble), 1 = left (high nibble)
		routed := (c.NR51 >> uint(4*side)) & 0x0f
		name := [2]string{"right", "left"}[side]
		nonzero := false
		for i, v := range s {
			f := float64(v)
			if math.IsNaN(f) || math.IsInf(f, 0) || v < 0 || v >= 1 {
				return explore.Failf("sample not finite or outside [0,1)", "%s: %s sample %d = %v", ctx, name, i, v)
			}
			if v != 0 {
				nonzero = true
			}
		}
		if routed&c.Enabled == 0 && nonzero {
			return explore.Failf("a side with no enabled channel routed to it is not silent", "%s: %s side has non-zero samples", ctx, name)
		}
		lc.Outcome(uint64(routed&c.Enabled)<<8 | uint64(side) | uint64(c.NR50)<<16)
	}
	// independence from channels not routed to a side: change only that channel's parameters
	for ch := 0; ch < 4; ch++ {
		if c.Enabled&(1<<uint(ch)) == 0 {
			continue
		}
		var v [4]int
		v[ch] = 1
		alt := c20Setup(c, v)
		al, ar := c20Samples(alt, cycles)
		for side, pair := range [][2][]float32{{br, ar}, {bl, al}} {
			routed := (c.NR51 >> uint(4*side)) & 0x0f
			if routed&(1<<uint(ch)) != 0 {
				continue
			}
			for i := range pair[0] {
				if i < len(pair[1]) && pair[0][i] != pair[1][i] {
					return explore.Failf("a sample depends on a channel that is not routed to that side", "%s: %s side changes when only channel %d (not routed there) is altered: sample %d %v vs %v",
						ctx, [2]string{"right", "left"}[side], ch+1, i, pair[0][i], pair[1][i])
				}
			}
		}
		lc.Trans(1)
	}
	lc.Eval(1)
	return nil
}

type c20Range struct {
	V1, V2, V4 int
	Wave       int
	NR50       int
}

func c20RangeCheck(lc *explore.Local, _ struct{}, c c20Range) *explore.Fail {
	m := machine.New(machine.ROMOnly(), machine.Opts{Audio: true, ChanCap: 4096})
	w := m.Map.Write
	w(0xff26, 0x00)
	w(0xff26, 0x80)
	w(0xff24, uint8(c.NR50))
	w(0xff25, 0xff)
	for i := 0; i < 16; i++ {
		w(0xff30+uint16(i), uint8(c.Wave))
	}
	w(0xff12, uint8(c.V1)<<4|0x08)
	w(0xff13, 0xff)
	w(0xff14, 0x87)
	w(0xff17, uint8(c.V2)<<4|0x08)
	w(0xff18, 0xfe)
	w(0xff19, 0x87)
	w(0xff1a, 0x80)
	w(0xff1c, 0x20)
	w(0xff1d, 0xfd)
	w(0xff1e, 0x87)
	w(0xff21, uint8(c.V4)<<4|0x08)
	w(0xff22, 0x00)
	w(0xff23, 0x80)
	l, r := c20Samples(m, 700)
	for _, s := range [][]float32{l, r} {
		for i, v := range s {
			f := float64(v)
			if math.IsNaN(f) || math.IsInf(f, 0) || v < 0 || v >= 1 {
				return explore.Failf("sample not finite or outside [0,1)", "volumes %d/%d/%d wave %02x NR50 %02x: sample %d = %v", c.V1, c.V2, c.V4, c.Wave, c.NR50, i, v)
			}
		}
	}
	lc.Eval(1)
	lc.Trans(len(l))
	var mx float32
	for _, v := range l {
		if v > mx {
			mx = v
		}
	}
	lc.Outcome(uint64(math.Float32bits(mx)))
	return nil
}

// c20Long: the envelopes are left to run. Channels 1, 2 and 4 are triggered with NRx2 = Env (every start volume,
// direction and period), optionally NRx2 is rewritten with Env2 without a new trigger after 20,000 cycles, and every
// sample of the following Cycles machine cycles (an envelope with period 7 needs 1.7 million to cross the whole
// range) must be finite and in [0,1).
type c20Long struct {
	Env    int  `json:"env"`
	Env2   int  `json:"env2"` // -1: no rewrite
	Cycles int  `json:"cycles"`
	Sweep  bool `json:"sweep,omitempty"` // channel 1 also runs a frequency sweep
}

func c20LongCheck(lc *explore.Local, _ struct{}, c c20Long) *explore.Fail {
	m := machine.New(machine.ROMOnly(), machine.Opts{Audio: true, ChanCap: 4096})
	w := m.Map.Write
	w(0xff26, 0x00)
	w(0xff26, 0x80)
	w(0xff24, 0x77)
	w(0xff25, 0xff)
	for i := 0; i < 16; i++ {
		w(0xff30+uint16(i), 0xf0)
	}
	if c.Sweep {
		w(0xff10, 0x79)
	}
	w(0xff12, uint8(c.Env))
	w(0xff13, 0x00)
	w(0xff14, 0x87)
	w(0xff17, uint8(c.Env))
	w(0xff18, 0xfe)
	w(0xff19, 0x87)
	w(0xff1a, 0x80)
	w(0xff1c, 0x20)
	w(0xff1d, 0xfd)
	w(0xff1e, 0x87)
	w(0xff21, uint8(c.Env))
	w(0xff22, 0x00)
	w(0xff23, 0x80)
	var mx float32
	n := 0
	for cyc := 0; cyc < c.Cycles; cyc++ {
		if cyc == 20000 && c.Env2 >= 0 {
			w(0xff12, uint8(c.Env2))
			w(0xff17, uint8(c.Env2))
			w(0xff21, uint8(c.Env2))
		}
		m.A.EndMachineCycle()
		l, r := drain(m)
		for _, s := range [][]float32{l, r} {
			for _, v := range s {
				f := float64(v)
				if math.IsNaN(f) || math.IsInf(f, 0) || v < 0 || v >= 1 {
					return explore.Failf("sample not finite or outside [0,1)", "NRx2=%02x (rewritten with %02x after 20,000 cycles: %v): a sample %d machine cycles after the trigger is %v", c.Env, c.Env2&0xff, c.Env2 >= 0, cyc, v)
				}
				if v > mx {
					mx = v
				}
				n++
			}
		}
	}
	lc.Eval(1)
	lc.Trans(n)
	lc.Outcome(uint64(math.Float32bits(mx)))
	return nil
}

// c20WaveWrite: channel 3 plays an all-zero wave at frequency F; K machine cycles after the trigger — every phase of
// two wave-step periods — the guest writes V to wave RAM (which byte the write lands on while the channel plays is
// C18's don't-care; the samples must stay in range whatever it hits).
type c20WaveWrite struct {
	F, K int
	V    uint8
	Addr uint16
}

func c20WaveWriteCheck(lc *explore.Local, _ struct{}, c c20WaveWrite) *explore.Fail {
	m := machine.New(machine.ROMOnly(), machine.Opts{Audio: true, ChanCap: 4096})
	w := m.Map.Write
	w(0xff26, 0x00)
	w(0xff26, 0x80)
	w(0xff24, 0x77)
	w(0xff25, 0xff)
	for i := 0; i < 16; i++ {
		w(0xff30+uint16(i), 0x00)
	}
	w(0xff1a, 0x80)
	w(0xff1c, 0x20)
	w(0xff1d, uint8(c.F))
	w(0xff1e, 0x80|uint8(c.F>>8))
	n := 0
	for cyc := 0; cyc < c.K+600; cyc++ {
		if cyc == c.K {
			w(c.Addr, c.V)
		}
		m.A.EndMachineCycle()
		l, r := drain(m)
		for _, s := range [][]float32{l, r} {
			for _, v := range s {
				if f := float64(v); math.IsNaN(f) || math.IsInf(f, 0) || v < 0 || v >= 1 {
					return explore.Failf("sample not finite or outside [0,1)", "channel 3 at f=%03x playing, %04x<-%02x written %d machine cycles after the trigger: a sample %d cycles after the trigger is %v", c.F, c.Addr, c.V, c.K, cyc, v)
				}
				n++
			}
		}
	}
	lc.Eval(1)
	lc.Trans(n)
	lc.Outcome(uint64(c.F)<<8 | uint64(c.V))
	return nil
}

// c20Late: only channel Obs is routed (to both sides); channel Other plays unrouted. Half-way Obs's frequency low byte
// is rewritten without a trigger (so its pitch is what NRx3 and the earlier NRx4 say). The runs differ only in Other:
// its frequency high bits (7 / 3), or it is started later (from idle, 600 cycles in) instead of at the beginning.
// Every sample of both sides must be the same in all three runs.
type c20Late struct {
	Obs, Other int // 1..4
}

func c20LateRun(c c20Late, variant int) (l, r []float32) {
	m := machine.New(machine.ROMOnly(), machine.Opts{Audio: true, ChanCap: 4096})
	w := m.Map.Write
	w(0xff26, 0x00)
	w(0xff26, 0x80)
	w(0xff24, 0x77)
	w(0xff25, uint8(0x11)<<uint(c.Obs-1))
	for i := 0; i < 16; i++ {
		w(0xff30+uint16(i), uint8(i*17+3))
	}
	start := func(ch int, hi uint8, trig bool) {
		t := uint8(0)
		if trig {
			t = 0x80
		}
		switch ch {
		case 1:
			w(0xff10, 0x00)
			w(0xff11, 0x80)
			w(0xff12, 0xf0)
			w(0xff13, 0x9b)
			w(0xff14, t|hi)
		case 2:
			w(0xff16, 0x40)
			w(0xff17, 0xf0)
			w(0xff18, 0x9b)
			w(0xff19, t|hi)
		case 3:
			w(0xff1a, 0x80)
			w(0xff1c, 0x20)
			w(0xff1d, 0x9b)
			w(0xff1e, t|hi)
		case 4:
			w(0xff21, 0xf0)
			w(0xff22, 0x00)
			w(0xff23, t)
		}
	}
	otherHi := uint8(7)
	if variant == 1 {
		otherHi = 3
	}
	start(c.Other, otherHi, variant != 2)
	start(c.Obs, 7, true)
	for cyc := 0; cyc < 1600; cyc++ {
		if cyc == 500 && c.Obs <= 3 {
			w([4]uint16{0, 0xff13, 0xff18, 0xff1d}[c.Obs], 0x3c)
		}
		if cyc == 600 && variant == 2 {
			start(c.Other, otherHi, true)
		}
		m.A.EndMachineCycle()
		a, b := drain(m)
		l, r = append(l, a...), append(r, b...)
	}
	return
}

func c20LateCheck(lc *explore.Local, _ struct{}, c c20Late) *explore.Fail {
	bl, br := c20LateRun(c, 0)
	if len(bl) < 50 {
		return explore.Failf("harness: too few samples", "%d", len(bl))
	}
	loud := false
	for _, v := range bl {
		loud = loud || v != 0
	}
	if !loud {
		return explore.Failf("harness: the routed channel is silent", "channel %d", c.Obs)
	}
	for variant, what := range map[int]string{1: "has other frequency high bits", 2: "is started 600 cycles later instead of at the beginning"} {
		al, ar := c20LateRun(c, variant)
		for side, pair := range [][2][]float32{{br, ar}, {bl, al}} {
			if len(pair[0]) != len(pair[1]) {
				return explore.Failf("a sample depends on a channel that is not routed to that side", "only channel %d routed; channel %d (unrouted) %s: %d vs %d samples", c.Obs, c.Other, what, len(pair[0]), len(pair[1]))
			}
			for i := range pair[0] {
				if pair[0][i] != pair[1][i] {
					return explore.Failf("a sample depends on a channel that is not routed to that side", "only channel %d is routed (both sides); when channel %d (unrouted) %s, %s sample %d changes %v -> %v",
						c.Obs, c.Other, what, [2]string{"right", "left"}[side], i, pair[0][i], pair[1][i])
				}
			}
		}
		lc.Trans(len(al))
	}
	lc.Eval(1)
	lc.Outcome(uint64(c.Obs)<<4 | uint64(c.Other))
	return nil
}

// c20Wired: the emulator as gameboy.New wires it, with the (stub) speakers attached: a guest routes channel 1 to one
// side only; what arrives at the speakers' Left() and Right() must be that side's mix and silence on the other side.
type c20Wired struct {
	NR51 uint8 `json:"nr51"`
	NR50 uint8 `json:"nr50"`
}

func c20WiredCheck(c *Ctx) func(lc *explore.Local, _ struct{}, q c20Wired) *explore.Fail {
	return func(lc *explore.Local, _ struct{}, q c20Wired) *explore.Fail {
		img := machine.Program(map[uint16][]byte{0x100: {0xc3, 0x50, 0x01}, 0x150: {
			0x3e, 0x80, 0xe0, 0x26, // NR52 = 80
			0x3e, q.NR50, 0xe0, 0x24,
			0x3e, q.NR51, 0xe0, 0x25,
			0x3e, 0x80, 0xe0, 0x11, // duty 50%
			0x3e, 0xf0, 0xe0, 0x12,
			0x3e, 0x00, 0xe0, 0x13,
			0x3e, 0x87, 0xe0, 0x14, // trigger, f = 700
			0x18, 0xfe,
		}})
		rom := writeOnce(filepath.Join(c.Scratch, fmt.Sprintf("c20-wired-%02x-%02x.gb", q.NR51, q.NR50)), img)
		g := newGB(rom, false, true, false)
		ctx := context.Background()
		var left, right []float32
		for f := 0; f < 3; f++ {
			g.frame(ctx)
			for _, side := range []struct {
				ch  chan float32
				dst *[]float32
			}{{g.spk.Left(), &left}, {g.spk.Right(), &right}} {
				for drained := false; !drained; {
					select {
					case v := <-side.ch:
						*side.dst = append(*side.dst, v)
					default:
						drained = true
					}
				}
			}
		}
		loud := func(s []float32) bool {
			for _, v := range s {
				if v != 0 {
					return true
				}
			}
			return false
		}
		wantL, wantR := q.NR51&0x10 != 0, q.NR51&0x01 != 0 // master volumes are non-zero in every case (what volume 0 does is not in the statement)
		if len(left) == 0 || len(left) != len(right) {
			return explore.Failf("gameboy.New with speakers attached: sample counts", "NR51=%02x NR50=%02x: %d left, %d right samples in 3 frames", q.NR51, q.NR50, len(left), len(right))
		}
		if loud(left) != wantL || loud(right) != wantR {
			return explore.Failf("gameboy.New with speakers attached: a side's samples are not that side's mix", "NR51=%02x NR50=%02x (channel 1 playing): left speaker carries sound: %v (want %v), right speaker carries sound: %v (want %v)", q.NR51, q.NR50, loud(left), wantL, loud(right), wantR)
		}
		lc.Eval(1)
		lc.Trans(len(left))
		lc.Outcome(uint64(q.NR51)<<8 | uint64(q.NR50))
		return nil
	}
}

func init() {
	register("C20", "model_checking", func(c *Ctx) {
		if c.R != nil {
			c.R.Rule = "(pacing) the sample channels are drained after every machine cycle for 2.3 million cycles (2.2 emulated seconds) from power-on and from 8 further phases (sound power-cycled there): per cycle at most one left and one right sample, always together, and one phase phi must exist with sample k in cycle floor((phi+95k)/4) for ALL k; with sound off or no outputs attached no sample at all; (power cycles) sound switched off and on again at every phase of the sample grid for several lengths (including zero: off and on between the same two cycles): no sample while off, and all samples must lie on one 95-clock grid, in emulated time or in sound-on time; (routing) NR51 (all 256) x playing-channel subset (16) x NR50 in {00,07,70,77}: a side with no playing channel routed to it is exactly 0, every sample finite and in [0,1), and for each playing channel not routed to a side the run that differs only in that channel's parameters gives the identical sample sequence on that side; (range) all channel volumes (16^3) x wave level x NR50 with everything routed; (range over time) channels 1, 2 and 4 triggered with every NRx2 value and left to run for 1.2 s (thorough 5.3 s) of emulated time, NRx2 rewritten without a trigger, with a sweep: every sample finite and in [0,1)"
			c.R.Assumptions = []string{"samples are taken from the channels handed to audio.New (machine wiring; the speakers wiring of gameboy.New is compared in C26)"}
		}
		cycles := 2300000
		explore.Product(c.R, "pacing", explore.PartOpt{Bound: fmt.Sprintf("%d machine cycles per run, every cycle observed", cycles), Domain: "9 phases; sound off; no outputs; a channel trigger or a mixer-register write in each of 96 consecutive machine cycles (a whole round of the 95-clock grid)"},
			func(yield func(c20Pace) bool) {
				for _, ph := range []int{0, 1, 2, 3, 23, 24, 1048575, 777777, 4000} {
					if !yield(c20Pace{Phase: ph, Cycles: cycles}) {
						return
					}
				}
				// a channel started (or a mixer register rewritten) in every machine cycle of one 95-cycle round of the grid,
				// twice: from idle and as a re-trigger
				for trig := 1; trig <= 7; trig++ {
					for at := 10; at < 106; at++ {
						if !yield(c20Pace{Phase: 3, Cycles: 420, Trig: trig, TrigAt: at}) {
							return
						}
					}
				}
				yield(c20Pace{Phase: 5, Cycles: 300000, Off: true})
				yield(c20Pace{Phase: 0, Cycles: 300000, NoOut: true})
			}, func() struct{} { return struct{}{} }, c20PaceCheck)
		explore.Product(c.R, "pacing-across-power-cycles", explore.PartOpt{Bound: "1,200 machine cycles per run, every cycle observed", Domain: "sound switched off before every machine cycle 30..124 (every phase of the 95-clock grid) for {0,1,2,23,24,95,300} cycles; and two such power cycles 7/40 cycles apart"},
			func(yield func(c20Power) bool) {
				for at := 30; at < 125; at++ {
					for _, off := range []int{0, 1, 2, 23, 24, 95, 300} {
						if !yield(c20Power{Toggles: []c20Toggle{{at, off}}, Cycles: 1200}) {
							return
						}
					}
					for _, gap := range []int{7, 40} {
						for _, off := range []int{0, 3} {
							if !yield(c20Power{Toggles: []c20Toggle{{at, off}, {at + off + gap, off}}, Cycles: 1200}) {
								return
							}
						}
					}
				}
			}, func() struct{} { return struct{}{} }, c20PowerCheck)
		explore.Product(c.R, "routing", explore.PartOpt{Bound: "1,400 machine cycles (58 samples) per run, paired runs per unrouted channel", Domain: "NR51 0-255 x playing subset 0-15 x NR50 {00,07,70,77}; plus NR51 0-255 x 6 playing subsets with every other channel having played and been stopped by its length counter (DAC on)"},
			func(yield func(c20Route) bool) {
				for nr51 := 0; nr51 < 256; nr51++ {
					for en := 0; en < 16; en++ {
						for _, nr50 := range []int{0x00, 0x07, 0x70, 0x77} {
							if !c.Thorough() && nr50 != 0x77 && (nr51*7+en)%8 != 0 {
								continue
							}
							if !yield(c20Route{NR51: nr51, Enabled: en, NR50: nr50}) {
								return
							}
						}
					}
				}
				// channels that played earlier and were stopped by their length counters (status bit 0, DAC still on)
				for nr51 := 0; nr51 < 256; nr51++ {
					for _, en := range []int{0x0, 0x1, 0x2, 0x4, 0x8, 0xb} {
						if !c.Thorough() && nr51%3 != 0 && en != 0 {
							continue
						}
						if !yield(c20Route{NR51: nr51, Enabled: en, NR50: 0x77, Stale: 0xf &^ en}) {
							return
						}
					}
				}
			}, func() struct{} { return struct{}{} }, c20RouteCheck)
		explore.Product(c.R, "range", explore.PartOpt{Bound: "700 machine cycles per run", Domain: "volumes 0-15 for channels 1,2,4 x wave byte {00,FF,F0} x NR50 {77,FF,00}"},
			func(yield func(c20Range) bool) {
				for v1 := 0; v1 < 16; v1++ {
					for v2 := 0; v2 < 16; v2++ {
						for v4 := 0; v4 < 16; v4++ {
							if !c.Thorough() && (v1+v2+v4)%3 != 0 && !(v1 == 15 && v2 == 15 && v4 == 15) {
								continue
							}
							for _, wv := range []int{0x00, 0xff, 0xf0} {
								for _, nr50 := range []int{0x77, 0xff, 0x00} {
									if !yield(c20Range{v1, v2, v4, wv, nr50}) {
										return
									}
								}
							}
						}
					}
				}
			}, func() struct{} { return struct{}{} }, c20RangeCheck)
		explore.Product(c.R, "range-with-wave-ram-writes", explore.PartOpt{Bound: "one wave-RAM write at every machine cycle of two wave-step periods after the trigger, then 600 cycles", Domain: "channel 3 at f in {701, 7F0, 7FC, 400} x values {F7, FF, 7F, 8F} x FF30 / FF3F"},
			func(yield func(c20WaveWrite) bool) {
				for _, f := range []int{0x701, 0x7f0, 0x7fc, 0x400} {
					span := (2048-f)/2*2 + 6
					if span > 700 {
						span = 700
					}
					for k := 0; k < span; k++ {
						for _, v := range []uint8{0xf7, 0xff, 0x7f, 0x8f} {
							for _, a := range []uint16{0xff30, 0xff3f} {
								if !yield(c20WaveWrite{F: f, K: k, V: v, Addr: a}) {
									return
								}
							}
						}
					}
				}
			}, func() struct{} { return struct{}{} }, c20WaveWriteCheck)
		explore.Product(c.R, "independence-with-late-events", explore.PartOpt{Bound: "1,600 machine cycles per run, three runs per pair", Domain: "every ordered pair (routed channel, unrouted channel): the unrouted one with other frequency high bits, or started 600 cycles in; the routed one's frequency low byte rewritten half-way"},
			func(yield func(c20Late) bool) {
				for obs := 1; obs <= 4; obs++ {
					for other := 1; other <= 4; other++ {
						if obs != other && !yield(c20Late{obs, other}) {
							return
						}
					}
				}
			}, func() struct{} { return struct{}{} }, c20LateCheck)
		c20RegPart(c)
		explore.Product(c.R, "routing-through-the-real-constructor", explore.PartOpt{Workers: 4, Bound: "3 frames of the real runFrame per case", Domain: "gameboy.New with speakers attached; channel 1 routed left only, right only, both, neither x NR50 {77, 71, 17}"},
			func(yield func(c20Wired) bool) {
				for _, nr51 := range []uint8{0x10, 0x01, 0x11, 0x00, 0xee} {
					for _, nr50 := range []uint8{0x77, 0x71, 0x17} {
						if !yield(c20Wired{NR51: nr51, NR50: nr50}) {
							return
						}
					}
				}
			}, func() struct{} { return struct{}{} }, c20WiredCheck(c))
		long := 1_250_000
		if c.Thorough() {
			long = 5_600_000 // 255 envelope steps at the slowest period would still be in range
		}
		explore.Product(c.R, "range-over-time", explore.PartOpt{Bound: fmt.Sprintf("%d machine cycles per run (%.1f s of emulated time), every sample checked", long, float64(long)/1048576), Domain: "every NRx2 value (start volume x direction x period) on channels 1, 2 and 4, all four channels routed to both sides at full master volume; NRx2 rewritten without a trigger (quick: 5 x 22 value pairs; thorough: 5 x 256); with a channel-1 sweep"},
			func(yield func(c20Long) bool) {
				for env := 0; env < 256; env++ {
					if !yield(c20Long{Env: env, Env2: -1, Cycles: long}) {
						return
					}
				}
				for _, a := range []int{0xf0, 0xf8, 0x00, 0x08, 0x0f} {
					for b := 0; b < 256; b++ {
						if !c.Thorough() && !(b >= 0xf9 || (b >= 0x01 && b <= 0x07) || b == 0x09 || b == 0x0f || b == 0x81 || b == 0x89 || b == 0x71) {
							continue
						}
						if !yield(c20Long{Env: a, Env2: b, Cycles: long * 2 / 3}) {
							return
						}
					}
				}
				for _, env := range []int{0xf9, 0x09, 0xf1, 0x87} {
					if !yield(c20Long{Env: env, Env2: -1, Cycles: long, Sweep: true}) {
						return
					}
				}
			}, func() struct{} { return struct{}{} }, c20LongCheck)
	})
}
