package props

import (
	"fmt"

	"verifmc/explore"
	"verifmc/machine"
	"verifmc/ref"
)

// C22, select writes among the guest's other stores: a store to some other address — object memory, work RAM, video
// RAM, high RAM, IE, the serial and sound registers — of the very value that is then written to JOYP (or of any other
// value) is no JOYP access: the select write that follows must take effect, and the store itself must not reach the pad.

type c22Other struct {
	Addr uint16 `json:"addr"`
	V    int    `json:"v"`    // value stored at Addr and then written to JOYP
	Keys int    `json:"keys"` // bit i: button i (reference order) held
	Off  bool   `json:"off"`  // the sound unit is powered off and the LCD switched off first
}

func c22OtherCheck(l *explore.Local, _ struct{}, c c22Other) *explore.Fail {
	n := &c22Node{m: machine.New(machine.ROMOnly(), machine.Opts{}), mod: ref.NewJoypad()}
	if c.Off {
		n.m.Map.Write(0xff26, 0x00)
		n.m.Map.Write(0xff40, 0x11)
	}
	for b := 0; b < 8; b++ {
		if c.Keys>>uint(b)&1 == 1 {
			n.Apply(c22Ev{"press", b})
		}
	}
	ctx := fmt.Sprintf("keys %02x held, %02x stored at %04x and then written to JOYP (sound and LCD off: %v)", c.Keys, c.V, c.Addr, c.Off)
	n.Apply(c22Ev{"write", 0x30 ^ c.V&0x30}) // the selection differs from the one to come
	n.m.Map.Write(c.Addr, uint8(c.V))
	if f := n.Apply(c22Ev{"read", 0}); f != nil {
		f.Msg = ctx + ", after the store: " + f.Msg
		return f
	}
	n.Apply(c22Ev{"write", c.V})
	l.Trans(3)
	if f := n.Apply(c22Ev{"read", 0}); f != nil {
		f.Msg = ctx + ", after the select write: " + f.Msg
		return f
	}
	// and the same value once more, then another one
	n.Apply(c22Ev{"write", c.V})
	if f := n.Apply(c22Ev{"read", 0}); f != nil {
		f.Msg = ctx + ", after the same select write again: " + f.Msg
		return f
	}
	n.Apply(c22Ev{"write", c.V ^ 0x10})
	if f := n.Apply(c22Ev{"read", 0}); f != nil {
		f.Msg = ctx + ", after the next select write: " + f.Msg
		return f
	}
	l.Eval(1)
	l.Outcome(uint64(n.m.Map.Read(0xff00)) | uint64(c.Keys)<<8)
	return nil
}

func c22OtherPart(c *Ctx) {
	addrs := []uint16{0xfe00, 0xfe01, 0xfe9f, 0xfea0, 0xfeff, 0xc000, 0xdf00, 0xe000, 0x8000, 0xa000, 0x0000, 0xff80, 0xfffe, 0xffff, 0xff01, 0xff02, 0xff10, 0xff24, 0xff30, 0xff42, 0xff47, 0xff7f}
	explore.Product(c.R, "select-writes-among-other-stores", explore.PartOpt{
		Bound:  "store, read, select write, read, the same select write, read, another select write, read",
		Domain: fmt.Sprintf("%d other addresses (object memory, unusable area, work / echo / video / cartridge / high RAM, ROM, IE, serial, sound, LCD registers) x values {00,10,20,30,CF,EF} x 4 held-key sets x sound and LCD on / off", len(addrs))},
		func(yield func(c22Other) bool) {
			for _, a := range addrs {
				for _, v := range []int{0x00, 0x10, 0x20, 0x30, 0xcf, 0xef} {
					for _, k := range []int{0x00, 0x21, 0x5a, 0xff} {
						for _, off := range []bool{false, true} {
							if !yield(c22Other{Addr: a, V: v, Keys: k, Off: off}) {
								return
							}
						}
					}
				}
			}
		}, func() struct{} { return struct{}{} }, c22OtherCheck)
}
