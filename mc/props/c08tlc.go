package props

import (
	"fmt"

	"verifmc/explore"
	"verifmc/machine"
)

// C08 (and the RAM-bank half of C09), secondary evidence: tla/MBC1.tla restates the MBC1 register machine
// independently of the Go reference model; TLC checks the statement's claims on it (0 -> 1 remap, mode-0 windows fixed,
// a 2000-3FFF write moves only the upper window, the RAM gate moves nothing) and dumps its state graph for 128 and
// for 16 ROM pages. EVERY edge is replayed on the real Mapper with an MBC1+RAM image of that size: the shortest
// write path to the edge's source state on a fresh cartridge, then the edge's write; both ROM windows are identified
// by their page signatures and the RAM window by a tag stored in each bank beforehand.

type c08Edge struct {
	Pages int        `json:"pages"`
	E     tlcGenEdge `json:"edge"`
}

func c08TLCWrite(m *machine.M, ev string) error {
	var v int
	for name, addr := range map[string]uint16{"WRamg(%d)": 0x0000, "WBank1(%d)": 0x2000, "WBank2(%d)": 0x4000, "WMode(%d)": 0x6000} {
		if n, _ := fmt.Sscanf(ev, name, &v); n == 1 {
			m.Map.Write(addr, uint8(v))
			return nil
		}
	}
	return fmt.Errorf("unknown event %q", ev)
}

func c08EdgeCheck(l *explore.Local, _ struct{}, c c08Edge) *explore.Fail {
	code := uint8(0)
	for 2<<code < c.Pages {
		code++
	}
	m := machine.New(machine.Image(0x03, code, 3, c.Pages), machine.Opts{})
	// tag the four RAM banks, then put the registers back to the model's initial state
	for _, w := range [][2]uint16{{0x0000, 0x0a}, {0x6000, 1}, {0x4000, 0}, {0xa000, 0xb0}, {0x4000, 1}, {0xa000, 0xb1}, {0x4000, 2}, {0xa000, 0xb2}, {0x4000, 3}, {0xa000, 0xb3},
		{0x4000, 0}, {0x6000, 0}, {0x0000, 0}, {0x2000, 1}} {
		m.Map.Write(w[0], uint8(w[1]))
	}
	for _, ev := range append(append([]string(nil), c.E.Path...), c.E.Ev) {
		if err := c08TLCWrite(m, ev); err != nil {
			return explore.Failf("tlc-edge: "+err.Error(), "%v", c.E)
		}
		l.Trans(1)
	}
	w := c.E.Want
	bank1, bank2 := w.Int("bank1"), w.Int("bank2")
	low, ramBank := 0, 0
	if w.Bool("mode") {
		low, ramBank = (bank2*32)%c.Pages, bank2%4
	}
	high := (bank2*32 + bank1) % c.Pages
	ctx := fmt.Sprintf("MBC1 with %d pages, from model state %v (reached by %v) write %s -> %v", c.Pages, c.E.Src, c.E.Path, c.E.Ev, w)
	page := func(base uint16) int { return int(m.Map.Read(base))<<8 | int(m.Map.Read(base+1)) }
	if got := page(0x0000); got != low {
		return explore.Failf("tlc-edge: window 0000-3FFF shows the wrong ROM page", "%s: page %d, model %d", ctx, got, low)
	}
	if got := page(0x4000); got != high {
		return explore.Failf("tlc-edge: window 4000-7FFF shows the wrong ROM page", "%s: page %d, model %d", ctx, got, high)
	}
	wantRAM := 0xff
	if w.Bool("ramg") {
		wantRAM = 0xb0 + ramBank
	}
	if got := int(m.Map.Read(0xa000)); got != wantRAM {
		return explore.Failf("tlc-edge: window A000-BFFF shows the wrong RAM bank or gate state", "%s: A000 reads %02x, model %02x", ctx, got, wantRAM)
	}
	l.Eval(1)
	l.Outcome(uint64(low)<<24 | uint64(high)<<8 | uint64(wantRAM) ^ uint64(c.Pages)<<40)
	return nil
}

func c08TLCPart(c *Ctx) {
	var cases []c08Edge
	bound := ""
	if c.R != nil {
		for _, cfg := range []struct {
			name  string
			pages int
		}{{"MBC1_128", 128}, {"MBC1_16", 16}} {
			edges, b, ok := tlcGraphFor(c, "MBC1", cfg.name, 4)
			if !ok {
				continue
			}
			bound += cfg.name + ": " + b + ". "
			for _, e := range edges {
				cases = append(cases, c08Edge{Pages: cfg.pages, E: e})
			}
		}
	}
	explore.Product(c.R, "tlc-edge-replay", explore.PartOpt{Bound: bound, Domain: "TLA+ model tla/MBC1.tla (13 written values x 4 control regions), 128 and 16 ROM pages, 4 RAM banks"},
		func(yield func(c08Edge) bool) {
			for _, e := range cases {
				if !yield(e) {
					return
				}
			}
		}, func() struct{} { return struct{}{} }, c08EdgeCheck)
}
