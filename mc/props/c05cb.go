package props

import (
	"fmt"

	"github.com/scottyw/tetromino/gameboy/cpu"
	"verifmc/explore"
)

// C05 / C01, the instructions AFTER the one that follows a halt-bug HALT. What a CB-prefixed instruction does right
// after such a HALT is a corner that descriptions of the DMG differ on (the prefix byte is read twice, or the second
// byte is), so it is not judged. But whatever happens there is over after that instruction: the plain instructions
// that come next execute once each. The guest is HALT; CB xx; xx-as-an-opcode is harmless; then k times INC A and a
// JR to itself. Under every reading A ends k higher and PC ends on the JR.

type c05CB struct {
	Op   uint8 `json:"cb_op"`
	K    int   `json:"k"`
	IE   uint8 `json:"ie"`
	IF   uint8 `json:"if"`
	Bug  bool  `json:"halt_bug"` // IME clear and a request pending at HALT (else: a plain wake-up, as a control)
	Wake int   `json:"wake,omitempty"`
}

func c05CBCheck(l *explore.Local, e *cpuEnv, c c05CB) *explore.Fail {
	e.log = e.log[:0]
	code := []uint8{0x76, 0xcb, c.Op}
	for i := 0; i < c.K; i++ {
		code = append(code, 0x3c)
	}
	code = append(code, 0x18, 0xfe, 0x00, 0x00)
	for i, b := range code {
		e.poke(0xc000+uint16(i), b)
	}
	end := uint16(0xc000 + 3 + c.K)
	e.m.CPU.VSet(cpu.VRegs{A: 0x10, B: 0x21, C: 0x32, D: 0x43, E: 0x54, H: 0xc8, L: 0x00, SP: 0xdf00, PC: 0xc000})
	e.poke(0xc800, 0x77)
	e.m.Map.Write(0xffff, c.IE)
	e.m.I.Disable()
	if c.Bug {
		e.m.Map.Write(0xff0f, c.IF)
	} else {
		e.m.Map.Write(0xff0f, 0x00)
	}
	for n := 0; n < 60; n++ {
		if !c.Bug && n == c.Wake {
			e.m.Map.Write(0xff0f, c.IF)
		}
		e.m.CPU.ExecuteMachineCycle()
		l.Trans(1)
	}
	g := e.m.CPU.VGet()
	e.m.Map.Write(0xff0f, 0x00)
	if g.PC < end || g.PC > end+2 || g.A != uint8(0x10+c.K) { // the JR loop: PC is at the JR, inside it or just past it
		return explore.Failf("an instruction after a halt-bug HALT and its follower is not executed exactly once",
			"HALT (IME clear, IE=%02x IF=%02x, halt bug: %v); CB %02x; %d x INC A; JR -2: after 60 machine cycles A=%02x (started at 10, so %d increments) PC=%04x, the JR is at %04x",
			c.IE, c.IF, c.Bug, c.Op, c.K, g.A, int(g.A)-0x10, g.PC, end)
	}
	l.Eval(1)
	l.Outcome(uint64(g.A)<<16 | uint64(g.PC))
	return nil
}

func c05CBPart(c *Ctx) {
	// CB opcodes whose second byte is harmless as a plain opcode too (LD r,r' forms that leave A alone, never (HL) as a
	// destination... 40-6F except the HALT slot 76 lies outside): BIT n,r for r != (HL) covers 40-7F minus x6/xE
	var ops []uint8
	for op := 0x40; op < 0x70; op++ {
		if op&7 == 6 || op>>3&7 == 6 { // (HL) operand / destination
			continue
		}
		ops = append(ops, uint8(op))
	}
	explore.Product(c.R, "after-a-prefixed-halt-follower", explore.PartOpt{
		Bound:  "60 machine cycles per case",
		Domain: fmt.Sprintf("%d CB-prefixed followers x 1-3 plain instructions after them x halt bug (5 sources) and plain wake-up (3 moments)", len(ops))},
		func(yield func(c05CB) bool) {
			for _, op := range ops {
				for k := 1; k <= 3; k++ {
					for src := uint(0); src < 5; src++ {
						if !yield(c05CB{Op: op, K: k, IE: 1 << src, IF: 1 << src, Bug: true}) {
							return
						}
					}
					for _, wake := range []int{3, 4, 9} {
						if !yield(c05CB{Op: op, K: k, IE: 0x04, IF: 0x04, Wake: wake}) {
							return
						}
					}
				}
			}
		}, newCPUEnv, c05CBCheck)
}
