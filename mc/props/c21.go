package props

import (
	"fmt"

	"verifmc/explore"
	"verifmc/machine"
)

// C21 — waveform step periods and the noise generator's sequence.

type c21Case struct {
	Ch    int `json:"ch"` // 1,2,3 (frequency f) or 4 (NR43 value f) or 5/6 (LFSR sequence, width 15/7)
	F     int `json:"f"`
	Steps int `json:"steps"`
	// Silent: the channel runs at volume 0 with its DAC on (NRx2 = 08; channel 3: output level mute): inaudible,
	// but the generator must keep stepping at its frequency
	Silent bool `json:"silent,omitempty"`
	// Other > 0: after At machine cycles another channel (Other) is set up and triggered; the observed channel's
	// steps must stay on their grid (the four generators are independent)
	Other int `json:"other,omitempty"`
	At    int `json:"at,omitempty"`
	// Idle: machine cycles the sound hardware runs before the channel is programmed; Cycles > 0: the channel is observed
	// for that many machine cycles (every step in them) instead of a number of steps. Together they place the run
	// anywhere in emulated time (the generators count emulated time for as long as the machine runs)
	Idle   int `json:"idle,omitempty"`
	Cycles int `json:"cycles,omitempty"`
	// Junk: the trigger write to NRx4 also has the unused bits 3-5 set (38): only bits 0-2 are frequency bits
	Junk bool `json:"junk_bits,omitempty"`
	// StaleLow: NRx3 is written (5A) before sound is powered off and on again and NOT afterwards; the channel is
	// started through NRx4 alone: powering off clears the frequency registers, so the frequency is the high bits only
	StaleLow bool `json:"stale_low,omitempty"`
	// Env != 0: NRx2 value of the observed channel (1, 2, 4): a volume envelope that keeps stepping while the channel
	// plays (the run then spans many 64 Hz envelope clocks); the waveform grid does not depend on the volume unit
	Env uint8 `json:"env,omitempty"`
	// Event (at machine cycle At): a register write that must not move the observed channel's steps: "nr52on" = NR52
	// written with 80 / FF while sound is already on; "nr50", "nr51" = master volume / routing rewritten
	Event string `json:"event,omitempty"`
}

func c21Setup(ch, f int, silent ...bool) *machine.M {
	m := machine.New(machine.ROMOnly(), machine.Opts{})
	c21Program(m, ch, f, silent...)
	return m
}

func c21Program(m *machine.M, ch, f int, silent ...bool) { c21ProgramEnv(m, ch, f, silent) }

func c21ProgramEnv(m *machine.M, ch, f int, silent []bool, env ...uint8) {
	junk := uint8(0)
	if len(silent) > 1 && silent[1] {
		junk = 0x38
	}
	w := m.Map.Write
	w(0xff26, 0x00)
	w(0xff26, 0x80)
	vol, lvl := uint8(0xf0), uint8(0x20)
	if len(silent) > 0 && silent[0] {
		vol, lvl = 0x08, 0x00
	}
	if len(env) > 0 && env[0] != 0 {
		vol = env[0]
	}
	switch ch {
	case 1:
		w(0xff10, 0x00)
		w(0xff12, vol)
		w(0xff13, uint8(f))
		w(0xff14, 0x80|junk|uint8(f>>8))
	case 2:
		w(0xff17, vol)
		w(0xff18, uint8(f))
		w(0xff19, 0x80|junk|uint8(f>>8))
	case 3:
		w(0xff1a, 0x80)
		w(0xff1c, lvl)
		w(0xff1d, uint8(f))
		w(0xff1e, 0x80|junk|uint8(f>>8))
	default:
		w(0xff21, vol)
		w(0xff22, uint8(f))
		w(0xff23, 0x80)
	}
}

func c21Check(l *explore.Local, _ struct{}, c c21Case) *explore.Fail {
	if c.Ch >= 5 {
		return c21LFSR(l, c)
	}
	var m *machine.M
	if c.StaleLow {
		m = machine.New(machine.ROMOnly(), machine.Opts{})
		w := m.Map.Write
		w(0xff26, 0x80)
		for _, a := range []uint16{0xff13, 0xff18, 0xff1d} {
			w(a, 0x5a)
		}
		w(0xff26, 0x00)
		w(0xff26, 0x80)
		hi := uint8(c.F >> 8)
		switch c.Ch {
		case 1:
			w(0xff12, 0xf0)
			w(0xff14, 0x80|hi)
		case 2:
			w(0xff17, 0xf0)
			w(0xff19, 0x80|hi)
		case 3:
			w(0xff1a, 0x80)
			w(0xff1c, 0x20)
			w(0xff1e, 0x80|hi)
		}
	} else if c.Idle > 0 {
		m = machine.New(machine.ROMOnly(), machine.Opts{})
		for i := 0; i < c.Idle; i++ {
			m.A.EndMachineCycle()
		}
		c21ProgramEnv(m, c.Ch, c.F, []bool{c.Silent, c.Junk}, c.Env)
	} else {
		m = machine.New(machine.ROMOnly(), machine.Opts{})
		c21ProgramEnv(m, c.Ch, c.F, []bool{c.Silent, c.Junk}, c.Env)
	}
	var period int // clock cycles per waveform step
	name := ""
	mod := 8
	switch c.Ch {
	case 1, 2:
		period = 4 * (2048 - c.F)
		name = fmt.Sprintf("channel %d duty step period is not 4x(2048-f) clock cycles", c.Ch)
	case 3:
		period = 2 * (2048 - c.F)
		name = "channel 3 wave step period is not 2x(2048-f) clock cycles"
		mod = 32
	case 4:
		r, s := c.F&7, c.F>>4
		d := 8
		if r > 0 {
			d = 16 * r
		}
		period = d << uint(s)
		name = "channel 4 LFSR clock period is not d(r)x2^s clock cycles"
	}
	pos := func() int {
		st := m.A.VGet()
		switch c.Ch {
		case 1:
			return int(st.Duty1)
		case 2:
			return int(st.Duty2)
		case 3:
			return int(st.WavePos)
		}
		return int(st.LFSR)
	}
	// phase window [lo,hi): steps(N) = floor((4N+phi)/P) must hold for one phi for all N
	lo, hi := -period-16, period // the delay of the first step after a trigger is a convention (at most one extra period)
	steps := 0
	prev := pos()
	maxCycles := (c.Steps + 2) * (period/4 + 1)
	if c.Cycles > 0 {
		maxCycles, c.Steps = c.Cycles, 1<<30
	}
	for n := 1; n <= maxCycles && steps < c.Steps; n++ {
		if c.Event != "" && n == c.At {
			switch c.Event {
			case "nr52on":
				m.Map.Write(0xff26, 0x80)
			case "nr52ff":
				m.Map.Write(0xff26, 0xff)
			case "nr50":
				m.Map.Write(0xff24, 0x31)
			case "nr51":
				m.Map.Write(0xff25, 0x5a)
			}
		}
		if c.Other > 0 && n == c.At {
			w := m.Map.Write
			switch c.Other {
			case 1:
				w(0xff12, 0xf0)
				w(0xff13, 0x55)
				w(0xff14, 0x86)
			case 2:
				w(0xff17, 0xf0)
				w(0xff18, 0x55)
				w(0xff19, 0x86)
			case 3:
				w(0xff1a, 0x80)
				w(0xff1c, 0x20)
				w(0xff1d, 0x55)
				w(0xff1e, 0x86)
			case 4:
				w(0xff21, 0xf0)
				w(0xff22, 0x23)
				w(0xff23, 0x80)
			}
		}
		m.A.EndMachineCycle()
		cur := pos()
		if c.Ch == 4 {
			if cur != prev {
				steps++
			}
		} else {
			steps += ((cur-prev)%mod + mod) % mod
		}
		prev = cur
		// steps*P <= 4n + phi < (steps+1)*P
		if a := steps*period - 4*n; steps > 0 && a > lo { // before the first step only the upper bound applies
			lo = a
		}
		if b := (steps+1)*period - 4*n; b < hi {
			hi = b
		}
		if lo >= hi {
			what := fmt.Sprintf("f=%03x", c.F)
			if c.Ch == 4 {
				what = fmt.Sprintf("NR43=%02x (r=%d s=%d)", c.F, c.F&7, c.F>>4)
				if c.F>>4 > 0 {
					name = "channel 4 LFSR clock ignores or mis-applies the shift s"
				}
			}
			return explore.Failf(name, "%s: after %d machine cycles %d steps were taken; no phase is consistent with one step every %d clock cycles", what, n, steps, period)
		}
		l.Trans(1)
	}
	if c.Cycles > 0 {
		c.Steps = steps
	}
	if steps < c.Steps {
		return explore.Failf(name, "f=%x: only %d steps in %d machine cycles (period %d clocks)", c.F, steps, maxCycles, period)
	}
	l.Eval(1)
	l.Outcome(uint64(period)<<8 | uint64(c.Ch))
	return nil
}

// ---- the frequency changes while the channel runs ---------------------------------------------

// c21Change: channel Ch is triggered at F0; then either the sweep unit (NR10, channel 1) or a register
// write without trigger (NRx3 / NRx4 low bits, K machine cycles after a waveform step) changes the
// frequency. The current frequency is read through the hook; after every change the step in flight and
// the one after it are not judged (whether the running period is cut short is a convention), then the
// steps must again fit one step per 4(2048-f) (channel 3: 2(2048-f)) clock cycles for the NEW f.
type c21Change struct {
	Ch     int   `json:"ch"`
	F0     int   `json:"f0"`
	NR10   uint8 `json:"nr10,omitempty"`
	F1     int   `json:"f1,omitempty"` // register change (-1: none, sweep only)
	K      int   `json:"k,omitempty"`
	Cycles int   `json:"cycles"`
}

func c21ChangeCheck(l *explore.Local, _ struct{}, c c21Change) *explore.Fail {
	m := machine.New(machine.ROMOnly(), machine.Opts{})
	w := m.Map.Write
	w(0xff26, 0x00)
	w(0xff26, 0x80)
	lo3, hi4 := [4]uint16{0, 0xff13, 0xff18, 0xff1d}[c.Ch], [4]uint16{0, 0xff14, 0xff19, 0xff1e}[c.Ch]
	switch c.Ch {
	case 1:
		w(0xff10, c.NR10)
		w(0xff12, 0xf0)
	case 2:
		w(0xff17, 0xf0)
	case 3:
		w(0xff1a, 0x80)
		w(0xff1c, 0x20)
	}
	w(lo3, uint8(c.F0))
	w(hi4, 0x80|uint8(c.F0>>8))
	mod, mul := 8, 4
	if c.Ch == 3 {
		mod, mul = 32, 2
	}
	obs := func() (pos, f int, on bool) {
		st := m.A.VGet()
		return int([3]uint8{st.Duty1, st.Duty2, st.WavePos}[c.Ch-1]), int(st.Freq[c.Ch-1]), st.Enabled[c.Ch-1]
	}
	prev, curF, _ := obs()
	if curF != c.F0 {
		return explore.Failf("harness: the frequency hook does not show the triggered frequency", "f0=%03x hook=%03x", c.F0, curF)
	}
	skip := 1 // the first step after the trigger: its delay is a convention
	var lo, hi, steps, n0 int
	open := false
	changes := 0
	written := c.F1 < 0
	sinceStep := -1
	for n := 1; n <= c.Cycles; n++ {
		if !written && sinceStep == c.K {
			w(lo3, uint8(c.F1))
			if c.F1>>8 != c.F0>>8 {
				w(hi4, uint8(c.F1>>8))
			}
			written = true
		}
		m.A.EndMachineCycle()
		l.Trans(1)
		pos, f, on := obs()
		if !on {
			break // switched off (sweep overflow): nothing more to time
		}
		d := ((pos-prev)%mod + mod) % mod
		prev = pos
		if sinceStep >= 0 {
			sinceStep++
		}
		if d > 0 && sinceStep < 0 {
			sinceStep = 0
		} else if d > 0 {
			sinceStep = 0
		}
		if written && c.F1 >= 0 && c.NR10 == 0 && f != c.F1 {
			return explore.Failf(fmt.Sprintf("channel %d: the frequency registers do not hold the value written", c.Ch),
				"ch%d f0=%03x: after the frequency registers were rewritten with %03x (low byte%s) without a trigger the channel's frequency is %03x", c.Ch, c.F0, c.F1, map[bool]string{true: " and high bits", false: " only"}[c.F1>>8 != c.F0>>8], f)
		}
		if f != curF {
			curF = f
			changes++
			open = false
			skip = 2
			if d > 0 {
				skip = 3 // the change and a step fall in the same cycle: which period that step started is not fixed
			}
		}
		period := mul * (2048 - curF)
		if d > 0 && !open {
			skip -= d
			if skip <= 0 {
				// this step is the origin of a new window: its true time is 4*n0 + phi with phi in (-4, 0]
				open, lo, hi, steps, n0 = true, -4, 0, 0, n
			}
			continue
		}
		if !open {
			continue
		}
		steps += d
		// S steps by the end of cycle n  <=>  phi + S*P <= el  and  phi + (S+1)*P > el, with el = 4(n-n0)
		el := 4 * (n - n0)
		if a := el - (steps+1)*period; a > lo {
			lo = a // exclusive
		}
		if b := el - steps*period; b < hi {
			hi = b // inclusive
		}
		if lo >= hi {
			return explore.Failf(fmt.Sprintf("channel %d does not step at the period of its current frequency after the frequency changed", c.Ch),
				"ch%d f0=%03x nr10=%02x f1=%03x k=%d: current frequency %03x (change number %d): %d steps in the %d machine cycles after a step, one step per %d clock cycles expected",
				c.Ch, c.F0, c.NR10, c.F1, c.K, curF, changes, steps, n-n0, period)
		}
	}
	l.Eval(1)
	l.Outcome(uint64(changes)<<32 | uint64(curF)<<8 | uint64(c.Ch))
	return nil
}

// c21LFSR: at the fastest clock (NR43 = 00 / 08) the output bit must have minimal period
// 32,767 / 127 and be (a rotation of) the documented sequence.
func c21LFSR(l *explore.Local, c c21Case) *explore.Fail {
	width7 := c.Ch == 6
	nr43 := 0x00
	want := 32767
	if width7 {
		nr43 = 0x08
		want = 127
	}
	m := c21Setup(4, nr43)
	// collect the output bit after every LFSR step (period 8 clocks = 2 machine cycles)
	n := want*3 + 8
	bits := make([]uint8, 0, n)
	prev := m.A.VGet().LFSR
	for cyc := 0; len(bits) < n && cyc < n*4; cyc++ {
		m.A.EndMachineCycle()
		cur := m.A.VGet().LFSR
		if cur != prev {
			bits = append(bits, uint8(cur&1))
			prev = cur
		}
		l.Trans(1)
	}
	kind := "15-bit"
	if width7 {
		kind = "7-bit"
	}
	if len(bits) < n {
		return explore.Failf("channel 4 LFSR does not step at the fastest clock", "%s mode: %d steps observed", kind, len(bits))
	}
	// minimal period of the tail (skip the first few steps: start-up convention)
	tail := bits[8:]
	period := 0
	for p := 1; p <= want*2; p++ {
		ok := true
		for i := 0; i+p < len(tail); i++ {
			if tail[i] != tail[i+p] {
				ok = false
				break
			}
		}
		if ok {
			period = p
			break
		}
	}
	if period != want {
		return explore.Failf("channel 4 "+kind+" noise sequence does not have its maximal period", "%s mode: output period %d, documented %d", kind, period, want)
	}
	// reference sequence
	ref := make([]uint8, want)
	x := uint16(0x7fff)
	for i := range ref {
		nb := (x ^ x>>1) & 1
		x = x>>1 | nb<<14
		if width7 {
			x = x&^0x40 | nb<<6
		}
		ref[i] = uint8(x & 1)
	}
	match := false
	for rot := 0; rot < want && !match; rot++ {
		match = true
		for i := 0; i < want; i++ {
			if tail[i] != ref[(i+rot)%want] {
				match = false
				break
			}
		}
	}
	if !match {
		return explore.Failf("channel 4 "+kind+" noise sequence is not the documented LFSR sequence", "%s mode: period %d but not a rotation of the x^15+x^14+1 sequence", kind, period)
	}
	l.Eval(1)
	l.Outcome(uint64(want))
	return nil
}

func init() {
	register("C21", "model_checking", func(c *Ctx) {
		if c.R != nil {
			c.R.Rule = "waveform positions are read (hook) after every machine cycle: for channels 1-3 and every enumerated 11-bit frequency f the cumulative number of duty/wave steps after N machine cycles must equal floor((4N+phi)/P) for one phase phi and P = 4(2048-f) (2(2048-f) for channel 3) over 24 steps (and over every step of 0.35 s runs that start 0.9 s and 1.9 s after the sound hardware); for channel 4 and every NR43 value with s <= 13 the LFSR must step every d(r)*2^s clock cycles over 6 steps; when the frequency changes while a channel runs (channel 1 sweep settings; NRx3/NRx4 rewritten without a trigger at 8 offsets within a period) the steps that follow must again be one per 4(2048-f) clock cycles for the new f (current f read through the hook; the period in flight is not judged); at the fastest clock the output bit sequence over 3 periods must have minimal period 32,767 (15-bit) / 127 (7-bit) and be a rotation of the documented LFSR sequence"
			c.R.Assumptions = []string{"quick: all f with at most 2 bits set or at most 2 bits clear plus neighbours of 0x400 (the thorough tier enumerates all 2,048)", "the phase of each generator after a trigger is a convention (calibrated)"}
		}
		explore.Product(c.R, "step-periods", explore.PartOpt{Bound: "24 waveform steps (6 LFSR steps) per configuration", Domain: "channels 1-3 x f; channel 4 x NR43 with s<=13; runs of 0.35 s placed across the first and second whole second of emulated time; while another channel is triggered at 20 offsets (all 12 ordered pairs); the same at volume 0 with the DAC on (5 frequencies; NR43 with s<=6); with a volume envelope stepping for 300,000 cycles (5 NRx2 values); with NR52 (80 / FF while on), NR50 or NR51 rewritten at 20 offsets; LFSR sequences"},
			func(yield func(c21Case) bool) {
				// a volume envelope stepping while the channel plays: 300,000 machine cycles = 18 envelope clocks
				for _, env := range []uint8{0xf3, 0xf1, 0x0b, 0xa7, 0x97} {
					for _, cf := range [][2]int{{1, 0x700}, {1, 0x7f0}, {2, 0x700}, {2, 0x123}, {4, 0x23}, {4, 0x00}} {
						if !yield(c21Case{Ch: cf[0], F: cf[1], Cycles: 300_000, Env: env}) {
							return
						}
					}
				}
				// control-register writes that are not the channel's: NR52 written again while sound is on, NR50, NR51
				for _, ev := range []string{"nr52on", "nr52ff", "nr50", "nr51"} {
					for _, cf := range [][2]int{{1, 0x700}, {2, 0x6d6}, {3, 0x700}, {4, 0x23}} {
						for at := 3; at < 1200; at += 61 {
							if !yield(c21Case{Ch: cf[0], F: cf[1], Cycles: at + 1500, Event: ev, At: at}) {
								return
							}
						}
					}
				}
				for ch := 1; ch <= 3; ch++ {
					for f := 0; f < 2048; f++ {
						if !c.Thorough() {
							ones := 0
							for b := 0; b < 11; b++ {
								if f>>uint(b)&1 == 1 {
									ones++
								}
							}
							if ones > 2 && ones < 9 && (f < 0x3fe || f > 0x402) {
								continue
							}
						}
						if !yield(c21Case{Ch: ch, F: f, Steps: 24}) {
							return
						}
					}
				}
				for v := 0; v < 256; v++ {
					if v>>4 > 13 {
						continue
					}
					if !c.Thorough() && v>>4 > 9 && v&7 > 1 {
						continue // the slowest clocks (up to 229k machine cycles per step) in the thorough tier
					}
					if !yield(c21Case{Ch: 4, F: v, Steps: 6}) {
						return
					}
				}
				// another channel is triggered while the observed one runs: every pair, 20 offsets across a period
				for ch := 1; ch <= 4; ch++ {
					f := 0x700
					if ch == 4 {
						f = 0x12
					}
					for other := 1; other <= 4; other++ {
						if other == ch {
							continue
						}
						for k := 0; k < 20; k++ {
							if !yield(c21Case{Ch: ch, F: f, Steps: 12, Other: other, At: 260 + 13*k}) {
								return
							}
						}
					}
				}
				// silent but running: volume 0 with the DAC on
				for ch := 1; ch <= 3; ch++ {
					for _, f := range []int{0x000, 0x400, 0x6ff, 0x7c0, 0x7ff} {
						if !yield(c21Case{Ch: ch, F: f, Steps: 24, Silent: true}) {
							return
						}
					}
				}
				for v := 0; v < 256; v++ {
					if v>>4 > 6 {
						continue
					}
					if !yield(c21Case{Ch: 4, F: v, Steps: 6, Silent: true}) {
						return
					}
				}
				// frequency low byte written only before a power cycle: it must be gone afterwards
				for ch := 1; ch <= 3; ch++ {
					for _, f := range []int{0x000, 0x300, 0x700} {
						if !yield(c21Case{Ch: ch, F: f, Steps: 12, StaleLow: true}) {
							return
						}
					}
				}
				// the trigger written with the unused bits 3-5 of NRx4 set
				for ch := 1; ch <= 3; ch++ {
					for _, f := range []int{0x000, 0x400, 0x6d6, 0x7ff} {
						if !yield(c21Case{Ch: ch, F: f, Steps: 12, Junk: true}) {
							return
						}
					}
				}
				yield(c21Case{Ch: 5})
				yield(c21Case{Ch: 6})
				// long runs placed across whole seconds of emulated time: the channel starts 0.9 s (1.9 s) after the sound
				// hardware and is observed for 0.35 s, every step
				for ch := 1; ch <= 4; ch++ {
					for _, f := range []int{0x700, 0x7ff, 0x400} {
						if ch == 4 {
							f = map[int]int{0x700: 0x00, 0x7ff: 0x12, 0x400: 0x37}[f]
						}
						for _, idle := range []int{943_000, 2*1048576 - 100_000} {
							if idle > 1048576 && !c.Thorough() && f != 0x700 && f != 0x00 {
								continue
							}
							if !yield(c21Case{Ch: ch, F: f, Idle: idle, Cycles: 370_000}) {
								return
							}
						}
					}
				}
			}, func() struct{} { return struct{}{} }, c21Check)
		explore.Product(c.R, "frequency-changes", explore.PartOpt{Bound: "sweep: 60,000 machine cycles (7 sweep clocks); register change: 12 periods", Domain: "channel 1 sweep: NR10 in 12 period/direction/shift settings x 6 start frequencies; channels 1-3: 6 (f0,f1) pairs x register write at 8 offsets within a period"},
			func(yield func(c21Change) bool) {
				for _, nr10 := range []uint8{0x11, 0x12, 0x17, 0x19, 0x1a, 0x1f, 0x21, 0x2a, 0x32, 0x3b, 0x71, 0x79} {
					for _, f0 := range []int{0x100, 0x400, 0x555, 0x700, 0x7c0, 0x7f0} {
						if !yield(c21Change{Ch: 1, F0: f0, NR10: nr10, F1: -1, Cycles: 60000}) {
							return
						}
					}
				}
				for ch := 1; ch <= 3; ch++ {
					for _, ff := range [][2]int{{0x700, 0x780}, {0x780, 0x700}, {0x7f0, 0x600}, {0x6ff, 0x700}, {0x7fe, 0x7ff}, {0x400, 0x7c0}} {
						p := 2048 - ff[0]
						if ch == 3 {
							p /= 2
						}
						for _, k := range []int{0, 1, 2, 3, p / 2, p - 3, p - 2, p - 1} {
							if k < 0 {
								continue
							}
							if !yield(c21Change{Ch: ch, F0: ff[0], F1: ff[1], K: k, Cycles: 14 * 2048}) {
								return
							}
						}
					}
				}
			}, func() struct{} { return struct{}{} }, c21ChangeCheck)
	})
}
