package props

import (
	"fmt"

	"github.com/scottyw/tetromino/gameboy/controller"
	"github.com/scottyw/tetromino/gameboy/cpu"
	"verifmc/explore"
	"verifmc/machine"
	"verifmc/ref"
)

// C22 — complete closure of the joypad: BFS from power-on over all 16 press/release
// events and all 256 JOYP writes, through Mapper.Read/Write(FF00) and
// Controller.ButtonAction, in lockstep with ref.Joypad.

type c22Ev struct {
	Kind string `json:"k"` // "press" "release" "write" "read" (JOYP is only read, and judged, by read events: a read
	// may itself change hidden state of the implementation — e.g. refresh a cache — so observing after every
	// event would hide what is pending between two reads)
	Arg int `json:"a"` // button index (ref order) or value
}

var c22Buttons = [8]controller.Button{controller.Right, controller.Left, controller.Up, controller.Down,
	controller.A, controller.B, controller.Select, controller.Start}

type c22Snap struct {
	C   controller.Controller
	Mod ref.Joypad
}

type c22Node struct {
	m   *machine.M
	mod ref.Joypad
	st  int // start state (the rest of the machine: DMA in flight, LCD/sound off); part of the key
}

func (n *c22Node) Apply(ev c22Ev) *explore.Fail {
	switch ev.Kind {
	case "press", "release":
		n.m.C.ButtonAction(c22Buttons[ev.Arg], ev.Kind == "press")
		n.mod.Button(ref.JButton(ev.Arg), ev.Kind == "press")
	case "write":
		n.m.Map.Write(0xff00, uint8(ev.Arg))
		n.mod.Write(uint8(ev.Arg))
	case "stop":
		// the CPU executes STOP and is woken by the front end's key callback (the press itself is a separate event):
		// not a JOYP write, so nothing the statement speaks of may change
		n.m.Map.Write(0xc000, 0x10)
		n.m.Map.Write(0xc001, 0x00)
		n.m.CPU.VSet(cpu.VRegs{SP: 0xdff0, PC: 0xc000})
		n.m.I.Disable()
		for i := 0; i < 4; i++ {
			n.m.CPU.ExecuteMachineCycle()
		}
		n.m.CPU.OnInput()
		n.m.CPU.ExecuteMachineCycle()
	}
	if ev.Kind != "read" {
		return nil
	}
	got, want := n.m.Map.Read(0xff00), n.mod.Read()
	if got != want {
		sig := "joyp-mismatch"
		switch {
		case got&0xc0 != 0xc0:
			sig = "joyp-bits67-not-one"
		case got&0x30 != want&0x30:
			sig = "joyp-select-bits-not-last-written"
		case n.mod.Sel == 0x00:
			sig = "joyp-both-groups-selected-not-combined"
		case n.mod.Sel == 0x30:
			sig = "joyp-none-selected-not-all-ones"
		case n.mod.Sel == 0x20:
			sig = "joyp-direction-group-wrong"
		case n.mod.Sel == 0x10:
			sig = "joyp-button-group-wrong"
		}
		return explore.Failf(sig, "JOYP reads %02x, documented %02x (select=%02x held dirs=%x buttons=%x)",
			got, want, n.mod.Sel, n.mod.Dirs, n.mod.Btns)
	}
	// opposite directions never read as pressed together (checked under the direction select)
	if n.mod.Sel&0x10 == 0 && n.mod.Sel&0x20 != 0 {
		if got&0x03 == 0 || got&0x0c == 0 {
			return explore.Failf("joyp-opposite-directions-together", "JOYP %02x shows opposite directions held", got)
		}
	}
	return nil
}

func (n *c22Node) Key() string {
	// every field of the real Controller, whatever it is called (not a list of known fields)
	return fmt.Sprintf("%d|%s|%02x%x%x", n.st, explore.DeepKey(*n.m.C, 64), n.mod.Sel, n.mod.Dirs, n.mod.Btns)
}

// c22Burst: n press/release events with no JOYP access in between (key events come from the window system, outside
// the machine's timeline, so any number may arrive between two reads), then one read per select value.
type c22Burst struct {
	Pattern  int  `json:"pattern"` // 0 round-robin presses; 1 press/release pairs walking over the buttons; 2 press all 8, release all 8; 3 one button toggled
	N        int  `json:"n"`
	Sel      int  `json:"sel"`
	SelFirst bool `json:"sel_first"` // the select write precedes the burst
}

func c22BurstEv(pattern, i int) (btn int, press bool) {
	switch pattern {
	case 0:
		return i % 8, true
	case 1:
		return (i / 2) % 8, i%2 == 0
	case 2:
		return i % 8, (i/8)%2 == 0
	}
	return 5, i%2 == 0
}

func c22BurstCheck(l *explore.Local, _ struct{}, c c22Burst) *explore.Fail {
	n := &c22Node{m: machine.New(machine.ROMOnly(), machine.Opts{}), mod: ref.NewJoypad()}
	if c.SelFirst {
		n.Apply(c22Ev{"write", c.Sel})
	}
	for i := 0; i < c.N; i++ {
		b, p := c22BurstEv(c.Pattern, i)
		k := "release"
		if p {
			k = "press"
		}
		n.Apply(c22Ev{k, b})
		l.Trans(1)
	}
	if !c.SelFirst {
		n.Apply(c22Ev{"write", c.Sel})
	}
	if f := n.Apply(c22Ev{"read", 0}); f != nil {
		f.Msg = fmt.Sprintf("after a burst of %d key events without a JOYP access: %s", c.N, f.Msg)
		return f
	}
	l.Eval(1)
	l.Outcome(uint64(n.m.Map.Read(0xff00)) | uint64(n.mod.Dirs)<<8 | uint64(n.mod.Btns)<<12)
	return nil
}

func init() {
	register("C22", "model_checking", func(c *Ctx) {
		if c.R != nil {
			c.R.Rule = "breadth-first closure of the real Controller (via Mapper FF00 and ButtonAction) paired with the reference joypad; a state is (controller fields, model fields); JOYP is read and compared with the model by an explicit read event from every reached state (so any number of presses, releases and writes may lie between two reads); non-trivial = distinct (state,event) successor keys; plus bursts of up to 260 key events with no JOYP access in between (the closure merges states, so it cannot tell how many events arrived since the last read)"
			c.R.Assumptions = []string{"JOYP interrupt requests are not part of the statement", "key = every field of the real Controller struct, rendered by reflection (so a field added later is part of the key), + model fields"}
		}
		var evs []c22Ev
		for b := 0; b < 8; b++ {
			evs = append(evs, c22Ev{"press", b}, c22Ev{"release", b})
		}
		for v := 0; v < 256; v++ {
			evs = append(evs, c22Ev{"write", v})
		}
		evs = append(evs, c22Ev{"read", 0}, c22Ev{"stop", 0})
		c22OtherPart(c)
		explore.Product(c.R, "event-bursts", explore.PartOpt{Bound: "bursts of 1..260 key events between two JOYP accesses", Domain: "4 event patterns x select values {10,20,00,30} written before or after the burst"},
			func(yield func(c22Burst) bool) {
				for pat := 0; pat < 4; pat++ {
					for n := 1; n <= 260; n++ {
						for _, sel := range []int{0x10, 0x20, 0x00, 0x30} {
							for _, first := range []bool{false, true} {
								if !yield(c22Burst{pat, n, sel, first}) {
									return
								}
							}
						}
					}
				}
			}, func() struct{} { return struct{}{} }, c22BurstCheck)
		explore.BFS(c.R, explore.BFSSpec[int, c22Ev, *c22Node]{
			Name:   "joypad-closure",
			Starts: []int{0, 1, 2},
			New: func(st int) *c22Node {
				n := &c22Node{m: machine.New(machine.ROMOnly(), machine.Opts{}), mod: ref.NewJoypad(), st: st}
				switch st {
				case 1: // an OAM DMA in flight (no machine cycle passes in this closure, so it stays in flight)
					n.m.Map.Write(0xff46, 0xc0)
				case 2: // LCD and sound switched off
					n.m.Map.Write(0xff40, 0x00)
					n.m.Map.Write(0xff26, 0x00)
				}
				return n
			},
			Save:       func(n *c22Node) any { return c22Snap{*n.m.C, n.mod} },
			Load:       func(n *c22Node, s any) { *n.m.C, n.mod = s.(c22Snap).C, s.(c22Snap).Mod },
			CrossCheck: 97,
			Events:     func(*c22Node) []c22Ev { return evs },
			MaxDepth:   0,
			MaxDev:     -1,
			Opt:        explore.PartOpt{Bound: "unbounded depth, closure", Domain: "16 press/release events + 256 JOYP writes + read + the CPU executing STOP, from power-on, with an OAM DMA in flight, and with LCD and sound off"},
		})
	})
}
