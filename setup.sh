#!/bin/bash
# MANIFEST.setup_cmd: warm the Go build cache and build vmc once (offline).
set -e
cd "$(dirname "$0")"
export GOFLAGS=-mod=mod GOPROXY=off GOSUMDB=off GOTOOLCHAIN=local
mkdir -p .cache/go-build .build evidence replays
# building through ./check warms exactly the cache the checks use
VERIF_BUDGET_S=5 ./check C22 --tier quick >/dev/null 2>&1 || true
# C25 also uses a second binary built with -race: build it once here so that the first real run finds a warm cache
VERIF_BUDGET_S=1 VERIF_OUT=$(mktemp -d) ./check C25 --tier quick >/dev/null 2>&1 || true
test -x .build/*/vmc
echo "setup ok"
