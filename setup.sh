#!/bin/bash
# MANIFEST.setup_cmd: warm the Go build cache and build vmc once (offline).
set -e
cd "$(dirname "$0")"
export GOFLAGS=-mod=mod GOPROXY=off GOSUMDB=off GOTOOLCHAIN=local
mkdir -p .cache/go-build .build evidence replays
# building through ./check warms exactly the cache the checks use
VERIF_BUDGET_S=5 ./check C22 --tier quick >/dev/null 2>&1 || true
test -x .build/*/vmc
echo "setup ok"
